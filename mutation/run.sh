#!/bin/bash
# run.sh <module> <first-id> <last-id> [step]  — for every step-th mechanical mutant of the module in the id range:
# apply it to a scratch worktree, keep it only if the module still builds and its own tests pass, then run
# every harness of the module (./check M-<module>) against the worktree.  One line per mutant in
# /verif/.work/mutation/<module>.tsv:  id  file:line  operator  tests(killed|pass)  check(exit code)  first violated label
MOD=$1; A=$2; B=$3; STEP=${4:-1}
export GOFLAGS=-mod=readonly GOPROXY=off GOSUMDB=off GOTOOLCHAIN=local
WT=/tmp/wt-mut-$MOD
OUT=/verif/.work/mutation; mkdir -p $OUT
[ -d $WT ] || git -C /repo worktree add --detach $WT HEAD >/dev/null 2>&1
cd /verif
for id in $(seq $A $STEP $B); do
  git -C $WT checkout -q -- . 
  desc=$(MUT_REPO=$WT python3 mutation/mutate.py apply $MOD $id $WT 2>/dev/null | tr '\n' ' ') || continue
  [ -z "$desc" ] && continue
  loc=$(echo "$desc" | awk '{print $1" "$2}')
  if ! (cd $WT/modules/$MOD && timeout 300 go test -vet=off -count=1 ./... >/dev/null 2>&1); then
    echo -e "$id\t$loc\tkilled-by-tests\t-\t-" >> $OUT/$MOD.tsv; continue
  fi
  res=$(VERIF_REPO=$WT VERIF_SCRATCH=mut-$MOD timeout 1500 ./check M-$MOD --tier quick --no-native 2>&1)
  code=$(echo "$res" | grep -o "exit=[0-9]*" | tail -1)
  lab=$(echo "$res" | grep -m1 "VIOLATION \|INCONCLUSIVE" | cut -c1-200)
  echo -e "$id\t$loc\tpass\t$code\t$lab\t$desc" >> $OUT/$MOD.tsv
done
git -C $WT checkout -q -- .
