#!/usr/bin/env python3
"""mutate.py — mechanical mutants of irisnet/irismod for testing the checks (not part of any check).

  mutate.py list <module>                 -> one line per candidate mutant: <id> <file>:<line> <operator>
  mutate.py apply <module> <id> <worktree> -> applies mutant <id> to the scratch worktree (prints the diff line)

Operators are line-local textual rewrites in the non-test, non-generated .go files of modules/<module>/keeper,
types, and the module root (abci.go, genesis.go ...).  Deterministic numbering.
"""
import os, re, sys, glob

REPO = os.environ.get("MUT_REPO", "/repo")

OPS = [
    ("rel<=", r"(?<![<>=!:+\-*/&|])<=(?!=)", "<"),
    ("rel<", r"(?<![<>=!:\-])<(?![<=\-])", "<="),
    ("rel>=", r"(?<![<>=!:\-])>=(?!=)", ">"),
    ("rel>", r"(?<![<>=!:\-])>(?![>=])", ">="),
    ("eq", r"(?<![<>=!:])==(?!=)", "!="),
    ("ne", r"!=(?!=)", "=="),
    ("and", r"&&", "||"),
    ("or", r"\|\|", "&&"),
    ("GT", r"\.GT\(", ".GTE("), ("GTE", r"\.GTE\(", ".GT("), ("LT", r"\.LT\(", ".LTE("), ("LTE", r"\.LTE\(", ".LT("),
    ("Add", r"\.Add\(", ".Sub("), ("Sub", r"\.Sub\(", ".Add("),
    ("Mul", r"\.Mul\(", ".Quo("), ("Quo", r"\.Quo\(", ".Mul("),
    ("IsZero", r"\.IsZero\(\)", ".IsPositive()"), ("IsPositive", r"\.IsPositive\(\)", ".IsZero()"), ("IsNegative", r"\.IsNegative\(\)", ".IsZero()"),
    ("Trunc", r"\.TruncateInt\(\)", ".RoundInt()"), ("Ceil", r"\.Ceil\(\)", ""),
    ("plus1", r"\+ 1\b", "- 1"), ("minus1", r"- 1\b", "+ 1"), ("AddRaw1", r"\.AddRaw\(1\)", ""), ("SubRaw1", r"\.SubRaw\(1\)", ""),
    ("plusplus", r"\+\+", "--"), ("pluseq", r"\+=", "-="), ("minuseq", r"-=", "+="),
    ("true", r"\btrue\b", "false"), ("false", r"\bfalse\b", "true"),
    ("not", r"if !", "if "),
]
CALL_STMT = re.compile(r"^\t+(k|m\.k|keeper|h\.k|store)\.[A-Za-z]+\([^{}]*\)\s*$")


def files(mod):
    base = os.path.join(REPO, "modules", mod)
    out = []
    for pat in ("*.go", "keeper/*.go", "types/*.go"):
        for f in sorted(glob.glob(os.path.join(base, pat))):
            b = os.path.basename(f)
            if b.endswith("_test.go") or b.endswith(".pb.go") or b.endswith(".pb.gw.go") or b in ("module.go", "depinject.go", "codec.go", "errors.go", "events.go", "keys.go", "expected_keepers.go", "expected_keeper.go", "querier.go", "grpc_query.go", "msgs.go", "mock.go", "ante.go", "invariants.go", "handler.go", "legacy_msg_server.go", "swap_registry.go", "exported.go") or "simulation" in f or "migrat" in b or b.startswith("zz_"):
                continue
            out.append(f)
    return out


def candidates(mod):
    n = 0
    for f in files(mod):
        lines = open(f).read().split("\n")
        infunc = False
        for i, l in enumerate(lines):
            s = l.strip()
            if l.startswith("func "):
                infunc = True
            if not infunc or s.startswith("//") or not s or "Logger(" in l or "Errorf" in l or "Wrapf" in l or "Wrap(" in l or "NewAttribute" in l or "fmt.S" in l or "panic(" in l:
                continue
            code = l.split("//")[0]
            if '"' in code or "`" in code:
                code_nos = re.sub(r'"[^"]*"', lambda m: " " * len(m.group(0)), code)
            else:
                code_nos = code
            for name, pat, rep in OPS:
                if name in ("ne", "eq") and re.search(r"err\s*[!=]=\s*nil|\bnil\b|\bok\b|found|exist", code_nos):
                    continue
                if name == "not" and re.search(r"found|exist|ok\b|has\b", code_nos):
                    pass
                for m in re.finditer(pat, code_nos):
                    new = code[: m.start()] + rep + code[m.end():] + l[len(code):]
                    n += 1
                    yield n, f, i, name, new
            if CALL_STMT.match(code) and "defer" not in code:
                n += 1
                yield n, f, i, "delcall", re.match(r"^\t+", l).group(0) + "// mutated: " + s


def main():
    cmd, mod = sys.argv[1], sys.argv[2]
    if cmd == "list":
        for n, f, i, name, new in candidates(mod):
            print(n, os.path.relpath(f, REPO) + ":" + str(i + 1), name)
    elif cmd == "apply":
        want, wt = int(sys.argv[3]), sys.argv[4]
        for n, f, i, name, new in candidates(mod):
            if n == want:
                rel = os.path.relpath(f, REPO)
                p = os.path.join(wt, rel)
                lines = open(p).read().split("\n")
                old = lines[i]
                lines[i] = new
                open(p, "w").write("\n".join(lines))
                print(f"{rel}:{i+1} [{name}]\n- {old.strip()}\n+ {new.strip()}")
                return
        sys.exit("no such mutant")


main()
