package keeper_test

// Public-API reproducer for C05 (real simapp, real x/bank): the reward collector only receives
// rewardPerBlock*blocks per update, but pays floor(rps*stake)-debt per farmer with the debt
// re-floored on every stake change; after three stakes the last full withdrawal is owed one unit
// more than the collector holds and fails.

import (
	"cosmossdk.io/math"
	tmproto "github.com/cometbft/cometbft/proto/tendermint/types"
	sdk "github.com/cosmos/cosmos-sdk/types"
)

func (suite *KeeperTestSuite) TestVerifFindingC05CollectorShortfall() {
	at := func(h int64) sdk.Context {
		return suite.app.BaseApp.NewContextLegacy(isCheckTx, tmproto.Header{Height: h})
	}
	lpt := func(n int64) sdk.Coin { return sdk.NewCoin(testLPTokenDenom, math.NewInt(n)) }
	one := sdk.NewCoins(sdk.NewCoin(sdk.DefaultBondDenom, math.NewInt(1)))
	total := sdk.NewCoins(sdk.NewCoin(sdk.DefaultBondDenom, math.NewInt(1000)))
	pool, err := suite.keeper.CreatePool(at(1), testPoolDescription, testLPTokenDenom, 1, one, total, true, testCreator)
	suite.Require().NoError(err)
	_, err = suite.keeper.Stake(at(1), pool.Id, lpt(2), testFarmer1) // A stakes 2
	suite.Require().NoError(err)
	_, err = suite.keeper.Stake(at(2), pool.Id, lpt(1), testFarmer2) // +1 block: B stakes 1
	suite.Require().NoError(err)
	_, err = suite.keeper.Stake(at(5), pool.Id, lpt(1), testFarmer1) // +3 blocks: A stakes 1 more
	suite.Require().NoError(err)
	_, err = suite.keeper.Unstake(at(7), pool.Id, lpt(3), testFarmer1) // +2 blocks: A withdraws everything
	suite.Require().NoError(err, "first farmer's full withdrawal failed")
	_, err = suite.keeper.Unstake(at(7), pool.Id, lpt(1), testFarmer2) // B withdraws everything
	suite.Require().NoError(err, "last farmer's full withdrawal failed")
}
