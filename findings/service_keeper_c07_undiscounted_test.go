package keeper_test

// Reproducer for C07 (real simapp): with a volume promotion in force, the amount charged to the
// consumer for a batch (FilterServiceProviders' total, as used by end-block) is the undiscounted
// price, while each request records the discounted fee; the difference is stranded in the escrow.

import (
	"time"

	sdk "github.com/cosmos/cosmos-sdk/types"

	"mods.irisnet.org/modules/service/types"
)

func (suite *KeeperTestSuite) TestVerifFindingC07UndiscountedCharge() {
	providers := []sdk.AccAddress{testProvider, testProvider1}
	suite.setServiceDefinition()
	for _, p := range providers {
		suite.setServiceBinding(true, time.Time{}, p, testOwner)
		suite.keeper.SetRequestVolume(suite.ctx, testConsumer, testServiceName, p, 5) // promotion {volume:1, discount:0.5} applies
	}
	ctx := suite.ctx.WithBlockHeight(1000)
	requestContextID, _ := suite.setRequestContext(ctx, testConsumer, providers, types.RUNNING, 0, "")
	newProviders, charged, _, err := suite.keeper.FilterServiceProviders(ctx, testServiceName, providers, testTimeout, testServiceFeeCap, testConsumer)
	suite.Require().NoError(err)
	ids := suite.keeper.InitiateRequests(ctx, requestContextID, newProviders, map[string][]string{})
	recorded := sdk.NewCoins()
	for _, id := range ids {
		r, found := suite.keeper.GetRequest(ctx, id)
		suite.Require().True(found)
		recorded = recorded.Add(r.ServiceFee...)
	}
	suite.Require().Equal(recorded.String(), charged.String(), "consumer charged %s for requests whose fees add up to %s", charged, recorded)
}
