package keeper_test

// Public-API reproducer for C16 (real simapp, real x/bank): the token module accepts an issue-token base
// fee whose denomination is ill-formed through MsgUpdateParams (validation only checks the sign of the
// amount); issuing the next token then panics.

import (
	sdkmath "cosmossdk.io/math"
	sdk "github.com/cosmos/cosmos-sdk/types"

	"mods.irisnet.org/modules/token/keeper"
	v1 "mods.irisnet.org/modules/token/types/v1"
)

func (suite *KeeperTestSuite) TestVerifFindingC16TokenFeeDenom() {
	p := v1.DefaultParams()
	p.IssueTokenBaseFee = sdk.Coin{Denom: "sta ke", Amount: sdkmath.NewInt(5)}
	authority := suite.app.GovKeeper.GetAuthority()
	_, err := keeper.NewMsgServerImpl(suite.keeper).UpdateParams(suite.ctx, &v1.MsgUpdateParams{Authority: authority, Params: p})
	if err != nil {
		return // rejected: fine
	}
	msg := &v1.MsgIssueToken{Symbol: "kitty", Name: "Kitty Token", MinUnit: "kitty6", Scale: 6, InitialSupply: 2, MaxSupply: 2, Mintable: true, Owner: owner.String()}
	suite.Require().NotPanics(func() { _, _ = keeper.NewMsgServerImpl(suite.keeper).IssueToken(suite.ctx, msg) }, "token issue panicked under an accepted parameter set")
}
