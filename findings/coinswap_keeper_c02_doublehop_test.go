package keeper_test

// Public-API reproducer for C02 (real simapp, real x/bank): a double-hop order whose
// recipient differs from the sender must leave the standard coin of both unchanged.

import (
	"time"

	sdkmath "cosmossdk.io/math"
	sdk "github.com/cosmos/cosmos-sdk/types"

	"mods.irisnet.org/modules/coinswap/keeper"
	"mods.irisnet.org/modules/coinswap/types"
)

func (suite *TestSuite) TestVerifFindingC02DoubleHopRecipient() {
	sender1, _ := createReservePool(suite, denomBTC)
	sender2, _ := createReservePool(suite, denomETH)
	for _, buy := range []bool{true, false} {
		in, out := int64(1000), int64(100)
		if !buy {
			in, out = 100, 1
		}
		msg := types.NewMsgSwapOrder(
			types.Input{Coin: sdk.NewCoin(denomBTC, sdkmath.NewInt(in)), Address: sender1.String()},
			types.Output{Coin: sdk.NewCoin(denomETH, sdkmath.NewInt(out)), Address: sender2.String()},
			time.Now().Add(time.Minute).Unix(), buy)
		s1 := suite.app.BankKeeper.GetBalance(suite.ctx, sender1, denomStandard).Amount
		s2 := suite.app.BankKeeper.GetBalance(suite.ctx, sender2, denomStandard).Amount
		_, err := keeper.NewMsgServerImpl(suite.keeper).SwapCoin(suite.ctx, msg)
		suite.Require().NoError(err)
		d1 := suite.app.BankKeeper.GetBalance(suite.ctx, sender1, denomStandard).Amount.Sub(s1)
		d2 := suite.app.BankKeeper.GetBalance(suite.ctx, sender2, denomStandard).Amount.Sub(s2)
		suite.Require().True(d1.IsZero(), "sender's standard coin changed by %s (buy=%v)", d1, buy)
		suite.Require().True(d2.IsZero(), "recipient's standard coin changed by %s (buy=%v)", d2, buy)
	}
}
