package keeper_test

// Reproducer for C07 (real simapp, real x/bank): an owner with two providers; provider 1 earned
// fees in two denoms, provider 2 in one.  After withdrawing provider 1's earnings the owner-side
// tally of the second denom is left behind, and a later withdraw-all pays it a second time out
// of the request escrow.  (Tallies are set exactly as AddEarnedFee leaves them.)

import (
	"cosmossdk.io/math"
	sdk "github.com/cosmos/cosmos-sdk/types"
	minttypes "github.com/cosmos/cosmos-sdk/x/mint/types"

	"mods.irisnet.org/modules/service/types"
)

func (suite *KeeperTestSuite) TestVerifFindingC07StaleOwnerTally() {
	k, ctx := suite.keeper, suite.ctx
	stake, other := sdk.DefaultBondDenom, testDenom1
	for _, p := range []sdk.AccAddress{testProvider, testProvider1} {
		k.SetOwner(ctx, p, testOwner)
		k.SetOwnerProvider(ctx, testOwner, p)
	}
	c := func(d string, n int64) sdk.Coin { return sdk.NewCoin(d, math.NewInt(n)) }
	k.SetEarnedFees(ctx, testProvider, sdk.NewCoins(c(stake, 10), c(other, 7)))
	k.SetEarnedFees(ctx, testProvider1, sdk.NewCoins(c(stake, 5)))
	k.SetOwnerEarnedFees(ctx, testOwner, sdk.NewCoins(c(stake, 15), c(other, 7)))
	// the request escrow holds exactly the earned fees plus 100 of each denom belonging to pending requests
	escrow := sdk.NewCoins(c(stake, 115), c(other, 107))
	suite.Require().NoError(suite.app.BankKeeper.MintCoins(ctx, minttypes.ModuleName, escrow))
	suite.Require().NoError(suite.app.BankKeeper.SendCoinsFromModuleToModule(ctx, minttypes.ModuleName, types.RequestAccName, escrow))
	bal := func() sdk.Coins {
		return suite.app.BankKeeper.GetAllBalances(ctx, k.GetWithdrawAddress(ctx, testOwner))
	}
	before := bal()
	suite.Require().NoError(k.WithdrawEarnedFees(ctx, testOwner, testProvider))
	suite.Require().NoError(k.WithdrawEarnedFees(ctx, testOwner, nil))
	paid := bal().Sub(before...)
	suite.Require().Equal(sdk.NewCoins(c(stake, 15), c(other, 7)).String(), paid.String(), "the owner was paid more than was ever earned")
}
