package keeper_test

// Public-API reproducer for C12-farm-import-at-end-height (real simapp): a chain is exported after block
// E-1 and restarted at height E.  A pool whose end height is E is still running, but InitGenesis decides
// whether to queue it with Keeper.Expired, which at height == EndHeight looks the pool up in the very queue
// that is being rebuilt: the pool is not queued, the end-block handler never ends it and the remaining
// reward is never returned to its creator.

import (
	tmproto "github.com/cometbft/cometbft/proto/tendermint/types"

	"mods.irisnet.org/modules/farm"
	"mods.irisnet.org/modules/farm/keeper"
	"mods.irisnet.org/modules/farm/types"
	"mods.irisnet.org/simapp"
)

func (suite *KeeperTestSuite) TestVerifFindingC12FarmImportAtEndHeight() {
	pool, err := suite.keeper.CreatePool(suite.ctx, testPoolDescription, testLPTokenDenom, testBeginHeight,
		testRewardPerBlock, testTotalReward, testDestructible, testCreator)
	suite.Require().NoError(err)
	end := pool.EndHeight
	// exported after block end-1
	exportCtx := suite.ctx.WithBlockHeight(end - 1)
	genesis := farm.ExportGenesis(exportCtx, suite.keeper)
	suite.Require().NoError(types.ValidateGenesis(*genesis))

	// restarted chain: first block is `end`
	var k2 keeper.Keeper
	app2 := simapp.Setup(suite.T(), isCheckTx, simapp.DepinjectOptions{Config: AppConfig, Providers: []interface{}{&mockCoinswapKeeper{}}, Consumers: []interface{}{&k2}})
	ctx2 := app2.BaseApp.NewContextLegacy(isCheckTx, tmproto.Header{Height: end})
	farm.InitGenesis(ctx2, k2, *genesis)

	queued := 0
	k2.IteratorActivePool(ctx2, func(p types.FarmPool) {
		if p.Id == pool.Id {
			queued++
		}
	})
	suite.Require().Equal(1, queued, "a pool that is still running after re-import must be queued for its end height")
}
