package keeper_test

// Public-API reproducer for C12 (real simapp): record ids are sha256(record || creation counter),
// but genesis export drops the counter and lists records in id order; import re-adds them with
// counters 0..n-1 in that order, so a record can no longer be found under the id its creator was given.

import (
	"encoding/hex"

	"mods.irisnet.org/modules/record"
	"mods.irisnet.org/modules/record/keeper"
	"mods.irisnet.org/modules/record/types"
	"mods.irisnet.org/simapp"
)

func (suite *KeeperTestSuite) TestVerifFindingC12RecordIDs() {
	srv := keeper.NewMsgServerImpl(suite.keeper)
	var ids [][]byte
	for i := 0; i < 8; i++ {
		msg := &types.MsgCreateRecord{Contents: []types.Content{{Digest: "record-" + string(rune(0x61+i)), DigestAlgo: "sha256", URI: "u", Meta: "m"}}, Creator: testCreator.String()}
		r, err := srv.CreateRecord(suite.ctx, msg)
		suite.Require().NoError(err)
		id, _ := hex.DecodeString(r.Id)
		ids = append(ids, id)
	}
	g := record.ExportGenesis(suite.ctx, suite.keeper)
	var k2 keeper.Keeper
	app2 := simapp.Setup(suite.T(), false, simapp.DepinjectOptions{Config: AppConfig, Providers: []interface{}{}, Consumers: []interface{}{&k2}})
	ctx2 := app2.BaseApp.NewContext(false)
	record.InitGenesis(ctx2, k2, *g)
	for i, r := range g.Records {
		suite.T().Logf("exported[%d] digest=%s", i, r.Contents[0].Digest)
	}
	suite.T().Logf("counter before import: %d ids=%X", suite.keeper.GetIntraTxCounter(suite.ctx), ids)
	for i, id := range ids {
		want, _ := suite.keeper.GetRecord(suite.ctx, id)
		got, found := k2.GetRecord(ctx2, id)
		suite.Require().True(found && got.Creator == want.Creator && got.Contents[0] == want.Contents[0], "record %d is no longer found under its id %X after export/import", i, id)
	}
}
