package keeper_test

// Public-API reproducer for C16 (real simapp): the farm module accepts a tax rate of 2 through
// MsgUpdateParams (Params.Validate ignores TaxRate); the next pool creation then panics.

import (
	"cosmossdk.io/math"

	"mods.irisnet.org/modules/farm/keeper"
	"mods.irisnet.org/modules/farm/types"
)

func (suite *KeeperTestSuite) TestVerifFindingC16FarmTaxRate() {
	p := types.DefaultParams()
	p.TaxRate = math.LegacyNewDec(2)
	authority := suite.app.GovKeeper.GetAuthority()
	_, err := keeper.NewMsgServerImpl(suite.keeper).UpdateParams(suite.ctx, &types.MsgUpdateParams{Authority: authority, Params: p})
	if err != nil {
		return // rejected: fine
	}
	suite.Require().NotPanics(func() {
		_, _ = suite.keeper.CreatePool(suite.ctx, testPoolDescription, testLPTokenDenom, testBeginHeight,
			testRewardPerBlock, testTotalReward, testDestructible, testCreator)
	}, "pool creation panicked under an accepted parameter set")
}
