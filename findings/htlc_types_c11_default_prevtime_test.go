package types_test

// Reproducer for C11-htlc-default-prev-time (public API, two real processes).
// The htlc default genesis - what the module manager imports on every node when the module is added by
// an upgrade - contains types.DefaultPreviousBlockTime, which was time.Now() at process start: two
// node processes started at different instants store different state for the same chain history.

import (
	"fmt"
	"os"
	"os/exec"
	"regexp"
	"testing"
	"time"

	"mods.irisnet.org/modules/htlc/types"
)

func TestFindingC11DefaultGenesisAcrossProcesses(t *testing.T) {
	mine := types.DefaultGenesisState().PreviousBlockTime.UnixNano()
	if os.Getenv("C11_CHILD") == "1" {
		fmt.Printf("PBT=%d\n", mine)
		return
	}
	time.Sleep(30 * time.Millisecond)
	cmd := exec.Command(os.Args[0], "-test.run=^TestFindingC11DefaultGenesisAcrossProcesses$")
	cmd.Env = append(os.Environ(), "C11_CHILD=1")
	out, err := cmd.Output()
	if err != nil {
		t.Fatalf("child: %v", err)
	}
	m := regexp.MustCompile(`PBT=(-?\d+)`).FindSubmatch(out)
	if m == nil {
		t.Fatalf("no value from child: %s", out)
	}
	if string(m[1]) != fmt.Sprint(mine) {
		t.Fatalf("the default genesis of a second node process differs: previous_block_time %s vs %d (host clock in chain state)", m[1], mine)
	}
}
