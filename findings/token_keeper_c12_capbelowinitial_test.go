package keeper_test

// Public-API reproducer for C12-token-cap-below-initial-supply: a token is issued with initial supply 100,
// its owner burns 60 and lowers the cap to 50 (at least what circulates, so EditToken used to accept it).
// The stored token then has MaxSupply < InitialSupply, which Token.Validate - and therefore ValidateGenesis
// and InitGenesis - rejects: the chain's own export can no longer be imported.

import (
	sdkmath "cosmossdk.io/math"
	sdk "github.com/cosmos/cosmos-sdk/types"

	"mods.irisnet.org/modules/token"
	"mods.irisnet.org/modules/token/types"
	v1 "mods.irisnet.org/modules/token/types/v1"
)

func (suite *KeeperTestSuite) TestVerifFindingC12CapBelowInitialSupply() {
	suite.Require().NoError(suite.keeper.IssueToken(suite.ctx, "kitty", "Kitty Token", "kit", 0, 100, 1000, true, owner))
	suite.Require().NoError(suite.keeper.BurnToken(suite.ctx, sdk.NewCoin("kit", sdkmath.NewInt(60)), owner))
	// lowering the cap to what still circulates may be accepted or refused, but the state must stay exportable
	_ = suite.keeper.EditToken(suite.ctx, "kitty", v1.DoNotModify, 50, types.Nil, owner)
	genesis := token.ExportGenesis(suite.ctx, suite.keeper)
	suite.Require().NoError(v1.ValidateGenesis(*genesis), "the chain's own export must be importable")
}
