#!/bin/bash
# run.sh <module> <rel-pkg> <findings-file> <TestRegexp>  — runs a public-API reproducer as an overlay test
set -e
export GOFLAGS=-mod=readonly GOPROXY=off GOSUMDB=off GOTOOLCHAIN=local
mod=$1; rel=$2; file=$3; re=$4
REPO=${VERIF_REPO:-/repo}
work=/verif/.work/findings$$; mkdir -p $work
echo "{\"Replace\":{\"$REPO/modules/$mod/$rel/zz_verif_finding_test.go\":\"$file\"}}" > $work/ov.json
cd $REPO/modules/$mod && go test -vet=off -count=1 -overlay $work/ov.json -run "$re" ./$rel/ 2>&1 | tail -25
