package types

// Reproducer for C17: the maximum of all-negative responses must be one of them.

import (
	"testing"

	"github.com/stretchr/testify/require"
)

func TestVerifFindingC17MaxNegative(t *testing.T) {
	max, _ := GetAggregateFunc("max")
	require.Equal(t, "-0.25000000", max([]ArgsType{NumArgsType(-1.5), NumArgsType(-2), NumArgsType(-0.25)}))
}
