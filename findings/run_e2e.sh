#!/bin/bash
# run_e2e.sh <findings-file> <TestRegexp> — runs a reproducer as an overlay test in /repo/e2e (package e2e)
set -e
export GOFLAGS=-mod=readonly GOPROXY=off GOSUMDB=off GOTOOLCHAIN=local
file=$1; re=$2
work=/verif/.work/findings; mkdir -p $work
echo "{\"Replace\":{\"/repo/e2e/zz_verif_finding_test.go\":\"$file\"}}" > $work/ov_e2e.json
cd /repo/e2e && go test -vet=off -count=1 -overlay $work/ov_e2e.json -run "$re" . 2>&1 | tail -15
