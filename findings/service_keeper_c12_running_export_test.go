package keeper_test

// Public-API reproducer for C12-service-running-context-as-is: the genesis exported as is (without the
// prepare-for-zero-height step) from a chain on which a consumer has a RUNNING request context - the
// ordinary state right after MsgCallService - is rejected by the module's own ValidateGenesis (it only
// accepts PAUSED contexts with a completed batch), so InitGenesis panics on it.

import (
	"time"

	sdk "github.com/cosmos/cosmos-sdk/types"

	"mods.irisnet.org/modules/service"
	"mods.irisnet.org/modules/service/types"
)

func (suite *KeeperTestSuite) TestVerifFindingC12RunningContextExport() {
	suite.setServiceDefinition()
	suite.setServiceBinding(true, time.Time{}, testProvider, testOwner)
	_, err := suite.keeper.CreateRequestContext(suite.ctx, testServiceName, []sdk.AccAddress{testProvider}, testConsumer,
		testInput, testServiceFeeCap, testTimeout, false, 0, 0, types.RUNNING, 1, "")
	suite.Require().NoError(err)
	genesis := service.ExportGenesis(suite.ctx, suite.keeper)
	suite.Require().NoError(types.ValidateGenesis(*genesis), "the chain's own as-is export must be importable")
}
