package keeper_test

// Public-API reproducer for C11-token-ante-map-order: one transaction carries token messages of two
// owners, one funded and one not.  ValidateTokenFeeDecorator totals the fees in a Go map keyed by owner
// and ranges over it, reading one (gas-metered) balance per entry and stopping at the first owner who is
// short: the gas the failing transaction has used - part of its result, hashed into the block's
// results - depends on the runtime's random map order.

import (
	storetypes "cosmossdk.io/store/types"
	sdk "github.com/cosmos/cosmos-sdk/types"
	protov2 "google.golang.org/protobuf/proto"

	"mods.irisnet.org/modules/token/keeper"
	v1 "mods.irisnet.org/modules/token/types/v1"
)

type verifFindingTx struct{ msgs []sdk.Msg }

func (t verifFindingTx) GetMsgs() []sdk.Msg                    { return t.msgs }
func (t verifFindingTx) GetMsgsV2() ([]protov2.Message, error) { return nil, nil }

func (suite *KeeperTestSuite) TestVerifFindingC11AnteMapOrder() {
	tx := verifFindingTx{[]sdk.Msg{
		&v1.MsgIssueToken{Symbol: "kitty", Name: "Kitty Token", MinUnit: "kit", Scale: 6, InitialSupply: 1, MaxSupply: 10, Mintable: true, Owner: owner.String()},
		&v1.MsgIssueToken{Symbol: "doggy", Name: "Doggy Token", MinUnit: "dog", Scale: 6, InitialSupply: 1, MaxSupply: 10, Mintable: true, Owner: add2.String()}, // add2 holds nothing
	}}
	dec := keeper.NewValidateTokenFeeDecorator(suite.keeper, suite.bk)
	next := func(ctx sdk.Context, tx sdk.Tx, simulate bool) (sdk.Context, error) { return ctx, nil }
	seen := map[uint64]bool{}
	for try := 0; try < 64; try++ {
		ctx, _ := suite.ctx.CacheContext()
		ctx = ctx.WithGasMeter(storetypes.NewInfiniteGasMeter())
		_, err := dec.AnteHandle(ctx, tx, false, next)
		suite.Require().Error(err)
		seen[ctx.GasMeter().GasConsumed()] = true
	}
	suite.Require().Len(seen, 1, "the same failing transaction on the same state must always use the same gas: %v", seen)
}
