package keeper_test

// Public-API reproducer for C08-no-exchange-rate-stalls-context (real simapp, real x/bank).
//
// A repeated request context addresses a provider whose price is quoted in a denomination other than the
// base denomination.  When its batch falls due in a block in which the oracle's price service has no usable
// exchange rate (feed missing, value older than five minutes, rate zero), the end-block handler emits the
// "no exchange rate" event and returns BEFORE it removes the new-batch queue entry and WITHOUT recording a
// skipped batch: the entry stays behind at a height that has passed (only the current height is ever
// processed), the per-context index still says "a batch is queued", nothing is scheduled for the future.
// The context stays RUNNING for ever and never issues another batch, even after the rate is back - and
// pausing and starting it again does not help, because StartRequestContext sees the stale index.

import (
	"fmt"

	"cosmossdk.io/math"
	sdk "github.com/cosmos/cosmos-sdk/types"
	minttypes "github.com/cosmos/cosmos-sdk/x/mint/types"

	"mods.irisnet.org/modules/service"
	"mods.irisnet.org/modules/service/types"
)

func (suite *KeeperTestSuite) TestVerifFindingC08NoExchangeRate() {
	feeds := map[string]string{} // no feed for testdenom1 yet
	oracle := MockOracleService{feeds: feeds}
	suite.keeper.SetModuleService(types.RegisterModuleName, &types.ModuleService{ReuquestService: oracle.GetExchangeRate})

	suite.setServiceDefinition()
	suite.setServiceBinding(true, suite.ctx.BlockTime(), testProvider, testOwner)
	pricing, err := types.ParsePricing(fmt.Sprintf(`{"price":"1%s"}`, testDenom1))
	suite.Require().NoError(err)
	suite.keeper.SetPricing(suite.ctx, testServiceName, testProvider, pricing)

	funds := sdk.NewCoins(sdk.NewCoin(testDenom1, math.NewInt(1000)))
	suite.Require().NoError(suite.app.BankKeeper.MintCoins(suite.ctx, minttypes.ModuleName, funds))
	suite.Require().NoError(suite.app.BankKeeper.SendCoinsFromModuleToAccount(suite.ctx, minttypes.ModuleName, testConsumer, funds))

	h := int64(10)
	ctx := suite.ctx.WithBlockHeight(h)
	id, _ := suite.setRequestContext(ctx, testConsumer, []sdk.AccAddress{testProvider}, types.RUNNING, 1, "")
	suite.keeper.AddNewRequestBatch(ctx, id, h)

	// the batch falls due while the oracle has no rate
	service.EndBlocker(ctx, suite.keeper)
	rc, _ := suite.keeper.GetRequestContext(ctx, id)
	suite.Require().Equal(types.RUNNING, rc.State)
	suite.Require().Falsef(suite.keeper.HasNewRequestBatch(ctx, id) && !suite.keeper.HasRequestBatchExpiration(ctx, id),
		"the queue entry of the block that has just ended is still there and nothing is scheduled for the future")

	// the rate is back from the next block on; the context is repeated and running: it must go on
	feeds[fmt.Sprintf("%s-%s", testDenom1, sdk.DefaultBondDenom)] = "0.5"
	for b := h + 1; b <= h+testTimeout+int64(testRepeatedFreq)+5; b++ {
		service.EndBlocker(suite.ctx.WithBlockHeight(b), suite.keeper)
	}
	last := suite.ctx.WithBlockHeight(h + testTimeout + int64(testRepeatedFreq) + 5)
	rc, _ = suite.keeper.GetRequestContext(last, id)
	scheduled := suite.keeper.HasRequestBatchExpiration(last, id)
	suite.Require().Truef(rc.BatchCounter > 0 || scheduled,
		"a running repeated context never issued (or skipped) a batch again: batch counter %d, state %s, stale new-batch index %v", rc.BatchCounter, rc.State, suite.keeper.HasNewRequestBatch(last, id))
}
