package keeper_test

// Public-API reproducer for C12-oracle-history-collapses-on-import: a feed that keeps several values
// (latest-history 3, three completed batches) is exported; InitGenesis used to write every exported value
// under the one current batch counter, so the re-imported feed kept a single value - the OLDEST one - and
// the feed-value query answered with stale data.

import (
	"time"

	tmbytes "github.com/cometbft/cometbft/libs/bytes"
	sdk "github.com/cosmos/cosmos-sdk/types"

	"mods.irisnet.org/modules/oracle"
	"mods.irisnet.org/modules/oracle/keeper"
	"mods.irisnet.org/modules/oracle/types"
	"mods.irisnet.org/modules/service/exported"
	"mods.irisnet.org/simapp"
)

type verifCountingService struct {
	types.ServiceKeeper
	rc *exported.RequestContext
}

func (verifCountingService) RegisterResponseCallback(string, exported.ResponseCallback) error {
	return nil
}
func (verifCountingService) RegisterStateCallback(string, exported.StateCallback) error { return nil }
func (verifCountingService) RegisterModuleService(string, *exported.ModuleService) error {
	return nil
}
func (s verifCountingService) GetRequestContext(sdk.Context, tmbytes.HexBytes) (exported.RequestContext, bool) {
	return *s.rc, true
}

func (suite *KeeperTestSuite) TestVerifFindingC12OracleHistory() {
	sk := verifCountingService{rc: &exported.RequestContext{State: exported.PAUSED}}
	k := keeper.NewKeeper(suite.app.AppCodec(), suite.app.GetKey(types.StoreKey), sk)
	id := tmbytes.HexBytes{1}
	k.SetFeed(suite.ctx, types.Feed{FeedName: "ethPrice", AggregateFunc: "avg", ValueJsonPath: "high", LatestHistory: 3,
		RequestContextID: id.String(), Creator: addrs[0]})
	k.Enqueue(suite.ctx, "ethPrice", exported.PAUSED)
	for b := 0; b < 3; b++ {
		sk.rc.BatchCounter++ // the service module starts batch b+1 and reports its responses
		ctx := suite.ctx.WithBlockTime(time.Unix(int64(1000+b), 0).UTC())
		k.HandlerResponse(ctx, id, responses[b:b+1], nil)
	}
	before := k.GetFeedValues(suite.ctx, "ethPrice")
	suite.Require().Len(before, 3)
	suite.Require().Equal("300.00000000", before[0].Data)

	genesis := oracle.ExportGenesis(suite.ctx, k)
	suite.Require().NoError(types.ValidateGenesis(*genesis))

	app2 := simapp.Setup(suite.T(), false, simapp.DepinjectOptions{Config: AppConfig, Providers: []interface{}{}, Consumers: []interface{}{&keeper.Keeper{}}})
	ctx2 := app2.BaseApp.NewContext(false)
	k2 := keeper.NewKeeper(app2.AppCodec(), app2.GetKey(types.StoreKey), sk)
	oracle.InitGenesis(ctx2, k2, *genesis)
	after := k2.GetFeedValues(ctx2, "ethPrice")
	suite.Require().Equal(before, after, "the value history survives export and import, newest first")
	suite.Require().Equal(genesis, oracle.ExportGenesis(ctx2, k2), "a second export equals the first")
}
