package keeper_test

// Public-API reproducer for C06-adjust-at-end-height-ignores-exhausted-rule (real simapp, real x/bank).
//
// A pool with two reward denominations is topped up by its creator in ONE denomination in the very block of
// its end height (the end-block handler of that block has not run yet, so the pool is still running and
// AdjustPool accepts the message).  AdjustPool adds up "reward per block x remaining blocks" per rule into an
// sdk.Coins value; with zero remaining blocks every such coin is zero and sdk.Coins.Add drops it, so the new
// end height is computed from the topped-up denomination alone.  The pool is extended although the other
// rule's budget is exhausted: from the next block on every stake / unstake / harvest fails with
// "insufficient funds" (a farmer can no longer withdraw the stake), and the end-block handler's refund fails
// too, so the remaining budget is never returned.

import (
	"cosmossdk.io/math"
	sdk "github.com/cosmos/cosmos-sdk/types"
	minttypes "github.com/cosmos/cosmos-sdk/x/mint/types"

	"mods.irisnet.org/modules/farm"
)

func (suite *KeeperTestSuite) TestVerifFindingC06AdjustAtEndHeight() {
	const second = "uiris"
	extra := sdk.NewCoins(sdk.NewCoin(second, math.NewInt(1_000_000)))
	suite.Require().NoError(suite.app.BankKeeper.MintCoins(suite.ctx, minttypes.ModuleName, extra))
	suite.Require().NoError(suite.app.BankKeeper.SendCoinsFromModuleToAccount(suite.ctx, minttypes.ModuleName, testCreator, extra))

	// two rules, both paying exactly 10 blocks: stake 100 at 10 per block, uiris 50 at 5 per block
	rpb := sdk.NewCoins(sdk.NewCoin(sdk.DefaultBondDenom, math.NewInt(10)), sdk.NewCoin(second, math.NewInt(5)))
	total := sdk.NewCoins(sdk.NewCoin(sdk.DefaultBondDenom, math.NewInt(100)), sdk.NewCoin(second, math.NewInt(50)))
	pool, err := suite.keeper.CreatePool(suite.ctx, testPoolDescription, testLPTokenDenom, 1, rpb, total, true, testCreator)
	suite.Require().NoError(err)
	end := pool.EndHeight
	suite.Require().Equal(int64(11), end)

	lpt := sdk.NewCoin(testLPTokenDenom, math.NewInt(1000))
	_, err = suite.keeper.Stake(suite.ctx.WithBlockHeight(2), pool.Id, lpt, testFarmer1)
	suite.Require().NoError(err)

	// in the block of the end height the creator appends 20 uiris (four more blocks of the second rule)
	atEnd := suite.ctx.WithBlockHeight(end)
	err = suite.keeper.AdjustPool(atEnd, pool.Id, sdk.NewCoins(sdk.NewCoin(second, math.NewInt(20))), nil, testCreator)
	suite.Require().NoError(err)
	farm.EndBlocker(atEnd, suite.keeper)

	p, _ := suite.keeper.GetPool(atEnd, pool.Id)
	for _, r := range suite.keeper.GetRewardRules(atEnd, pool.Id) {
		need := r.RewardPerBlock.MulRaw(p.EndHeight - end)
		suite.Require().Truef(r.RemainingReward.GTE(need),
			"pool extended to height %d although the %s budget left is %s and %s is needed to pay every block", p.EndHeight, r.Reward, r.RemainingReward, need)
	}
	// the farmer can always withdraw the stake
	_, err = suite.keeper.Unstake(suite.ctx.WithBlockHeight(end+1), pool.Id, lpt, testFarmer1)
	suite.Require().NoError(err, "a withdrawal up to the recorded stake never fails")
}
