package keeper_test

// Public-API reproducer for C16 (real simapp, real x/bank): the coinswap module accepts a pool
// creation fee whose denomination is ill-formed through MsgUpdateParams (validation only checks that
// the amount is positive); creating the next pool then panics.

import (
	"time"

	sdkmath "cosmossdk.io/math"
	sdk "github.com/cosmos/cosmos-sdk/types"

	"mods.irisnet.org/modules/coinswap/keeper"
	"mods.irisnet.org/modules/coinswap/types"
)

func (suite *TestSuite) TestVerifFindingC16CoinswapFeeDenom() {
	sender, _ := createReservePool(suite, denomBTC)
	p := types.DefaultParams()
	p.PoolCreationFee = sdk.Coin{Denom: "", Amount: sdkmath.NewInt(5)}
	authority := suite.app.GovKeeper.GetAuthority()
	_, err := keeper.NewMsgServerImpl(suite.keeper).UpdateParams(suite.ctx, &types.MsgUpdateParams{Authority: authority, Params: p})
	if err != nil {
		return // rejected: fine
	}
	msg := types.NewMsgAddLiquidity(sdk.NewCoin(denomETH, sdkmath.NewInt(1000)), sdkmath.NewInt(1000), sdkmath.NewInt(1), time.Now().Add(time.Minute).Unix(), sender.String())
	suite.Require().NotPanics(func() { _, _ = suite.keeper.AddLiquidity(suite.ctx, msg) }, "pool creation panicked under an accepted parameter set")
}
