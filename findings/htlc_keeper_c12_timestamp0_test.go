package keeper_test

// Public-API reproducer for C12 (real simapp): a plain HTLC may be created with timestamp 0
// (MsgCreateHTLC.ValidateBasic and CreateHTLC accept it, GetHashLock has a branch for it), but the
// genesis exported afterwards is rejected by the module's own ValidateGenesis.

import (
	"encoding/hex"
	"testing"

	sdkmath "cosmossdk.io/math"
	tmproto "github.com/cometbft/cometbft/proto/tendermint/types"
	sdk "github.com/cosmos/cosmos-sdk/types"
	"github.com/stretchr/testify/require"

	"mods.irisnet.org/modules/htlc"
	"mods.irisnet.org/modules/htlc/keeper"
	"mods.irisnet.org/modules/htlc/types"
	"mods.irisnet.org/simapp"
)

func TestVerifFindingC12Timestamp0(t *testing.T) {
	var k keeper.Keeper
	app := simapp.Setup(t, false, simapp.DepinjectOptions{Config: AppConfig, Providers: []interface{}{}, Consumers: []interface{}{&k}})
	ctx := app.BaseApp.NewContextLegacy(false, tmproto.Header{Height: 10})
	addrs := simapp.AddTestAddrs(app, ctx, 2, sdkmath.NewInt(1000000))
	secret := make([]byte, 32)
	msg := &types.MsgCreateHTLC{Sender: addrs[0].String(), To: addrs[1].String(), ReceiverOnOtherChain: "r", SenderOnOtherChain: "s",
		Amount: sdk.NewCoins(sdk.NewInt64Coin(sdk.DefaultBondDenom, 10)), HashLock: hex.EncodeToString(types.GetHashLock(secret, 0)), Timestamp: 0, TimeLock: 60}
	require.NoError(t, msg.ValidateBasic())
	_, err := keeper.NewMsgServerImpl(k).CreateHTLC(ctx, msg)
	require.NoError(t, err)
	g := htlc.ExportGenesis(ctx, k)
	require.NoError(t, types.ValidateGenesis(*g), "exported genesis rejected by the module's own validation")
}
