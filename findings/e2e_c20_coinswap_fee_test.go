package e2e

// Public-API reproducer for C20-coinswap-fee-type: coinswap Params encoded by the modules family do not
// decode to an equal message in the api family (field 1 "fee" is decimal text on one side, a nested Coin
// message on the other).

import (
	"testing"

	sdkmath "cosmossdk.io/math"
	sdk "github.com/cosmos/cosmos-sdk/types"
	"google.golang.org/protobuf/proto"

	coinswapapi "mods.irisnet.org/api/irismod/coinswap"
	coinswaptypes "mods.irisnet.org/modules/coinswap/types"
)

func TestVerifFindingC20CoinswapParamsFee(t *testing.T) {
	g := coinswaptypes.Params{Fee: sdkmath.LegacyNewDecWithPrec(3, 3), PoolCreationFee: sdk.NewInt64Coin("stake", 5000),
		TaxRate: sdkmath.LegacyNewDecWithPrec(4, 1), UnilateralLiquidityFee: sdkmath.LegacyNewDecWithPrec(2, 3)}
	bz, err := g.Marshal()
	if err != nil {
		t.Fatal(err)
	}
	var p coinswapapi.Params
	if err := proto.Unmarshal(bz, &p); err != nil {
		t.Fatalf("the api family cannot decode Params written by the modules family: %v", err)
	}
	back, err := proto.Marshal(&p)
	if err != nil {
		t.Fatal(err)
	}
	if string(back) != string(bz) {
		t.Fatalf("re-encoding in the api family changes the bytes: fee decoded as %v", p.Fee)
	}
}
