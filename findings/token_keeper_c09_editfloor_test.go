package keeper_test

// Public-API reproducer for C09 (real simapp, real x/bank): after a fractional burn the
// owner can lower the max supply below what still circulates.

import (
	sdkmath "cosmossdk.io/math"
	sdk "github.com/cosmos/cosmos-sdk/types"

	"mods.irisnet.org/modules/token/keeper"
	v1 "mods.irisnet.org/modules/token/types/v1"
)

func (suite *KeeperTestSuite) TestVerifFindingC09EditFloor() {
	srv := keeper.NewMsgServerImpl(suite.keeper)
	// 2 whole tokens of scale 6 issued, cap 2
	suite.Require().NoError(suite.keeper.IssueToken(suite.ctx, "kitty", "Kitty Token", "kitty6", 6, 2, 2, true, owner))
	// burn 0.999999 of a token: 1.000001 tokens (1000001 min units) still circulate
	_, err := srv.BurnToken(suite.ctx, &v1.MsgBurnToken{Coin: sdk.NewCoin("kitty6", sdkmath.NewInt(999999)), Sender: owner.String()})
	suite.Require().NoError(err)
	// lowering the cap to 1 token (1000000 min units) must be refused
	_, err = srv.EditToken(suite.ctx, &v1.MsgEditToken{Symbol: "kitty", Name: v1.DoNotModify, MaxSupply: 1, Owner: owner.String()})
	tok, gerr := suite.keeper.GetToken(suite.ctx, "kitty")
	suite.Require().NoError(gerr)
	supply := suite.bk.GetSupply(suite.ctx, "kitty6").Amount
	capMin := sdkmath.NewIntFromUint64(tok.GetMaxSupply()).Mul(sdkmath.NewIntWithDecimal(1, 6))
	suite.Require().True(supply.LTE(capMin), "edit accepted (err=%v): circulating %s min units exceeds cap %s", err, supply, capMin)
}
