#!/usr/bin/env python3
"""Regenerates MANIFEST.json from checks.json (claimed checks) and na.json (not-applicable reasons)."""
import json, os
ROOT = os.path.dirname(os.path.abspath(__file__))
spec = json.load(open(os.path.join(ROOT, "checks.json")))
na = json.load(open(os.path.join(ROOT, "na.json")))
ids = [json.loads(l)["id"] for l in open(os.path.join(ROOT, "properties.jsonl"))]
checks = []
for pid in ids:
    if pid not in spec or spec[pid].get("disabled"):
        continue
    s = spec[pid]
    checks.append({
        "property_id": pid,
        "quick_cmd": f"./check {pid} --tier quick",
        "thorough_cmd": f"./check {pid} --tier thorough",
        "evidence_file": f"/verif/evidence/{pid}.json",
        "replay_cmd_template": f"./check {pid} --replay {{path}}",
        "engine": "symgo",
        "level_claimed": {"category": s.get("level", "model_checking"), "text": s["level_text"], "design_ref": s.get("design_ref", "DESIGN.md §2 " + pid)},
        "level_note": s["level_note"],
        "technique": s.get("technique", "bounded symbolic execution of the real Go code (go/ssa interpreter with SMT Int terms), z3 decides every assertion per path; counterexamples replayed natively via go test -overlay"),
    })
m = {
    "version": 1,
    "setup_cmd": "cd /verif/engine && GOFLAGS=-mod=mod GOPROXY=off GOSUMDB=off GOTOOLCHAIN=local go build -o /verif/bin/symgo ./cmd/symgo && GOFLAGS=-mod=mod GOPROXY=off GOSUMDB=off GOTOOLCHAIN=local go build -o /verif/bin/c20gen ./cmd/c20gen",
    "hooks": {"guard": "verif", "enable": "none needed: harnesses and stubs are go/packages overlays (virtual zz_verif_*.go files in the package directories); nothing in /repo is patched",
              "baseline_off_cmd": "bash -c 'for m in $(cat /w/out/gomods.txt); do MF=$(cd /repo/$m && . /w/out/goenv.sh && gomodflag); (cd /repo/$m && go test $MF -json -vet=off -count=1 -timeout 25m ./...); done'",
              "source_commits": [], "add_only": True},
    "engines": [{"name": "symgo", "path": "/verif/engine", "serves_properties": [c["property_id"] for c in checks],
                 "kind_free_text": "symbolic interpreter for Go SSA (fork of x/tools go/ssa/interp) with SMT-LIB back end (z3, z3-new); encoding regenerated from /repo source on every run"}],
    "checks": checks,
    "notes": "exit 0 held / 1 VIOLATION (replay-confirmed) / 2 inconclusive. See DESIGN.md.",
    "not_applicable": [{"property_id": i, "reason": na.get(i, "check not built yet")} for i in ids if i not in [c["property_id"] for c in checks]],
}
json.dump(m, open(os.path.join(ROOT, "MANIFEST.json"), "w"), indent=1)
print("claimed:", [c["property_id"] for c in checks])
