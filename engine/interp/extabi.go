package interp

// go-ethereum ABI packing/unpacking as an abstract codec (like the protobuf pack/unpack identity):
// Pack(method, args) yields a one-element byte slice holding the structured call; the harness's stub EVM
// reads it back with verifABICall and answers with verifABIRet; Unpack returns the packed values.
// Assumption (listed in evidence): ABI encoding round-trips (Unpack(Pack(x)) = x) - natively the real
// go-ethereum ABI of the compiled ERC20 contract is used.

import (
	"crypto/sha256"
	"go/types"

	"golang.org/x/tools/go/ssa"
)

type abiBlob struct {
	kind string // "call", "ret", "event"
	name string
	args []value
}

func abiBlobOf(v value) (abiBlob, bool) {
	s, ok := v.([]value)
	if !ok || len(s) != 1 {
		return abiBlob{}, false
	}
	b, ok := s[0].(abiBlob)
	return b, ok
}

func abiEventHash(name string) array {
	h := sha256.Sum256([]byte("abi-event:" + name))
	a := make(array, 32)
	for k := range h {
		a[k] = h[k]
	}
	return a
}

const abiPkg = "github.com/ethereum/go-ethereum/accounts/abi"

func init() {
	// the compiled contract (embedded JSON parsed with reflection at package init) is never inspected
	// by the engine: its ABI is only handed to the intrinsics below
	globalOverrides["mods.irisnet.org/modules/token/contracts.ERC20TokenContract"] = func(i *interpreter, g *ssa.Global) value {
		return zero(mustDeref(g.Type()))
	}
	globalOverrides["mods.irisnet.org/modules/token/contracts.TokenProxyContract"] = globalOverrides["mods.irisnet.org/modules/token/contracts.ERC20TokenContract"]
	globalOverrides["mods.irisnet.org/modules/token/contracts.BeaconContract"] = globalOverrides["mods.irisnet.org/modules/token/contracts.ERC20TokenContract"]

	externals["("+abiPkg+".ABI).Pack"] = func(fr *frame, args []value) value {
		name := argString(args[1])
		return tuple{[]value{abiBlob{"call", name, append([]value{}, variadic(args[2])...)}}, iface{}}
	}
	externals["("+abiPkg+".ABI).Unpack"] = func(fr *frame, args []value) value {
		b, ok := abiBlobOf(args[2])
		if !ok || (b.kind != "ret" && b.kind != "event") || b.name != argString(args[1]) {
			var cell value = structure{"abi: cannot unpack"}
			return tuple{[]value(nil), iface{types.NewPointer(fr.i.namedType("errors", "errorString")), &cell}}
		}
		return tuple{append([]value{}, b.args...), iface{}}
	}
	externals["("+abiPkg+".ABI).EventByID"] = func(fr *frame, args []value) value {
		topic, _ := args[1].(array)
		i := fr.i
		for name := range i.abiEvents {
			h := abiEventHash(name)
			same := len(topic) == 32
			for k := 0; same && k < 32; k++ {
				same = topic[k] == h[k]
			}
			if same {
				et := i.namedType(abiPkg, "Event")
				ev := zero(et).(structure)
				st := et.Underlying().(*types.Struct)
				for f := 0; f < st.NumFields(); f++ {
					if st.Field(f).Name() == "Name" || st.Field(f).Name() == "RawName" {
						ev[f] = name
					}
				}
				var cell value = ev
				return tuple{&cell, iface{}}
			}
		}
		var cell value = structure{"no event with that id"}
		return tuple{(*value)(nil), iface{types.NewPointer(i.namedType("errors", "errorString")), &cell}}
	}
}

func init() {
	for _, m := range []string{"Pack", "Unpack", "EventByID"} {
		if f, ok := externals["("+abiPkg+".ABI)."+m]; ok {
			externals["(*"+abiPkg+".ABI)."+m] = f
		}
	}
}

func registerABIPrims() {
	verifPrims["verifABIEventID"] = func(fr *frame, args []value) value {
		name := argString(args[0])
		if fr.i.abiEvents == nil {
			fr.i.abiEvents = map[string]bool{}
		}
		fr.i.abiEvents[name] = true
		return abiEventHash(name)
	}
	verifPrims["verifABICall"] = func(fr *frame, args []value) value {
		b, ok := abiBlobOf(args[0])
		if !ok || b.kind != "call" {
			return tuple{"", []value(nil)}
		}
		return tuple{b.name, append([]value{}, b.args...)}
	}
	verifPrims["verifABIRet"] = func(fr *frame, args []value) value {
		return []value{abiBlob{"ret", argString(args[0]), append([]value{}, variadic(args[1])...)}}
	}
	verifPrims["verifABIEventData"] = func(fr *frame, args []value) value {
		return []value{abiBlob{"event", argString(args[0]), append([]value{}, variadic(args[1])...)}}
	}
}
