package interp

// regexp as an intrinsic: patterns are compiled natively; the interpreted
// *regexp.Regexp is an opaque cell registered in a per-path side table.

import (
	"fmt"
	"regexp"
)

func (i *interpreter) regexOf(v value) *regexp.Regexp {
	p, ok := v.(*value)
	if !ok || p == nil {
		panic(unsupported("nil *regexp.Regexp"))
	}
	re := i.regexps[p]
	if re == nil {
		panic(unsupported("*regexp.Regexp not created by the regexp intrinsic"))
	}
	return re
}

func init() {
	compile := func(must bool) externalFn {
		return func(fr *frame, args []value) value {
			i := fr.i
			re, err := regexp.Compile(argStr(args[0]))
			if err != nil {
				if must {
					panic(targetPanic{"regexp: Compile: " + err.Error()})
				}
				return tuple{(*value)(nil), i.mkError(err.Error())}
			}
			var cell value = zero(i.namedType("regexp", "Regexp"))
			p := &cell
			if i.regexps == nil {
				i.regexps = map[*value]*regexp.Regexp{}
			}
			i.regexps[p] = re
			if must {
				return p
			}
			return tuple{p, iface{}}
		}
	}
	externals["regexp.MustCompile"] = compile(true)
	externals["regexp.Compile"] = compile(false)
	externals["regexp.MatchString"] = func(fr *frame, args []value) value {
		ok, err := regexp.MatchString(argStr(args[0]), argStr(args[1]))
		if err != nil {
			return tuple{false, fr.i.mkError(err.Error())}
		}
		return tuple{ok, iface{}}
	}
	externals["(*regexp.Regexp).MatchString"] = func(fr *frame, args []value) value {
		return fr.i.regexOf(args[0]).MatchString(argStr(args[1]))
	}
	externals["(*regexp.Regexp).Match"] = func(fr *frame, args []value) value {
		return fr.i.regexOf(args[0]).Match(valueToBytes(args[1]))
	}
	externals["(*regexp.Regexp).String"] = func(fr *frame, args []value) value {
		return fr.i.regexOf(args[0]).String()
	}
	externals["(*regexp.Regexp).FindString"] = func(fr *frame, args []value) value {
		return fr.i.regexOf(args[0]).FindString(argStr(args[1]))
	}
	strs := func(ss []string) value {
		if ss == nil {
			return []value(nil)
		}
		r := make([]value, len(ss))
		for k := range ss {
			r[k] = ss[k]
		}
		return r
	}
	externals["(*regexp.Regexp).FindStringSubmatch"] = func(fr *frame, args []value) value {
		return strs(fr.i.regexOf(args[0]).FindStringSubmatch(argStr(args[1])))
	}
	externals["(*regexp.Regexp).FindAllString"] = func(fr *frame, args []value) value {
		return strs(fr.i.regexOf(args[0]).FindAllString(argStr(args[1]), int(asInt64(args[2]))))
	}
	externals["(*regexp.Regexp).SubexpNames"] = func(fr *frame, args []value) value {
		return strs(fr.i.regexOf(args[0]).SubexpNames())
	}
	externals["(*regexp.Regexp).ReplaceAllString"] = func(fr *frame, args []value) value {
		return fr.i.regexOf(args[0]).ReplaceAllString(argStr(args[1]), argStr(args[2]))
	}
	externals["(*regexp.Regexp).Split"] = func(fr *frame, args []value) value {
		return strs(fr.i.regexOf(args[0]).Split(argStr(args[1]), int(asInt64(args[2]))))
	}
	externals["regexp.QuoteMeta"] = func(fr *frame, args []value) value { return regexp.QuoteMeta(argStr(args[0])) }
}

var _ = fmt.Sprint
