package interp

// encoding/json.Unmarshal over concrete documents.  The standard decoder is driven by reflection over
// unsafe type descriptors, which the interpreter does not model; the document is decoded here instead,
// guided by the static type of the target: structs (json tags honoured, case-insensitive field match as
// in the standard library), strings, booleans, integers, slices, pointers and any named type that has an
// UnmarshalJSON method (the real method is interpreted on the raw bytes).  Anything else is reported as
// unsupported (inconclusive), never guessed.

import (
	"bytes"
	"encoding/json"
	"fmt"
	"go/types"
	"reflect"
	"strconv"
	"strings"
)

func registerJSON() {
	externals["encoding/json.Unmarshal"] = func(fr *frame, args []value) value {
		data := valueToBytes(args[0])
		target, ok := args[1].(iface)
		if !ok || target.t == nil {
			return fr.i.mkError("json: Unmarshal(nil)")
		}
		pt, ok := target.t.Underlying().(*types.Pointer)
		p, ok2 := target.v.(*value)
		if !ok || !ok2 || p == nil {
			return fr.i.mkError("json: Unmarshal(non-pointer " + target.t.String() + ")")
		}
		if !json.Valid(data) {
			var probe interface{}
			err := json.Unmarshal(data, &probe)
			return fr.i.mkError(err.Error())
		}
		v, err := fr.i.jsonDecode(fr, data, pt.Elem(), *p)
		if err != nil {
			return fr.i.mkError(err.Error())
		}
		*p = v
		return iface{}
	}
}

type jsonField struct {
	index int
	name  string
	typ   types.Type
}

func jsonFields(st *types.Struct) []jsonField {
	var out []jsonField
	for k := 0; k < st.NumFields(); k++ {
		f := st.Field(k)
		if !f.Exported() {
			continue
		}
		if f.Embedded() {
			panic(unsupported("json: embedded field " + f.Name()))
		}
		name := f.Name()
		tag := reflect.StructTag(st.Tag(k)).Get("json")
		if tag == "-" {
			continue
		}
		if tag != "" {
			parts := strings.Split(tag, ",")
			if parts[0] != "" {
				name = parts[0]
			}
			for _, o := range parts[1:] {
				if o == "string" {
					panic(unsupported("json: ,string option on " + f.Name()))
				}
			}
		}
		out = append(out, jsonField{k, name, f.Type()})
	}
	return out
}

func (i *interpreter) jsonDecode(fr *frame, raw []byte, t types.Type, old value) (value, error) {
	raw = bytes.TrimSpace(raw)
	// a type with its own UnmarshalJSON decodes itself: the real method is interpreted
	if _, isNamed := types.Unalias(t).(*types.Named); isNamed {
		if m := i.findMethod(types.NewPointer(t), "UnmarshalJSON"); m != nil && !bytes.Equal(raw, []byte("null")) {
			cell := old
			if cell == nil {
				cell = zero(t)
			}
			res := call(i, fr, 0, m, []value{&cell, bytesToValue(raw)})
			if e, ok := res.(iface); ok && e.t != nil {
				return nil, fmt.Errorf("json: %s", i.errorText(fr, e))
			}
			return cell, nil
		}
		if m := i.findMethod(types.NewPointer(t), "UnmarshalText"); m != nil {
			panic(unsupported("json: UnmarshalText target " + t.String()))
		}
	}
	if bytes.Equal(raw, []byte("null")) {
		switch t.Underlying().(type) {
		case *types.Pointer, *types.Slice, *types.Map, *types.Interface:
			return zero(t), nil
		}
		if old == nil {
			return zero(t), nil
		}
		return old, nil
	}
	switch u := t.Underlying().(type) {
	case *types.Basic:
		switch {
		case u.Kind() == types.String:
			var s string
			if err := json.Unmarshal(raw, &s); err != nil {
				return nil, fmt.Errorf("json: cannot unmarshal %s into Go value of type %s", jsonKind(raw), t.String())
			}
			return s, nil
		case u.Kind() == types.Bool:
			var b bool
			if err := json.Unmarshal(raw, &b); err != nil {
				return nil, fmt.Errorf("json: cannot unmarshal %s into Go value of type %s", jsonKind(raw), t.String())
			}
			return b, nil
		case u.Info()&types.IsInteger != 0:
			if raw[0] == '"' || raw[0] == '{' || raw[0] == '[' || raw[0] == 't' || raw[0] == 'f' {
				return nil, fmt.Errorf("json: cannot unmarshal %s into Go value of type %s", jsonKind(raw), t.String())
			}
			if u.Info()&types.IsUnsigned != 0 {
				n, err := strconv.ParseUint(string(raw), 10, 64)
				if err != nil {
					return nil, fmt.Errorf("json: cannot unmarshal number %s into Go value of type %s", raw, t.String())
				}
				return conv(i, u, types.Typ[types.Uint64], n), nil
			}
			n, err := strconv.ParseInt(string(raw), 10, 64)
			if err != nil {
				return nil, fmt.Errorf("json: cannot unmarshal number %s into Go value of type %s", raw, t.String())
			}
			return conv(i, u, types.Typ[types.Int64], n), nil
		}
	case *types.Pointer:
		inner, err := i.jsonDecode(fr, raw, u.Elem(), nil)
		if err != nil {
			return nil, err
		}
		cell := inner
		return &cell, nil
	case *types.Slice:
		if b, ok := u.Elem().Underlying().(*types.Basic); ok && b.Kind() == types.Uint8 {
			var bs []byte
			if err := json.Unmarshal(raw, &bs); err != nil {
				return nil, err
			}
			return bytesToValue(bs), nil
		}
		var items []json.RawMessage
		if err := json.Unmarshal(raw, &items); err != nil {
			return nil, fmt.Errorf("json: cannot unmarshal %s into Go value of type %s", jsonKind(raw), t.String())
		}
		out := make([]value, 0, len(items))
		for _, it := range items {
			v, err := i.jsonDecode(fr, it, u.Elem(), nil)
			if err != nil {
				return nil, err
			}
			out = append(out, v)
		}
		return out, nil
	case *types.Struct:
		var obj map[string]json.RawMessage
		if err := json.Unmarshal(raw, &obj); err != nil {
			return nil, fmt.Errorf("json: cannot unmarshal %s into Go value of type %s", jsonKind(raw), t.String())
		}
		var s structure
		if os, ok := old.(structure); ok {
			s = append(structure(nil), os...)
		} else {
			s = zero(t).(structure)
		}
		fields := jsonFields(u)
		// deterministic order: the document's keys in sorted order (duplicates cannot occur in a map)
		keys := make([]string, 0, len(obj))
		for k := range obj {
			keys = append(keys, k)
		}
		sortStrings(keys)
		for _, k := range keys {
			var f *jsonField
			for j := range fields {
				if fields[j].name == k {
					f = &fields[j]
					break
				}
			}
			if f == nil {
				for j := range fields {
					if strings.EqualFold(fields[j].name, k) {
						f = &fields[j]
						break
					}
				}
			}
			if f == nil {
				continue // unknown keys are ignored, as in the standard library
			}
			v, err := i.jsonDecode(fr, obj[k], f.typ, s[f.index])
			if err != nil {
				return nil, err
			}
			s[f.index] = v
		}
		return s, nil
	}
	panic(unsupported("json: Unmarshal into " + t.String()))
}

func jsonKind(raw []byte) string {
	switch raw[0] {
	case '"':
		return "string"
	case '{':
		return "object"
	case '[':
		return "array"
	case 't', 'f':
		return "bool"
	}
	return "number"
}

func sortStrings(s []string) {
	for a := 1; a < len(s); a++ {
		for b := a; b > 0 && s[b] < s[b-1]; b-- {
			s[b], s[b-1] = s[b-1], s[b]
		}
	}
}

func (i *interpreter) errorText(fr *frame, e iface) string {
	if s, ok := e.v.(string); ok {
		return s
	}
	if m := i.findMethod(e.t, "Error"); m != nil {
		if s, ok := call(i, fr, 0, m, []value{e.v}).(string); ok {
			return s
		}
	}
	return "error"
}
