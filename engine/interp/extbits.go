package interp

// math/bits.Len* on symbolic operands: the bit length as an ite chain over the powers of two
// (the real implementation indexes a table with the operand).

import (
	"fmt"
	"go/types"
	"math/big"
)

func init() {
	for name, bits := range map[string]int{"math/bits.Len64": 64, "math/bits.Len32": 32, "math/bits.Len": 64, "math/bits.Len16": 16, "math/bits.Len8": 8} {
		bits := bits
		externals[name] = func(fr *frame, args []value) value {
			s, ok := args[0].(symInt)
			if !ok {
				return fallThrough{}
			}
			// relational encoding: a fresh variable L with  OR_n (L = n and 2^(n-1) <= x < 2^n)
			i := fr.i
			tc := i.tc
			i.bitsN++
			t := tc.Var(fmt.Sprintf("bitlen!%d", i.bitsN), SInt)
			i.assume(tc.And(tc.Le(tc.ConstI(0), t), tc.Le(t, tc.ConstI(int64(bits)))), "range of a bit length")
			cases := tc.And(tc.Eq(t, tc.ConstI(0)), tc.Eq(s.t, tc.ConstI(0)))
			for n := 1; n <= bits; n++ {
				lo := tc.Const(new(big.Int).Lsh(bigOne, uint(n-1)))
				hi := tc.Const(new(big.Int).Lsh(bigOne, uint(n)))
				cases = tc.Or(cases, tc.And(tc.Eq(t, tc.ConstI(int64(n))), tc.And(tc.Le(lo, s.t), tc.Lt(s.t, hi))))
			}
			i.assume(cases, "definition of a bit length")
			return tc.mkInt(t, types.Int)
		}
	}
}
