package interp

// math/bits.Len* on symbolic operands: the bit length as an ite chain over the powers of two
// (the real implementation indexes a table with the operand).

import (
	"go/types"
	"math/big"
)

func init() {
	for name, bits := range map[string]int{"math/bits.Len64": 64, "math/bits.Len32": 32, "math/bits.Len": 64, "math/bits.Len16": 16, "math/bits.Len8": 8} {
		bits := bits
		externals[name] = func(fr *frame, args []value) value {
			s, ok := args[0].(symInt)
			if !ok {
				return fallThrough{}
			}
			tc := fr.i.tc
			t := tc.ConstI(int64(bits))
			for n := bits - 1; n >= 0; n-- {
				// x < 2^n  ->  length <= n
				t = tc.Ite(tc.Lt(s.t, tc.Const(new(big.Int).Lsh(bigOne, uint(n)))), tc.ConstI(int64(n)), t)
			}
			return tc.mkInt(t, types.Int)
		}
	}
}
