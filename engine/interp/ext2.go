package interp

// Additional externals/intrinsics needed to run cosmos-sdk keeper code.

import (
	"bytes"
	"crypto/sha256"
	"fmt"
	"go/token"
	"go/types"
	"sort"
	"strings"

	"golang.org/x/tools/go/ssa"
)

func noop(fr *frame, args []value) value { return nil }

// fallThrough is returned by an external that wants the real body to run.
type fallThrough struct{}

func init() {
	for _, n := range []string{
		"(*sync.Mutex).Lock", "(*sync.Mutex).Unlock", "(*sync.RWMutex).Lock", "(*sync.RWMutex).Unlock",
		"(*sync.RWMutex).RLock", "(*sync.RWMutex).RUnlock", "(*sync.WaitGroup).Add", "(*sync.WaitGroup).Done",
		"(*sync.WaitGroup).Wait", "runtime.SetFinalizer", "runtime.KeepAlive", "(*sync.Pool).Put",
		"runtime.GC", "internal/race.Acquire", "internal/race.Release", "internal/race.ReleaseMerge",
		"internal/race.Disable", "internal/race.Enable", "internal/race.Read", "internal/race.Write",
		"internal/race.ReadRange", "internal/race.WriteRange",
	} {
		externals[n] = noop
	}
	externals["(*sync.Mutex).TryLock"] = func(fr *frame, args []value) value { return true }
	externals["(*sync.Once).Do"] = func(fr *frame, args []value) value {
		p := args[0].(*value)
		st := (*p).(structure)
		// field 0 is "done" (atomic.Uint32 struct or uint32 depending on version)
		switch d := st[0].(type) {
		case structure: // atomic.Uint32{_ noCopy, v uint32}
			if d[len(d)-1].(uint32) != 0 {
				return nil
			}
			d[len(d)-1] = uint32(1)
		case uint32:
			if d != 0 {
				return nil
			}
			st[0] = uint32(1)
		default:
			panic(unsupported(fmt.Sprintf("sync.Once layout %T", st[0])))
		}
		call(fr.i, fr, token.NoPos, args[1], nil)
		return nil
	}
	externals["(*sync.Pool).Get"] = func(fr *frame, args []value) value {
		p := args[0].(*value)
		st := (*p).(structure)
		newFn := st[len(st)-1]
		switch f := newFn.(type) {
		case *ssa.Function:
			if f == nil {
				return iface{}
			}
		case nil:
			return iface{}
		}
		return call(fr.i, fr, token.NoPos, newFn, nil)
	}
	// sync/atomic on plain cells
	atomicLoad := func(fr *frame, args []value) value { return *args[0].(*value) }
	atomicStore := func(fr *frame, args []value) value { *args[0].(*value) = args[1]; return nil }
	atomicAdd := func(fr *frame, args []value) value {
		p := args[0].(*value)
		*p = binop(fr.i, token.ADD, nil, *p, args[1])
		return *p
	}
	atomicSwap := func(fr *frame, args []value) value {
		p := args[0].(*value)
		old := *p
		*p = args[1]
		return old
	}
	atomicCAS := func(fr *frame, args []value) value {
		p := args[0].(*value)
		if equals(nil, *p, args[1]) {
			*p = args[2]
			return true
		}
		return false
	}
	for _, t := range []string{"Int32", "Int64", "Uint32", "Uint64", "Uintptr", "Pointer"} {
		externals["sync/atomic.Load"+t] = atomicLoad
		externals["sync/atomic.Store"+t] = atomicStore
		externals["sync/atomic.Add"+t] = atomicAdd
		externals["sync/atomic.Swap"+t] = atomicSwap
		externals["sync/atomic.CompareAndSwap"+t] = atomicCAS
	}
	externals["(*sync/atomic.Value).Load"] = func(fr *frame, args []value) value {
		st := (*args[0].(*value)).(structure)
		if v, ok := st[0].(iface); ok {
			return v
		}
		return iface{}
	}
	externals["(*sync/atomic.Value).Store"] = func(fr *frame, args []value) value {
		st := (*args[0].(*value)).(structure)
		st[0] = args[1]
		return nil
	}

	externals["github.com/cosmos/cosmos-sdk/internal/conv.UnsafeBytesToStr"] = func(fr *frame, args []value) value {
		return string(valueToBytes(args[0]))
	}
	externals["github.com/cosmos/cosmos-sdk/internal/conv.UnsafeStrToBytes"] = func(fr *frame, args []value) value {
		return bytesToValue([]byte(args[0].(string)))
	}
	externals["github.com/cosmos/cosmos-sdk/types.IsAddrCacheEnabled"] = func(fr *frame, args []value) value { return false }

	externals["runtime.Callers"] = func(fr *frame, args []value) value { return 0 }
	externals["runtime.Caller"] = func(fr *frame, args []value) value { return tuple{uintptr(0), "", 0, false} }
	externals["runtime.FuncForPC"] = func(fr *frame, args []value) value { return (*value)(nil) }
	externals["runtime/debug.Stack"] = func(fr *frame, args []value) value { return bytesToValue([]byte("stack")) }

	// time: the host clock is a deterministic constant here unless a harness
	// asks for a symbolic clock (C11) via verifClock.
	externals["time.now"] = func(fr *frame, args []value) value {
		return tuple{int64(1700000000), int32(0), int64(0)}
	}
	externals["time.runtimeNano"] = func(fr *frame, args []value) value { return int64(0) }
	externals["time.Now"] = ext_time_Now

	// internal/bytealg
	externals["internal/bytealg.Compare"] = func(fr *frame, args []value) value {
		return fr.i.bytesCompare(args[0], args[1])
	}
	externals["bytes.Compare"] = externals["internal/bytealg.Compare"]
	externals["internal/bytealg.CompareString"] = func(fr *frame, args []value) value {
		a, ok1 := args[0].(string)
		b, ok2 := args[1].(string)
		if !ok1 || !ok2 {
			panic(unsupported("strings.Compare on symbolic text"))
		}
		return strings.Compare(a, b)
	}
	externals["strings.Compare"] = externals["internal/bytealg.CompareString"]
	// strings.Clone / internal/stringslite.Clone copy through unsafe.String: strings are immutable values here
	externals["strings.Clone"] = func(fr *frame, args []value) value { return args[0] }
	externals["internal/stringslite.Clone"] = externals["strings.Clone"]
	externals["internal/bytealg.Equal"] = func(fr *frame, args []value) value {
		return fr.i.bytesEqual(args[0], args[1])
	}
	externals["bytes.Equal"] = externals["internal/bytealg.Equal"]
	externals["internal/bytealg.IndexByte"] = func(fr *frame, args []value) value {
		return bytes.IndexByte(valueToBytes(args[0]), args[1].(byte))
	}
	externals["bytes.IndexByte"] = externals["internal/bytealg.IndexByte"]
	externals["internal/bytealg.IndexByteString"] = func(fr *frame, args []value) value {
		return strings.IndexByte(argStr(args[0]), args[1].(byte))
	}
	externals["strings.IndexByte"] = externals["internal/bytealg.IndexByteString"]
	externals["internal/bytealg.Count"] = func(fr *frame, args []value) value {
		return bytes.Count(valueToBytes(args[0]), []byte{args[1].(byte)})
	}
	externals["internal/bytealg.CountString"] = func(fr *frame, args []value) value {
		return strings.Count(argStr(args[0]), string([]byte{args[1].(byte)}))
	}
	externals["internal/bytealg.IndexString"] = func(fr *frame, args []value) value {
		return strings.Index(argStr(args[0]), argStr(args[1]))
	}
	externals["internal/bytealg.Index"] = func(fr *frame, args []value) value {
		return bytes.Index(valueToBytes(args[0]), valueToBytes(args[1]))
	}
	externals["internal/bytealg.MakeNoZero"] = func(fr *frame, args []value) value {
		n := int(asInt64(args[0]))
		r := make([]value, n)
		for k := range r {
			r[k] = byte(0)
		}
		return r
	}
	externals["internal/stringslite.Index"] = externals["internal/bytealg.IndexString"]
	for _, n := range []string{"strings.Index", "strings.Contains", "strings.HasPrefix", "strings.HasSuffix", "strings.Split",
		"strings.TrimSpace", "strings.ToLower", "strings.ToUpper", "strings.Join", "strings.Repeat", "strings.TrimPrefix",
		"strings.TrimSuffix", "strings.Count", "strings.LastIndex", "strings.EqualFold", "strings.Fields", "strings.SplitN",
		"strings.Trim", "strings.TrimLeft", "strings.TrimRight", "strings.ReplaceAll", "strings.Replace", "strings.IndexAny", "strings.ContainsAny", "strings.ContainsRune", "strings.IndexRune", "strings.Title", "strings.Compare"} {
		delete(externals, n)
	}
	registerStringsNative()
	registerHexTrims()

	// strings.Builder (real one uses unsafe)
	bufOf := func(args []value) structure { return (*args[0].(*value)).(structure) }
	externals["(*strings.Builder).String"] = func(fr *frame, args []value) value {
		st := bufOf(args)
		if s, ok := st[1].(symStr); ok {
			return s
		}
		b, _ := st[1].([]value)
		return fr.i.strFromElems(b)
	}
	externals["(*strings.Builder).Len"] = func(fr *frame, args []value) value {
		st := bufOf(args)
		if _, ok := st[1].(symStr); ok {
			panic(unsupported("len of a strings.Builder holding opaque text"))
		}
		b, _ := st[1].([]value)
		return len(b)
	}
	externals["(*strings.Builder).Cap"] = externals["(*strings.Builder).Len"]
	externals["(*strings.Builder).Reset"] = func(fr *frame, args []value) value {
		bufOf(args)[1] = []value(nil)
		return nil
	}
	externals["(*strings.Builder).Grow"] = noop
	sbAppend := func(fr *frame, st structure, data value) {
		if _, ok := st[1].(symStr); ok {
			return
		}
		cur, _ := st[1].([]value)
		if s, ok := data.(symStr); ok {
			if el, ok2 := strElems(s); ok2 {
				st[1] = append(cur, el...)
				return
			}
			st[1] = s
			return
		}
		switch d := data.(type) {
		case string:
			for k := 0; k < len(d); k++ {
				cur = append(cur, d[k])
			}
		case []value:
			cur = append(cur, d...)
		case byte:
			cur = append(cur, d)
		}
		st[1] = cur
	}
	externals["(*strings.Builder).WriteString"] = func(fr *frame, args []value) value {
		sbAppend(fr, bufOf(args), args[1])
		if s, ok := args[1].(string); ok {
			return tuple{len(s), iface{}}
		}
		return tuple{0, iface{}}
	}
	externals["(*strings.Builder).Write"] = func(fr *frame, args []value) value {
		sbAppend(fr, bufOf(args), args[1])
		return tuple{len(args[1].([]value)), iface{}}
	}
	externals["(*strings.Builder).WriteByte"] = func(fr *frame, args []value) value {
		sbAppend(fr, bufOf(args), args[1])
		return iface{}
	}
	externals["(*strings.Builder).WriteRune"] = func(fr *frame, args []value) value {
		s := string(args[1].(rune))
		sbAppend(fr, bufOf(args), s)
		return tuple{len(s), iface{}}
	}

	// sort.Slice & friends (real ones use reflectlite)
	sortSlice := func(stable bool) externalFn {
		return func(fr *frame, args []value) value {
			x := args[0].(iface).v
			s, ok := x.([]value)
			if !ok {
				panic(unsupported(fmt.Sprintf("sort.Slice on %T", x)))
			}
			less := args[1]
			// insertion sort (stable); calls less through the interpreter so
			// symbolic comparisons fork as usual
			for a := 1; a < len(s); a++ {
				for b := a; b > 0; b-- {
					r := call(fr.i, fr, token.NoPos, less, []value{b, b - 1})
					if !fr.i.condValue(r, "sort.Slice less") {
						break
					}
					s[b], s[b-1] = s[b-1], s[b]
				}
			}
			return nil
		}
	}
	externals["sort.Slice"] = sortSlice(false)
	externals["sort.SliceStable"] = sortSlice(true)
	externals["sort.Strings"] = func(fr *frame, args []value) value {
		s := args[0].([]value)
		ss := make([]string, len(s))
		for k := range s {
			ss[k] = argStr(s[k])
		}
		sort.Strings(ss)
		for k := range s {
			s[k] = ss[k]
		}
		return nil
	}

	// LegacyDec.String builds decimal text from MarshalText: opaque when symbolic.
	externals["(cosmossdk.io/math.LegacyDec).String"] = func(fr *frame, args []value) value {
		st := args[0].(structure)
		if p, ok := st[0].(*value); ok && p != nil {
			if _, t := fr.i.getBig(p, "LegacyDec.String"); t != nil {
				return fr.i.newSymStr("LegacyDec.String")
			}
		}
		return fallThrough{}
	}
	// proto.Clone uses reflection-driven merge tables; a deep copy is its contract.
	protoClone := func(fr *frame, args []value) value {
		m := args[0].(iface)
		if m.t == nil {
			return m
		}
		return iface{m.t, deepClone(m.v, map[*value]*value{})}
	}
	externals["github.com/cosmos/gogoproto/proto.Clone"] = protoClone
	externals["github.com/golang/protobuf/proto.Clone"] = protoClone
	for _, n := range []string{"strconv.FormatUint", "strconv.FormatInt", "strconv.Itoa", "strconv.AppendInt", "strconv.AppendUint", "strconv.FormatBool"} {
		n := n
		externals[n] = func(fr *frame, args []value) value {
			for _, a := range args {
				if isSymOrStr(a) {
					if strings.HasPrefix(n, "strconv.Append") {
						panic(unsupported(n + " of a symbolic integer"))
					}
					return fr.i.newSymStr(n)
				}
			}
			return fallThrough{}
		}
	}
	// codecs other than the keeper's stub (package-level ModuleCdc etc.): binary marshalling is
	// the pack/unpack identity; amino type registration is a no-op.
	for _, recv := range []string{"(*github.com/cosmos/cosmos-sdk/codec.ProtoCodec)", "(*github.com/cosmos/cosmos-sdk/codec.AminoCodec)", "(*github.com/cosmos/cosmos-sdk/codec.LegacyAmino)"} {
		for _, m := range []string{"Marshal", "MustMarshal", "MarshalLengthPrefixed", "MustMarshalLengthPrefixed"} {
			must := strings.HasPrefix(m, "Must")
			externals[recv+"."+m] = func(fr *frame, args []value) value {
				bz := prim_verifPack(fr, args[1:])
				if must {
					return bz
				}
				return tuple{bz, iface{}}
			}
		}
		for _, m := range []string{"Unmarshal", "MustUnmarshal", "UnmarshalLengthPrefixed", "MustUnmarshalLengthPrefixed"} {
			must := strings.HasPrefix(m, "Must")
			externals[recv+"."+m] = func(fr *frame, args []value) value {
				prim_verifUnpack(fr, args[1:])
				if must {
					return nil
				}
				return iface{}
			}
		}
	}
	for _, n := range []string{
		"(*github.com/cosmos/cosmos-sdk/codec.LegacyAmino).RegisterConcrete", "(*github.com/cosmos/cosmos-sdk/codec.LegacyAmino).RegisterInterface",
		"(*github.com/cosmos/cosmos-sdk/codec.LegacyAmino).Seal", "(*github.com/tendermint/go-amino.Codec).RegisterConcrete",
		"(*github.com/tendermint/go-amino.Codec).RegisterInterface", "(*github.com/tendermint/go-amino.Codec).Seal",
		"github.com/cosmos/cosmos-sdk/crypto/codec.RegisterCrypto", "github.com/cosmos/cosmos-sdk/codec/legacy.RegisterAminoMsg",
		"github.com/cosmos/cosmos-sdk/types.RegisterLegacyAminoCodec", "github.com/cosmos/cosmos-sdk/types/msgservice.RegisterMsgServiceDesc",
	} {
		externals[n] = noop
	}
	// gjson computes Result.Index through unsafe string headers; the index is never used here
	externals["github.com/tidwall/gjson.fillIndex"] = noop
	externals["github.com/tidwall/gjson.stringBytes"] = func(fr *frame, args []value) value {
		return bytesToValue([]byte(argStr(args[0])))
	}
	externals["github.com/tidwall/gjson.bytesString"] = func(fr *frame, args []value) value {
		return string(valueToBytes(args[0]))
	}
	// gogoproto Marshal/Unmarshal outside a codec (Any packing): pack/unpack identity
	externals["github.com/cosmos/gogoproto/proto.Marshal"] = func(fr *frame, args []value) value {
		return tuple{prim_verifPack(fr, args), iface{}}
	}
	externals["github.com/cosmos/gogoproto/proto.Unmarshal"] = func(fr *frame, args []value) value {
		prim_verifUnpack(fr, args)
		return iface{}
	}
	externals["github.com/cosmos/gogoproto/proto.MessageName"] = func(fr *frame, args []value) value {
		m := args[0].(iface)
		if m.t == nil {
			return ""
		}
		return strings.TrimPrefix(m.t.String(), "*")
	}
	// typed events are rendered through reflection-driven JSON; events are outside every claim
	// JSON-schema validation of service documents (gojsonschema: reflection): the documents a harness
	// submits are taken to conform; the native replay of every cover witness runs the real validation
	externals["mods.irisnet.org/modules/service/types.validateDocument"] = func(fr *frame, args []value) value { return iface{} }
	// the input / output part of a schemas document is only ever handed to validateDocument
	externals["mods.irisnet.org/modules/service/types.parseInputSchema"] = func(fr *frame, args []value) value {
		return tuple{bytesToValue([]byte("{}")), iface{}}
	}
	externals["mods.irisnet.org/modules/service/types.parseOutputSchema"] = func(fr *frame, args []value) value {
		return tuple{bytesToValue([]byte("{}")), iface{}}
	}
	externals["mods.irisnet.org/modules/service/types.ValidateServiceSchemas"] = func(fr *frame, args []value) value {
		if s, ok := args[0].(string); ok && len(s) == 0 {
			return fr.i.mkError("schemas missing")
		}
		return iface{}
	}
	externals["(*github.com/cosmos/cosmos-sdk/types.EventManager).EmitTypedEvent"] = func(fr *frame, args []value) value { return iface{} }
	externals["(*github.com/cosmos/cosmos-sdk/types.EventManager).EmitTypedEvents"] = func(fr *frame, args []value) value { return iface{} }
	// JSON renderings only feed events and logs
	externals["encoding/json.Marshal"] = func(fr *frame, args []value) value {
		return tuple{bytesToValue([]byte("{}")), iface{}}
	}
	registerFmt()
	registerJSON()
	registerWKT()
	registerErrors()
}

func sha256Native(b []byte) array {
	h := sha256.Sum256(b)
	a := make(array, 32)
	for k := range h {
		a[k] = h[k]
	}
	return a
}

func argStr(v value) string {
	s, ok := v.(string)
	if !ok {
		panic(unsupported(fmt.Sprintf("expected a concrete string, got %T", v)))
	}
	return s
}

func ext_time_Now(fr *frame, args []value) value {
	// time.Time{wall, ext, loc}: wall=0 => ext holds seconds since year 1
	const unixToInternal int64 = (1969*365 + 1969/4 - 1969/100 + 1969/400) * 86400
	i := fr.i
	if i.symClock {
		// the host clock is an input: every reading is a fresh instant in [2020, 2106)
		i.clockN++
		v := i.tc.Var(fmt.Sprintf("hostclock!%d", i.clockN), SInt)
		i.assume(i.tc.And(i.tc.Le(i.tc.ConstI(1577836800), v), i.tc.Lt(v, i.tc.ConstI(1<<32))), "host clock range")
		return structure{uint64(0), symInt{i.tc.Add(v, i.tc.ConstI(unixToInternal)), types.Int64}, (*value)(nil)}
	}
	sec := int64(1700000000) + unixToInternal
	return structure{uint64(0), sec, (*value)(nil)}
}

// bytesEqual / bytesCompare work on []byte values whose elements may be symbolic bytes.
func (i *interpreter) bytesEqual(a, b value) value {
	x, y := asBytesLike(a), asBytesLike(b)
	if len(x) != len(y) {
		return false
	}
	tc := i.tc
	r := tc.True()
	for k := range x {
		_, ax := x[k].(byte)
		_, ay := y[k].(byte)
		if ax && ay {
			if x[k] != y[k] {
				return false
			}
			continue
		}
		e := i.valueEqualTerm(x[k], y[k])
		if e.IsFalse() {
			return false
		}
		r = tc.And(r, e)
	}
	return tc.mkBool(r)
}

func bytesElemEqual(a, b value) bool {
	_, oka := a.(packedMsg)
	_, okb := b.(packedMsg)
	if oka || okb {
		if oka && okb {
			panic(unsupported("bytes.Equal on two packed messages"))
		}
		return false
	}
	return a == b
}

func asBytesLike(v value) []value {
	switch x := v.(type) {
	case []value:
		return x
	case string:
		return bytesToValue([]byte(x)).([]value)
	}
	panic(unsupported(fmt.Sprintf("expected []byte, got %T", v)))
}

func (i *interpreter) bytesCompare(a, b value) value {
	x, y := asBytesLike(a), asBytesLike(b)
	n := len(x)
	if len(y) < n {
		n = len(y)
	}
	for k := 0; k < n; k++ {
		if isSymOrStr(x[k]) || isSymOrStr(y[k]) {
			tc := i.tc
			xa, ya := tc.intTerm(x[k]), tc.intTerm(y[k])
			if i.decide(tc.Lt(xa, ya), "bytes.Compare") {
				return -1
			}
			if i.decide(tc.Lt(ya, xa), "bytes.Compare") {
				return 1
			}
			continue
		}
		xb, ok1 := x[k].(byte)
		yb, ok2 := y[k].(byte)
		if !ok1 || !ok2 {
			// abstract elements: arbitrary but consistent order (class, id, pos); equal
			// opaque runs are decided symbolically
			if ox, isO := x[k].(opaqueRun); isO {
				if oy, isO2 := y[k].(opaqueRun); isO2 && ox.kind == oy.kind && ox.t != oy.t {
					if i.decide(i.tc.Eq(ox.t, oy.t), "bytes.Compare opaque") {
						continue
					}
				}
			}
			// two different abstract hashes: their order is a symbolic, consistent rank
			if hx, isH := x[k].(absByte); isH {
				if hy, isH2 := y[k].(absByte); isH2 && hx.id != hy.id {
					if i.decide(i.tc.Lt(i.hashRank(hx.id), i.hashRank(hy.id)), "order of two hashes") {
						return -1
					}
					return 1
				}
			}
			c1, a1, b1 := absRank(x[k])
			c2, a2, b2 := absRank(y[k])
			if c1 == 3 || c2 == 3 || c1 == 4 || c2 == 4 {
				panic(unsupported(fmt.Sprintf("bytes.Compare on %T/%T elements", x[k], y[k])))
			}
			switch {
			case c1 != c2:
				if c1 < c2 {
					return -1
				}
				return 1
			case a1 != a2:
				if a1 < a2 {
					return -1
				}
				return 1
			case b1 != b2:
				if b1 < b2 {
					return -1
				}
				return 1
			}
			continue
		}
		if xb < yb {
			return -1
		}
		if xb > yb {
			return 1
		}
	}
	switch {
	case len(x) < len(y):
		return -1
	case len(x) > len(y):
		return 1
	}
	return 0
}

// registerStringsNative: a few hot strings functions natively (concrete only;
// with an opaque string they are unsupported).
func registerStringsNative() {
	externals["strings.Index"] = func(fr *frame, args []value) value { return strings.Index(argStr(args[0]), argStr(args[1])) }
	externals["strings.Contains"] = func(fr *frame, args []value) value { return strings.Contains(argStr(args[0]), argStr(args[1])) }
	externals["strings.HasPrefix"] = func(fr *frame, args []value) value { return strings.HasPrefix(argStr(args[0]), argStr(args[1])) }
	externals["strings.HasSuffix"] = func(fr *frame, args []value) value { return strings.HasSuffix(argStr(args[0]), argStr(args[1])) }
	externals["strings.ToLower"] = func(fr *frame, args []value) value { return strings.ToLower(argStr(args[0])) }
	externals["strings.ToUpper"] = func(fr *frame, args []value) value { return strings.ToUpper(argStr(args[0])) }
	externals["strings.TrimSpace"] = func(fr *frame, args []value) value { return strings.TrimSpace(argStr(args[0])) }
	externals["strings.Count"] = func(fr *frame, args []value) value { return strings.Count(argStr(args[0]), argStr(args[1])) }
	externals["strings.LastIndex"] = func(fr *frame, args []value) value { return strings.LastIndex(argStr(args[0]), argStr(args[1])) }
	externals["strings.EqualFold"] = func(fr *frame, args []value) value { return strings.EqualFold(argStr(args[0]), argStr(args[1])) }
	externals["strings.Repeat"] = func(fr *frame, args []value) value { return strings.Repeat(argStr(args[0]), int(asInt64(args[1]))) }
	externals["strings.TrimPrefix"] = func(fr *frame, args []value) value { return strings.TrimPrefix(argStr(args[0]), argStr(args[1])) }
	externals["strings.TrimSuffix"] = func(fr *frame, args []value) value { return strings.TrimSuffix(argStr(args[0]), argStr(args[1])) }
	externals["strings.ReplaceAll"] = func(fr *frame, args []value) value {
		return strings.ReplaceAll(argStr(args[0]), argStr(args[1]), argStr(args[2]))
	}
	externals["strings.Replace"] = func(fr *frame, args []value) value {
		return strings.Replace(argStr(args[0]), argStr(args[1]), argStr(args[2]), int(asInt64(args[3])))
	}
	strSlice := func(ss []string) value {
		r := make([]value, len(ss))
		for k := range ss {
			r[k] = ss[k]
		}
		return r
	}
	externals["strings.Split"] = func(fr *frame, args []value) value { return strSlice(strings.Split(argStr(args[0]), argStr(args[1]))) }
	externals["strings.SplitN"] = func(fr *frame, args []value) value {
		return strSlice(strings.SplitN(argStr(args[0]), argStr(args[1]), int(asInt64(args[2]))))
	}
	externals["strings.Fields"] = func(fr *frame, args []value) value { return strSlice(strings.Fields(argStr(args[0]))) }
	externals["strings.Join"] = func(fr *frame, args []value) value {
		s := args[0].([]value)
		ss := make([]string, len(s))
		for k := range s {
			if _, ok := s[k].(symStr); ok {
				return fr.i.newSymStr("strings.Join")
			}
			ss[k] = argStr(s[k])
		}
		return strings.Join(ss, argStr(args[1]))
	}
	externals["strings.Trim"] = func(fr *frame, args []value) value { return strings.Trim(argStr(args[0]), argStr(args[1])) }
	externals["strings.TrimLeft"] = func(fr *frame, args []value) value { return strings.TrimLeft(argStr(args[0]), argStr(args[1])) }
	externals["strings.TrimRight"] = func(fr *frame, args []value) value { return strings.TrimRight(argStr(args[0]), argStr(args[1])) }
}

var _ = types.Typ
