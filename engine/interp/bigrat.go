package interp

// math/big.Rat as an intrinsic (random module only): the Rat cell is
// structure{a Int, b Int}; both Int slots use the bigVal representation.  With a
// symbolic numerator or denominator the fraction is kept un-normalised.

import (
	"fmt"
	"math/big"
)

func (i *interpreter) ratParts(v value, what string) (p *value, st structure) {
	p, ok := v.(*value)
	if !ok || p == nil {
		panic(targetPanic{iface{i.runtimeErrorString, "nil *big.Rat in " + what}})
	}
	return p, (*p).(structure)
}

func (i *interpreter) ratGet(v value, what string) (nc *big.Int, nt *Term, dc *big.Int, dt *Term) {
	_, st := i.ratParts(v, what)
	var a, b value = st[0], st[1]
	nc, nt = i.getBig(&a, what)
	dc, dt = i.getBig(&b, what)
	if dt == nil && dc.Sign() == 0 {
		dc = big.NewInt(1) // zero value of Rat is 0/1
	}
	return
}

func init() {
	externals["(*math/big.Rat).SetFrac"] = func(fr *frame, args []value) value {
		i := fr.i
		ac, at := i.getBig(args[1], "Rat.SetFrac")
		bc, bt := i.getBig(args[2], "Rat.SetFrac")
		_, st := i.ratParts(args[0], "SetFrac")
		if bt == nil && bc.Sign() == 0 {
			panic(targetPanic{iface{i.runtimeErrorString, "division by zero"}})
		}
		if bt != nil {
			if i.decide(i.tc.Eq(bt, i.tc.ConstI(0)), "Rat.SetFrac zero denominator") {
				panic(targetPanic{iface{i.runtimeErrorString, "division by zero"}})
			}
		}
		if at == nil && bt == nil {
			r := new(big.Rat).SetFrac(ac, bc)
			st[0] = structure{false, bigVal{new(big.Int).Set(r.Num()), nil}}
			st[1] = structure{false, bigVal{new(big.Int).Set(r.Denom()), nil}}
			return args[0]
		}
		// symbolic: keep num/den with a positive denominator
		n, d := i.bt(ac, at), i.bt(bc, bt)
		neg := i.tc.Lt(d, i.tc.ConstI(0))
		st[0] = structure{false, bigVal{nil, i.tc.Ite(neg, i.tc.Neg(n), n)}}
		st[1] = structure{false, bigVal{nil, i.tc.Abs(d)}}
		return args[0]
	}
	externals["(*math/big.Rat).Num"] = func(fr *frame, args []value) value {
		_, st := fr.i.ratParts(args[0], "Num")
		return &st[0]
	}
	externals["(*math/big.Rat).Denom"] = func(fr *frame, args []value) value {
		i := fr.i
		_, st := i.ratParts(args[0], "Denom")
		var b value = st[1]
		if c, t := i.getBig(&b, "Denom"); t == nil && c.Sign() == 0 {
			return newBigPtr(big.NewInt(1), nil)
		}
		return &st[1]
	}
	str := func(name string, f func(r *big.Rat, args []value) string) {
		externals["(*math/big.Rat)."+name] = func(fr *frame, args []value) value {
			nc, nt, dc, dt := fr.i.ratGet(args[0], name)
			if nt != nil || dt != nil {
				return fr.i.newSymStr("big.Rat." + name)
			}
			return f(new(big.Rat).SetFrac(nc, dc), args)
		}
	}
	str("FloatString", func(r *big.Rat, args []value) string { return r.FloatString(int(asInt64(args[1]))) })
	// FloatString of a symbolic rational: structured text determined by the rounded scaled integer
	// sign * floor((2|num|*10^prec + |den|) / (2|den|))  (round half away from zero, as math/big does)
	plainFloatString := externals["(*math/big.Rat).FloatString"]
	externals["(*math/big.Rat).FloatString"] = func(fr *frame, args []value) value {
		i := fr.i
		nc, nt, dc, dt := i.ratGet(args[0], "FloatString")
		if nt == nil && dt == nil {
			return plainFloatString(fr, args)
		}
		tc := i.tc
		prec := asInt64(args[1])
		num, den := i.bt(nc, nt), i.bt(dc, dt)
		abs := func(t *Term) *Term { return tc.Ite(tc.Lt(t, tc.ConstI(0)), tc.Neg(t), t) }
		scale := tc.Const(new(big.Int).Exp(big.NewInt(10), big.NewInt(prec), nil))
		q := tc.Div(tc.Add(tc.Mul(tc.Mul(tc.ConstI(2), abs(num)), scale), abs(den)), tc.Mul(tc.ConstI(2), abs(den)))
		neg := tc.Not(tc.Iff(tc.Lt(num, tc.ConstI(0)), tc.Lt(den, tc.ConstI(0))))
		st := i.newSymStr("big.Rat.FloatString")
		st.kind = fmt.Sprintf("ratfloat%d", prec)
		st.t = tc.Ite(neg, tc.Neg(q), q)
		return st
	}
	str("String", func(r *big.Rat, args []value) string { return r.String() })
	str("RatString", func(r *big.Rat, args []value) string { return r.RatString() })
	externals["(*math/big.Rat).Sign"] = func(fr *frame, args []value) value {
		nc, nt, _, _ := fr.i.ratGet(args[0], "Sign")
		if nt == nil {
			return nc.Sign()
		}
		return fr.i.tc.mkInt(cmpTerm(fr.i.tc, nt, fr.i.tc.ConstI(0)), 2 /* types.Int */)
	}
}
