package interp

// Driver: load a module package (with overlay harness files), run a harness
// function over all feasible paths, discharge assertions with the solver.

import (
	"encoding/json"
	"fmt"
	"go/token"
	"go/types"
	"math/big"
	"os"
	"path/filepath"
	"runtime"
	"sort"
	"strings"
	"sync"
	"time"

	"golang.org/x/tools/go/packages"
	"golang.org/x/tools/go/ssa"
	"golang.org/x/tools/go/ssa/ssautil"
)

type Program struct {
	Prog    *ssa.Program
	Pkgs    []*ssa.Package
	Sizes   types.Sizes
	Dir     string
	Initial []string
}

// LoadPkg loads one package pattern and returns its import path.
func LoadPkg(dir, pattern string, overlay map[string]string) (*Program, string, error) {
	p, err := Load(dir, []string{pattern}, overlay, "")
	if err != nil {
		return nil, "", err
	}
	return p, p.Initial[0], nil
}

// Load loads patterns in dir; overlay maps virtual file path -> real file path.
func Load(dir string, patterns []string, overlay map[string]string, tags string) (*Program, error) {
	ov := map[string][]byte{}
	for virt, real := range overlay {
		b, err := os.ReadFile(real)
		if err != nil {
			return nil, err
		}
		ov[virt] = b
	}
	if tags == "" {
		tags = "math_big_pure_go,purego"
	}
	cfg := &packages.Config{
		Mode:       packages.LoadAllSyntax,
		Dir:        dir,
		Overlay:    ov,
		BuildFlags: []string{"-tags=" + tags},
		Env:        append(os.Environ(), "GOFLAGS=-mod=readonly", "GOPROXY=off", "GOSUMDB=off", "GOTOOLCHAIN=local"),
	}
	initial, err := packages.Load(cfg, patterns...)
	if err != nil {
		return nil, err
	}
	nerr := 0
	packages.Visit(initial, nil, func(p *packages.Package) {
		for _, e := range p.Errors {
			if nerr < 20 {
				fmt.Fprintf(os.Stderr, "load error: %s: %v\n", p.PkgPath, e)
			}
			nerr++
		}
	})
	if nerr > 0 {
		return nil, fmt.Errorf("%d package load errors", nerr)
	}
	prog, pkgs := ssautil.AllPackages(initial, ssa.InstantiateGenerics|ssa.BareInits)
	var init0 []string
	for k, p := range pkgs {
		if p != nil {
			p.Build()
			init0 = append(init0, initial[k].PkgPath)
		}
	}
	all := prog.AllPackages()
	return &Program{Prog: prog, Pkgs: all, Sizes: &types.StdSizes{WordSize: 8, MaxAlign: 8}, Dir: dir, Initial: init0}, nil
}

type Options struct {
	Workers       int
	MaxPaths      int
	MaxDecisions  int
	MaxSteps      int64
	Unwind        int
	FeasMs        int
	AssertMs      int
	Solver        string
	Solver2       string // optional second opinion on assertion queries
	Trace         bool
	Concrete      map[string]string // replay: variable values; when non-nil the run is fully concrete
	KeepGoing     bool              // continue exploring after a violation
	MaxViolations int               // with KeepGoing: stop exploring a harness after this many violations (0 = never)
	Deadline      time.Time         // stop exploring when this instant has passed (zero = never)
	DumpDir       string
	Fallback      []string        // solvers tried when the primary answers unknown
	Tier          int             // 0 quick, 1 thorough (read by harnesses via verifTier)
	Known         map[string]bool // ids of listed known findings
}

func (o *Options) defaults() {
	if o.Workers <= 0 {
		o.Workers = runtime.NumCPU()
	}
	if o.MaxPaths <= 0 {
		o.MaxPaths = 4096
	}
	if o.MaxDecisions <= 0 {
		o.MaxDecisions = 3000
	}
	if o.MaxSteps <= 0 {
		o.MaxSteps = 200_000_000
	}
	if o.Unwind <= 0 {
		o.Unwind = 12
	}
	if o.FeasMs <= 0 {
		o.FeasMs = 5000
	}
	if o.AssertMs <= 0 {
		o.AssertMs = 60000
	}
	if o.Solver == "" {
		o.Solver = "z3-new"
	}
	if o.Fallback == nil {
		o.Fallback = []string{"z3", "cvc5"}
	}
}

type Obligation struct {
	Label   string `json:"label"`
	Site    string `json:"site"`
	Result  string `json:"result"` // "unsat" (holds), "sat" (violated), "unknown", "concrete-true", "concrete-false", "error", "disagree"
	Ms      int64  `json:"ms"`
	Solver  string `json:"solver"`
	Solver2 string `json:"solver2,omitempty"`
}

type Violation struct {
	Harness string            `json:"harness"`
	Label   string            `json:"label"`
	Site    string            `json:"site"`
	Model   map[string]string `json:"vars"`
	Path    string            `json:"path"`
	Kind    string            `json:"kind"` // "assert" | "panic"
	Detail  string            `json:"detail,omitempty"`
}

type KnownHit struct {
	ID      string            `json:"id"`
	Harness string            `json:"harness"`
	Label   string            `json:"label"`
	Model   map[string]string `json:"vars"`
}

type PathResult struct {
	KnownHits     []KnownHit
	NDecisions    int
	Decisions     string
	Outcome       string // "ok","infeasible","assume-false","unsupported","unwind","budget","panic","violation"
	Msg           string
	Obligations   []Obligation
	Covers        []string
	Violations    []Violation
	Steps         int64
	UnknownFeas   int
	lastPanicSite string
	panicDepth    int
	funcs         map[string]bool
}

type CoverInfo struct {
	Label   string            `json:"label"`
	Paths   int               `json:"paths"`
	Witness map[string]string `json:"witness,omitempty"`
	Status  string            `json:"status"` // "sat" witnessed, "unknown"
	final   bool              // the witness satisfies a whole completed path
}

type HarnessResult struct {
	Harness         string                    `json:"harness"`
	Paths           int                       `json:"paths"`
	Outcomes        map[string]int            `json:"outcomes"`
	Obligations     int                       `json:"obligations"`
	Discharged      int                       `json:"discharged"`
	ByResult        map[string]int            `json:"by_result"`
	ByLabel         map[string]map[string]int `json:"by_label"`
	Covers          map[string]*CoverInfo     `json:"covers"`
	Violations      []Violation               `json:"violations"`
	Inconclusive    []string                  `json:"inconclusive"`
	Funcs           []string                  `json:"functions"`
	Steps           int64                     `json:"steps"`
	UnknownFeas     int                       `json:"unknown_feasibility"`
	WallS           float64                   `json:"wall_s"`
	SamplePaths     []string                  `json:"sample_paths"`
	StoppedEarly    bool                      `json:"stopped_early,omitempty"`
	PathBudgetHit   bool                      `json:"path_budget_hit"`
	TimeBudgetHit   bool                      `json:"time_budget_hit,omitempty"`
	KnownHits       []KnownHit                `json:"known_hits"`
	Decisions       int                       `json:"decisions"`
	InfeasibleSites map[string]int            `json:"infeasible_sites,omitempty"`
}

type Run struct {
	p       *Program
	opts    Options
	fn      *ssa.Function
	mu      sync.Mutex
	covers  map[string]*CoverInfo
	stopped bool
}

func (r *Run) query(i *interpreter, script string, ms int, vars []*Term) QueryResult {
	if i.solver == nil || i.solver.dead {
		s, err := startSolver(r.opts.Solver)
		if err != nil {
			return QueryResult{Status: "error", Raw: err.Error()}
		}
		i.solver = s
	}
	res := i.solver.Check(script, ms, vars)
	if res.Status == "unknown" || res.Status == "error" {
		// portfolio: ask the fallback solvers before giving up
		for _, name := range r.opts.Fallback {
			if name == "" || name == r.opts.Solver {
				continue
			}
			if i.fallback == nil {
				i.fallback = map[string]*Solver{}
			}
			s := i.fallback[name]
			if s == nil || s.dead {
				var err error
				s, err = startSolver(name)
				if err != nil {
					continue
				}
				i.fallback[name] = s
			}
			r2 := s.Check(script, ms, vars)
			if r2.Status == "sat" || r2.Status == "unsat" {
				res = r2
				break
			}
		}
	}
	if r.opts.DumpDir != "" && (res.Status == "unknown" || res.Status == "error" || res.Ms > 2000) {
		os.MkdirAll(r.opts.DumpDir, 0o755)
		f := filepath.Join(r.opts.DumpDir, fmt.Sprintf("%s-%dms-%d.smt2", res.Status, res.Ms, time.Now().UnixNano()))
		os.WriteFile(f, []byte(script+"(check-sat)\n"), 0o644)
	}
	return res
}

func (p *Program) FindFunc(pkgPath, name string) *ssa.Function {
	for _, pk := range p.Pkgs {
		if pk != nil && pk.Pkg.Path() == pkgPath {
			return pk.Func(name)
		}
	}
	return nil
}

// HarnessNames lists functions called Verif<prefix>* in pkgPath.
func (p *Program) HarnessNames(pkgPath, prefix string) []string {
	var r []string
	for _, pk := range p.Pkgs {
		if pk != nil && pk.Pkg.Path() == pkgPath {
			for n, m := range pk.Members {
				if f, ok := m.(*ssa.Function); ok && strings.HasPrefix(n, prefix) && f.Signature.Params().Len() == 0 {
					r = append(r, n)
				}
			}
		}
	}
	sort.Strings(r)
	return r
}

type worker struct {
	solver   *Solver
	solver2  *Solver
	fallback map[string]*Solver
}

// RunHarness explores all paths of fn.
func (p *Program) RunHarness(fn *ssa.Function, opts Options) *HarnessResult {
	opts.defaults()
	start := time.Now()
	run := &Run{p: p, opts: opts, fn: fn, covers: map[string]*CoverInfo{}}
	hr := &HarnessResult{Harness: fn.Name(), Outcomes: map[string]int{}, ByResult: map[string]int{}, ByLabel: map[string]map[string]int{}, Covers: run.covers}
	funcs := map[string]bool{}
	inconc := map[string]bool{}

	var qmu sync.Mutex
	cond := sync.NewCond(&qmu)
	queue := [][]bool{{}}
	active := 0
	scheduled := 1

	workerFn := func() {
		w := &worker{}
		defer func() {
			w.solver.Close()
			w.solver2.Close()
			for _, s := range w.fallback {
				s.Close()
			}
		}()
		for {
			qmu.Lock()
			for len(queue) == 0 && active > 0 {
				cond.Wait()
			}
			if len(queue) > 0 && !opts.Deadline.IsZero() && time.Now().After(opts.Deadline) {
				// the run's time budget is used up: stop exploring (reported as inconclusive)
				queue = nil
				hr.TimeBudgetHit = true
			}
			if len(queue) == 0 && active == 0 {
				qmu.Unlock()
				cond.Broadcast()
				return
			}
			if len(queue) == 0 {
				qmu.Unlock()
				continue
			}
			prefix := queue[len(queue)-1]
			queue = queue[:len(queue)-1]
			active++
			qmu.Unlock()

			res, newp := run.runPath(w, prefix)

			qmu.Lock()
			active--
			for _, np := range newp {
				if scheduled >= opts.MaxPaths {
					hr.PathBudgetHit = true
					break
				}
				scheduled++
				queue = append(queue, np)
			}
			// aggregate
			if res.Outcome != "infeasible" {
				hr.Paths++
			}
			hr.Outcomes[res.Outcome]++
			if res.Outcome == "infeasible" {
				if hr.InfeasibleSites == nil {
					hr.InfeasibleSites = map[string]int{}
				}
				hr.InfeasibleSites[res.Msg]++
			}
			hr.Steps += res.Steps
			hr.UnknownFeas += res.UnknownFeas
			for _, o := range res.Obligations {
				hr.Obligations++
				hr.ByResult[o.Result]++
				if hr.ByLabel[o.Label] == nil {
					hr.ByLabel[o.Label] = map[string]int{}
				}
				hr.ByLabel[o.Label][o.Result]++
				if o.Result == "unsat" || o.Result == "concrete-true" {
					hr.Discharged++
				}
				if o.Result == "unknown" || o.Result == "error" || o.Result == "disagree" {
					inconc[fmt.Sprintf("assertion %q at %s: solver answered %s", o.Label, o.Site, o.Result)] = true
				}
			}
			hr.Violations = append(hr.Violations, res.Violations...)
			hr.KnownHits = append(hr.KnownHits, res.KnownHits...)
			if res.Outcome != "infeasible" {
				hr.Decisions += res.NDecisions
			}
			switch res.Outcome {
			case "unsupported", "unwind", "budget", "panic", "unknown-path":
				inconc[res.Outcome+": "+truncStr(res.Msg, 1500)] = true
			}
			for f := range res.funcs {
				funcs[f] = true
			}
			if len(hr.SamplePaths) < 3 && res.Outcome == "ok" {
				hr.SamplePaths = append(hr.SamplePaths, res.Decisions+" covers="+strings.Join(res.Covers, ","))
			}
			if len(hr.Violations) > 0 && (!opts.KeepGoing || (opts.MaxViolations > 0 && len(hr.Violations) >= opts.MaxViolations)) {
				queue = nil
				hr.StoppedEarly = true
			}
			qmu.Unlock()
			cond.Broadcast()
		}
	}
	var wg sync.WaitGroup
	for k := 0; k < opts.Workers; k++ {
		wg.Add(1)
		go func() { defer wg.Done(); workerFn() }()
	}
	wg.Wait()
	if hr.PathBudgetHit {
		inconc[fmt.Sprintf("path budget %d exhausted", opts.MaxPaths)] = true
	}
	if hr.TimeBudgetHit {
		inconc["time budget of the run exhausted before the exploration finished"] = true
	}
	for f := range funcs {
		hr.Funcs = append(hr.Funcs, f)
	}
	sort.Strings(hr.Funcs)
	for m := range inconc {
		hr.Inconclusive = append(hr.Inconclusive, m)
	}
	sort.Strings(hr.Inconclusive)
	hr.WallS = time.Since(start).Seconds()
	return hr
}

func newInterp(p *Program) *interpreter {
	i := &interpreter{
		prog:       p.Prog,
		globals:    make(map[*ssa.Global]*value),
		sizes:      p.Sizes,
		goroutines: 1,
		tc:         newTermCtx(),
		ghost:      map[string]value{},
	}
	runtimePkg := i.prog.ImportedPackage("runtime")
	if runtimePkg == nil {
		panic("ssa.Program doesn't include runtime package")
	}
	i.runtimeErrorString = runtimePkg.Type("errorString").Object().Type()
	initReflect(i)
	return i
}

func decisionString(d []bool) string {
	b := make([]byte, len(d))
	for k, x := range d {
		if x {
			b[k] = '1'
		} else {
			b[k] = '0'
		}
	}
	return string(b)
}

func (r *Run) runPath(w *worker, prefix []bool) (res *PathResult, newPrefixes [][]bool) {
	i := newInterp(r.p)
	i.run = r
	i.prefix = prefix
	i.solver = w.solver
	i.fallback = w.fallback
	res = &PathResult{funcs: map[string]bool{}}
	i.res = res
	if r.opts.Trace {
		i.mode |= EnableTracing
	}
	if r.opts.Concrete == nil {
		i.model = map[string]*big.Int{} // empty PC: every variable may be 0
	}
	defer func() {
		w.solver = i.solver
		w.fallback = i.fallback
		res.Decisions = decisionString(i.decisions)
		res.NDecisions = len(i.decisions)
		res.Steps = i.steps
		res.UnknownFeas = i.unknownFeas
		newPrefixes = i.newPrefixes
		if p := recover(); p != nil {
			switch x := p.(type) {
			case abort:
				res.Outcome = x.kind
				res.Msg = x.msg
			case targetPanic:
				res.Outcome = "panic"
				res.Msg = "uncaught panic in harness: " + truncStr(toString(x.v), 300) + " @ " + res.lastPanicSite
			case runtime.Error:
				res.Outcome = "panic"
				res.Msg = "uncaught runtime error: " + x.Error() + " @ " + res.lastPanicSite
			default:
				res.Outcome = "unsupported"
				res.Msg = fmt.Sprintf("engine panic: %v", p)
			}
		}
	}()
	call(i, nil, token.NoPos, r.fn, nil)
	res.Outcome = "ok"
	// a cover label's witness should satisfy the WHOLE path (variables drawn after the label included):
	// replace witnesses taken at cover time by the model at the end of a completed path
	if r.opts.Concrete == nil && len(res.Covers) > 0 {
		need := false
		r.mu.Lock()
		for _, l := range res.Covers {
			if ci := r.covers[l]; ci != nil && !ci.final {
				need = true
			}
		}
		r.mu.Unlock()
		if need {
			m := i.model
			if m == nil {
				if q := i.solve(i.pc, r.opts.FeasMs); q.Status == "sat" {
					m = q.Model
				}
			}
			if m != nil {
				wit := i.fullModel(m)
				r.mu.Lock()
				for _, l := range res.Covers {
					if ci := r.covers[l]; ci != nil && !ci.final {
						ci.Status, ci.Witness, ci.final = "sat", wit, true
					}
				}
				r.mu.Unlock()
			}
		}
	}
	return
}

func modelStrings(m map[string]*big.Int) map[string]string {
	r := map[string]string{}
	for k, v := range m {
		r[k] = v.String()
	}
	return r
}

func (i *interpreter) mkError(msg string) value {
	return iface{i.runtimeErrorString, msg}
}

// WriteJSON helper for the CLI.
func WriteJSON(path string, v interface{}) error {
	b, err := json.MarshalIndent(v, "", " ")
	if err != nil {
		return err
	}
	return os.WriteFile(path, b, 0o644)
}
