package interp

// fmt and errors intrinsics.  Formatting is never the subject of a property:
// with concrete arguments the text is computed natively (Stringer/error
// methods are called through the interpreter); if any argument is symbolic the
// result is an opaque string.

import (
	"fmt"
	"go/token"
	"go/types"
	"strings"

	"golang.org/x/tools/go/ssa"
)

type opaqueArg struct{}

// nativeArg converts an interpreter value (usually an iface) to something fmt can print.
func (i *interpreter) nativeArg(fr *frame, v value, depth int) (interface{}, bool) {
	switch x := v.(type) {
	case iface:
		if x.t == nil {
			return nil, true
		}
		// symbolic time values are never rendered (digit loops over symbolic durations explode)
		if isTimeType(x.t) && containsSymDeep(x.v, 0) {
			return nil, false
		}
		// error / Stringer through the interpreter
		if depth < 3 {
			for _, m := range []string{"Error", "String"} {
				if fn := i.findMethod(x.t, m); fn != nil && fn.Signature.Params().Len() == 0 && fn.Signature.Results().Len() == 1 {
					if b, ok := fn.Signature.Results().At(0).Type().Underlying().(*types.Basic); ok && b.Kind() == types.String {
						if p, isPtr := x.v.(*value); isPtr && p == nil {
							return "<nil>", true
						}
						r := call(i, fr, token.NoPos, fn, []value{x.v})
						if s, ok := r.(string); ok {
							return s, true
						}
						return nil, false
					}
				}
			}
		}
		return i.nativeArg(fr, x.v, depth+1)
	case symInt, symBool, symF64, symStr:
		return nil, false
	case bool, int, int8, int16, int32, int64, uint, uint8, uint16, uint32, uint64, uintptr, float32, float64, string, complex64, complex128:
		return x, true
	case []value:
		if containsSymDeep(x, 0) {
			return nil, false
		}
		allBytes := len(x) > 0
		for _, e := range x {
			if _, ok := e.(byte); !ok {
				allBytes = false
				break
			}
		}
		if allBytes {
			return valueToBytes(x), true
		}
		r := make([]interface{}, len(x))
		for k := range x {
			a, ok := i.nativeArg(fr, x[k], depth+1)
			if !ok {
				return nil, false
			}
			r[k] = a
		}
		return r, true
	case *value:
		if x == nil {
			return "<nil>", true
		}
		return "<ptr>", true
	case structure, array:
		if containsSymDeep(x, 0) {
			return nil, false
		}
		return toString(x), true
	case nil:
		return nil, true
	}
	return fmt.Sprintf("<%T>", v), true
}

func containsSymDeep(v value, depth int) bool {
	if depth > 6 {
		return false
	}
	switch x := v.(type) {
	case symInt, symBool, symF64, symStr:
		return true
	case bigVal:
		return x.t != nil
	case structure:
		for _, e := range x {
			if containsSymDeep(e, depth+1) {
				return true
			}
		}
	case array:
		for _, e := range x {
			if containsSymDeep(e, depth+1) {
				return true
			}
		}
	case []value:
		for _, e := range x {
			if containsSymDeep(e, depth+1) {
				return true
			}
		}
	case iface:
		return containsSymDeep(x.v, depth+1)
	case *value:
		if x != nil {
			return containsSymDeep(*x, depth+1)
		}
	}
	return false
}

func (i *interpreter) findMethod(t types.Type, name string) *ssa.Function {
	ms := i.prog.MethodSets.MethodSet(t)
	for k := 0; k < ms.Len(); k++ {
		sel := ms.At(k)
		if sel.Obj().Name() == name {
			return i.prog.MethodValue(sel)
		}
	}
	return nil
}

// structuredSprintf handles formats made of literal text and plain %v/%s/%d verbs when some
// argument renders to structured symbolic text (e.g. the decimal text of a symbolic Int).
func (i *interpreter) structuredSprintf(fr *frame, format string, args []value) (value, bool) {
	var out []value
	ai := 0
	for k := 0; k < len(format); k++ {
		c := format[k]
		if c != '%' {
			out = append(out, c)
			continue
		}
		if k+1 >= len(format) {
			return nil, false
		}
		k++
		switch format[k] {
		case '%':
			out = append(out, byte('%'))
		case 'v', 's', 'd':
			if ai >= len(args) {
				return nil, false
			}
			a := args[ai]
			ai++
			var text value
			if n, ok := i.nativeArg(fr, a, 0); ok {
				text = fmt.Sprint(n)
			} else if itf, isI := a.(iface); isI && itf.t != nil && !isTimeType(itf.t) {
				if fn := i.findMethod(itf.t, "String"); fn != nil && fn.Signature.Params().Len() == 0 {
					text = call(i, fr, token.NoPos, fn, []value{itf.v})
				}
			}
			el, ok := strElems(text)
			if !ok {
				return nil, false
			}
			out = append(out, el...)
		default:
			return nil, false
		}
	}
	if ai != len(args) {
		return nil, false
	}
	return i.strFromElems(out), true
}

func (i *interpreter) sprintf(fr *frame, format string, args []value) value {
	nat := make([]interface{}, len(args))
	for k, a := range args {
		n, ok := i.nativeArg(fr, a, 0)
		if !ok {
			if r, ok2 := i.structuredSprintf(fr, format, args); ok2 {
				return r
			}
			return i.newSymStr("fmt")
		}
		nat[k] = n
	}
	// %w behaves like %v for the text
	return fmt.Sprintf(strings.ReplaceAll(format, "%w", "%v"), nat...)
}

func (i *interpreter) sprint(fr *frame, args []value, ln bool) value {
	nat := make([]interface{}, len(args))
	for k, a := range args {
		n, ok := i.nativeArg(fr, a, 0)
		if !ok {
			return i.newSymStr("fmt")
		}
		nat[k] = n
	}
	if ln {
		return fmt.Sprintln(nat...)
	}
	return fmt.Sprint(nat...)
}

func variadic(v value) []value {
	s, _ := v.([]value)
	return s
}

func (i *interpreter) namedType(pkg, name string) types.Type {
	p := i.prog.ImportedPackage(pkg)
	if p == nil {
		panic(unsupported("package " + pkg + " not loaded"))
	}
	return p.Type(name).Object().Type()
}

func registerFmt() {
	externals["fmt.Sprintf"] = func(fr *frame, args []value) value {
		f, ok := args[0].(string)
		if !ok {
			return fr.i.newSymStr("fmt")
		}
		return fr.i.sprintf(fr, f, variadic(args[1]))
	}
	externals["fmt.Sprint"] = func(fr *frame, args []value) value { return fr.i.sprint(fr, variadic(args[0]), false) }
	externals["fmt.Sprintln"] = func(fr *frame, args []value) value { return fr.i.sprint(fr, variadic(args[0]), true) }
	externals["fmt.Errorf"] = func(fr *frame, args []value) value {
		i := fr.i
		var msg value
		if f, ok := args[0].(string); ok {
			msg = i.sprintf(fr, f, variadic(args[1]))
			if strings.Contains(f, "%w") {
				for _, a := range variadic(args[1]) {
					if e, ok := a.(iface); ok && e.t != nil && i.findMethod(e.t, "Error") != nil {
						var cell value = structure{msg, e}
						return iface{types.NewPointer(i.namedType("fmt", "wrapError")), &cell}
					}
				}
			}
		} else {
			msg = i.newSymStr("fmt")
		}
		var cell value = structure{msg}
		return iface{types.NewPointer(i.namedType("errors", "errorString")), &cell}
	}
	for _, n := range []string{"fmt.Printf", "fmt.Println", "fmt.Print"} {
		externals[n] = func(fr *frame, args []value) value { return tuple{0, iface{}} }
	}
	externals["fmt.Fprintf"] = func(fr *frame, args []value) value { return tuple{0, iface{}} }
	externals["fmt.Fprintln"] = func(fr *frame, args []value) value { return tuple{0, iface{}} }
	externals["fmt.Fprint"] = func(fr *frame, args []value) value { return tuple{0, iface{}} }
}

func registerErrors() {
	// errors.Is: the real one uses reflectlite for comparability.
	var is func(fr *frame, err, target iface, depth int) bool
	is = func(fr *frame, err, target iface, depth int) bool {
		i := fr.i
		for depth < 50 {
			if err.t == nil {
				return target.t == nil
			}
			if sameType(err.t, target.t) {
				comparable := types.Comparable(err.t)
				if comparable && !containsSym(err.v) && equals(err.t, err.v, target.v) {
					return true
				}
			}
			if fn := i.findMethod(err.t, "Is"); fn != nil && fn.Signature.Params().Len() == 1 {
				r := call(i, fr, token.NoPos, fn, []value{err.v, target})
				if b, ok := r.(bool); ok && b {
					return true
				}
			}
			fn := i.findMethod(err.t, "Unwrap")
			if fn == nil || fn.Signature.Results().Len() != 1 {
				return false
			}
			r := call(i, fr, token.NoPos, fn, []value{err.v})
			switch u := r.(type) {
			case iface:
				if u.t == nil {
					return false
				}
				err = u
			case []value:
				for _, e := range u {
					if is(fr, e.(iface), target, depth+1) {
						return true
					}
				}
				return false
			default:
				return false
			}
			depth++
		}
		return false
	}
	externals["errors.Is"] = func(fr *frame, args []value) value {
		return is(fr, args[0].(iface), args[1].(iface), 0)
	}
	externals["errors.As"] = func(fr *frame, args []value) value {
		i := fr.i
		err := args[0].(iface)
		tgt := args[1].(iface)
		pt, ok := tgt.t.Underlying().(*types.Pointer)
		if !ok {
			panic(targetPanic{"errors: target must be a non-nil pointer"})
		}
		want := pt.Elem()
		for depth := 0; depth < 50 && err.t != nil; depth++ {
			assignable := false
			if it, ok := want.Underlying().(*types.Interface); ok {
				assignable = types.Implements(err.t, it)
			} else {
				assignable = types.Identical(err.t, want)
			}
			if assignable {
				p := tgt.v.(*value)
				if _, ok := want.Underlying().(*types.Interface); ok {
					*p = err
				} else {
					*p = err.v
				}
				return true
			}
			fn := i.findMethod(err.t, "Unwrap")
			if fn == nil || fn.Signature.Results().Len() != 1 {
				return false
			}
			r := call(i, fr, token.NoPos, fn, []value{err.v})
			u, ok := r.(iface)
			if !ok {
				return false
			}
			err = u
		}
		return false
	}
}

func isTimeType(t types.Type) bool {
	if p, ok := t.(*types.Pointer); ok {
		t = p.Elem()
	}
	n, ok := t.(*types.Named)
	return ok && n.Obj().Pkg() != nil && n.Obj().Pkg().Path() == "time"
}
