package interp

import (
	"fmt"
	"go/types"
)

// packedMsg is the single pseudo-byte of a packed protobuf message: the codec
// stub's Marshal returns []byte{packedMsg}; Unmarshal restores the snapshot.
// (Assumption recorded in evidence: protobuf round-trip is the identity.)
type packedMsg struct {
	t types.Type
	v value
}

func deepClone(v value, memo map[*value]*value) value {
	switch x := v.(type) {
	case *value:
		if x == nil {
			return x
		}
		if c, ok := memo[x]; ok {
			return c
		}
		n := new(value)
		memo[x] = n
		*n = deepClone(*x, memo)
		return n
	case structure:
		c := make(structure, len(x))
		for k := range x {
			c[k] = deepClone(x[k], memo)
		}
		return c
	case array:
		c := make(array, len(x))
		for k := range x {
			c[k] = deepClone(x[k], memo)
		}
		return c
	case []value:
		if x == nil {
			return x
		}
		c := make([]value, len(x))
		for k := range x {
			c[k] = deepClone(x[k], memo)
		}
		return c
	case iface:
		return iface{x.t, deepClone(x.v, memo)}
	case map[value]value:
		if x == nil {
			return x
		}
		c := make(map[value]value, len(x))
		for k, e := range x {
			c[k] = deepClone(e, memo)
		}
		return c
	}
	return v
}

func prim_verifPack(fr *frame, args []value) value {
	m, ok := args[0].(iface)
	if !ok || m.t == nil {
		panic(unsupported("verifPack(nil)"))
	}
	p, ok := m.v.(*value)
	if !ok || p == nil {
		panic(unsupported(fmt.Sprintf("verifPack of non-pointer %T", m.v)))
	}
	return []value{packedMsg{t: m.t, v: deepClone(*p, map[*value]*value{})}}
}

func prim_verifUnpack(fr *frame, args []value) value {
	bz, ok := args[0].([]value)
	if !ok || len(bz) != 1 {
		panic(unsupported("verifUnpack of bytes that were not produced by verifPack"))
	}
	pm, ok := bz[0].(packedMsg)
	if !ok {
		panic(unsupported("verifUnpack of bytes that were not produced by verifPack"))
	}
	m := args[1].(iface)
	if !types.Identical(m.t, pm.t) {
		panic(unsupported(fmt.Sprintf("verifUnpack: stored %s, requested %s", pm.t, m.t)))
	}
	p := m.v.(*value)
	store(mustDeref(m.t), p, deepClone(pm.v, map[*value]*value{}))
	return nil
}
