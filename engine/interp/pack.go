package interp

import (
	"fmt"
	"go/types"
	"math/big"
)

// packedMsg is the single pseudo-byte of a packed protobuf message: the codec
// stub's Marshal returns []byte{packedMsg}; Unmarshal restores the snapshot.
// (Assumption recorded in evidence: protobuf round-trip is the identity.)
type packedMsg struct {
	t types.Type
	v value
}

func deepClone(v value, memo map[*value]*value) value {
	switch x := v.(type) {
	case *value:
		if x == nil {
			return x
		}
		if c, ok := memo[x]; ok {
			return c
		}
		n := new(value)
		memo[x] = n
		*n = deepClone(*x, memo)
		return n
	case structure:
		c := make(structure, len(x))
		for k := range x {
			c[k] = deepClone(x[k], memo)
		}
		return c
	case array:
		c := make(array, len(x))
		for k := range x {
			c[k] = deepClone(x[k], memo)
		}
		return c
	case []value:
		if x == nil {
			return x
		}
		c := make([]value, len(x))
		for k := range x {
			c[k] = deepClone(x[k], memo)
		}
		return c
	case iface:
		return iface{x.t, deepClone(x.v, memo)}
	case map[value]value:
		if x == nil {
			return x
		}
		c := make(map[value]value, len(x))
		for k, e := range x {
			c[k] = deepClone(e, memo)
		}
		return c
	}
	return v
}

func prim_verifPack(fr *frame, args []value) value {
	m, ok := args[0].(iface)
	if !ok || m.t == nil {
		panic(unsupported("verifPack(nil)"))
	}
	p, ok := m.v.(*value)
	if !ok || p == nil {
		panic(unsupported(fmt.Sprintf("verifPack of non-pointer %T", m.v)))
	}
	c := deepClone(*p, map[*value]*value{})
	return []value{packedMsg{t: m.t, v: normalizeNilNumbers(mustDeref(m.t), c, 0)}}
}

// normalizeNilNumbers: the one place where a protobuf round trip is NOT the identity for the messages of
// this repository: a cosmossdk.io/math.Int / LegacyDec without a value (nil *big.Int) is written as "0"
// by its Marshal method and therefore read back as zero.
func normalizeNilNumbers(t types.Type, v value, depth int) value {
	if depth > 12 {
		return v
	}
	if n, ok := t.(*types.Named); ok && n.Obj().Pkg() != nil && n.Obj().Pkg().Path() == "cosmossdk.io/math" && (n.Obj().Name() == "Int" || n.Obj().Name() == "LegacyDec") {
		if st, ok := v.(structure); ok && len(st) == 1 {
			if bp, ok := st[0].(*value); ok && bp == nil {
				return structure{newBigPtr(new(big.Int), nil)}
			}
		}
		return v
	}
	switch u := t.Underlying().(type) {
	case *types.Struct:
		st, ok := v.(structure)
		if !ok || len(st) != u.NumFields() {
			return v
		}
		for k := range st {
			st[k] = normalizeNilNumbers(u.Field(k).Type(), st[k], depth+1)
		}
		return st
	case *types.Pointer:
		if pv, ok := v.(*value); ok && pv != nil {
			*pv = normalizeNilNumbers(u.Elem(), *pv, depth+1)
		}
	case *types.Slice:
		if sl, ok := v.([]value); ok {
			for k := range sl {
				sl[k] = normalizeNilNumbers(u.Elem(), sl[k], depth+1)
			}
		}
	case *types.Array:
		if ar, ok := v.(array); ok {
			for k := range ar {
				ar[k] = normalizeNilNumbers(u.Elem(), ar[k], depth+1)
			}
		}
	}
	return v
}

func prim_verifUnpack(fr *frame, args []value) value {
	bz, ok := args[0].([]value)
	if !ok || len(bz) != 1 {
		panic(unsupported("verifUnpack of bytes that were not produced by verifPack"))
	}
	pm, ok := bz[0].(packedMsg)
	if !ok {
		panic(unsupported("verifUnpack of bytes that were not produced by verifPack"))
	}
	m := args[1].(iface)
	if !types.Identical(m.t, pm.t) {
		panic(unsupported(fmt.Sprintf("verifUnpack: stored %s, requested %s", pm.t, m.t)))
	}
	p := m.v.(*value)
	store(mustDeref(m.t), p, deepClone(pm.v, map[*value]*value{}))
	return nil
}
