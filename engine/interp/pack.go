package interp

import (
	"fmt"
	"go/types"
	"math/big"
	"strings"
)

// packedMsg is the single pseudo-byte of a packed protobuf message: the codec
// stub's Marshal returns []byte{packedMsg}; Unmarshal restores the snapshot.
// (Assumption recorded in evidence: protobuf round-trip is the identity.)
type packedMsg struct {
	t types.Type
	v value
}

func deepClone(v value, memo map[*value]*value) value {
	switch x := v.(type) {
	case *value:
		if x == nil {
			return x
		}
		if c, ok := memo[x]; ok {
			return c
		}
		n := new(value)
		memo[x] = n
		*n = deepClone(*x, memo)
		return n
	case structure:
		c := make(structure, len(x))
		for k := range x {
			c[k] = deepClone(x[k], memo)
		}
		return c
	case array:
		c := make(array, len(x))
		for k := range x {
			c[k] = deepClone(x[k], memo)
		}
		return c
	case []value:
		if x == nil {
			return x
		}
		c := make([]value, len(x))
		for k := range x {
			c[k] = deepClone(x[k], memo)
		}
		return c
	case iface:
		return iface{x.t, deepClone(x.v, memo)}
	case map[value]value:
		if x == nil {
			return x
		}
		c := make(map[value]value, len(x))
		for k, e := range x {
			c[k] = deepClone(e, memo)
		}
		return c
	}
	return v
}

func prim_verifPack(fr *frame, args []value) value {
	m, ok := args[0].(iface)
	if !ok || m.t == nil {
		panic(unsupported("verifPack(nil)"))
	}
	p, ok := m.v.(*value)
	if !ok || p == nil {
		panic(unsupported(fmt.Sprintf("verifPack of non-pointer %T", m.v)))
	}
	c := deepClone(*p, map[*value]*value{})
	return []value{packedMsg{t: m.t, v: normalizeNilNumbers(mustDeref(m.t), c, 0)}}
}

// normalizeNilNumbers: the one place where a protobuf round trip is NOT the identity for the messages of
// this repository: a cosmossdk.io/math.Int / LegacyDec without a value (nil *big.Int) is written as "0"
// by its Marshal method and therefore read back as zero.
func normalizeNilNumbers(t types.Type, v value, depth int) value {
	if depth > 12 {
		return v
	}
	if n, ok := t.(*types.Named); ok && n.Obj().Pkg() != nil && n.Obj().Pkg().Path() == "cosmossdk.io/math" && (n.Obj().Name() == "Int" || n.Obj().Name() == "LegacyDec") {
		if st, ok := v.(structure); ok && len(st) == 1 {
			if bp, ok := st[0].(*value); ok && bp == nil {
				return structure{newBigPtr(new(big.Int), nil)}
			}
		}
		return v
	}
	switch u := t.Underlying().(type) {
	case *types.Struct:
		st, ok := v.(structure)
		if !ok || len(st) != u.NumFields() {
			return v
		}
		for k := range st {
			st[k] = normalizeNilNumbers(u.Field(k).Type(), st[k], depth+1)
		}
		return st
	case *types.Pointer:
		if pv, ok := v.(*value); ok && pv != nil {
			*pv = normalizeNilNumbers(u.Elem(), *pv, depth+1)
		}
	case *types.Slice:
		if sl, ok := v.([]value); ok {
			for k := range sl {
				sl[k] = normalizeNilNumbers(u.Elem(), sl[k], depth+1)
			}
		}
	case *types.Array:
		if ar, ok := v.(array); ok {
			for k := range ar {
				ar[k] = normalizeNilNumbers(u.Elem(), ar[k], depth+1)
			}
		}
	}
	return v
}

func prim_verifUnpack(fr *frame, args []value) value {
	bz, ok := args[0].([]value)
	if !ok || len(bz) != 1 {
		panic(unsupported("verifUnpack of bytes that were not produced by verifPack"))
	}
	pm, ok := bz[0].(packedMsg)
	if !ok {
		panic(unsupported("verifUnpack of bytes that were not produced by verifPack"))
	}
	m := args[1].(iface)
	if !types.Identical(m.t, pm.t) {
		panic(unsupported(fmt.Sprintf("verifUnpack: stored %s, requested %s", pm.t, m.t)))
	}
	p := m.v.(*value)
	store(mustDeref(m.t), p, deepClone(pm.v, map[*value]*value{}))
	return nil
}

// mergeUnpack models a GENERATED (*T).Unmarshal(bytes) on bytes of the abstract codec. Unlike the codec's
// Unmarshal (which resets the target first) the generated method MERGES into the receiver, and proto3 leaves
// zero-valued scalars, empty strings / byte strings, empty repeated fields and absent messages off the wire:
// those fields of the receiver keep what they held. Scalars present on the wire overwrite, repeated fields
// append, messages merge recursively, values with their own encoding (customtype, std time) overwrite.
func mergeUnpack(fr *frame, T types.Type, dst *value, src value) {
	st, ok := T.Underlying().(*types.Struct)
	if !ok {
		panic(unsupported(fmt.Sprintf("generated Unmarshal into %s", T)))
	}
	d := (*dst).(structure)
	s := src.(structure)
	for k := 0; k < st.NumFields(); k++ {
		ft := st.Field(k).Type()
		if strings.HasPrefix(st.Field(k).Name(), "XXX_") {
			continue
		}
		switch u := ft.Underlying().(type) {
		case *types.Basic:
			present := true
			switch x := s[k].(type) {
			case symInt:
				present = !fr.i.decide(fr.i.tc.Eq(x.t, fr.i.tc.Const(new(big.Int))), "field is zero (left off the wire)")
			case symBool:
				present = fr.i.decide(x.t, "boolean field is set (on the wire)")
			case symStr, symF64:
				panic(unsupported("generated Unmarshal of a message with an opaque text / float field"))
			case bool:
				present = x
			case string:
				present = x != ""
			default:
				present = !equals(ft, s[k], zero(ft))
			}
			if present {
				d[k] = s[k]
			}
		case *types.Slice:
			sl, _ := s[k].([]value)
			if len(sl) == 0 {
				continue
			}
			if b, ok := u.Elem().Underlying().(*types.Basic); ok && b.Kind() == types.Uint8 {
				d[k] = deepClone(s[k], map[*value]*value{})
				continue
			}
			old, _ := d[k].([]value)
			d[k] = append(append([]value{}, old...), deepClone(s[k], map[*value]*value{}).([]value)...)
		case *types.Pointer:
			sp, _ := s[k].(*value)
			if sp == nil {
				continue
			}
			dp, _ := d[k].(*value)
			if dp == nil {
				d[k] = deepClone(s[k], map[*value]*value{})
				continue
			}
			if _, isStruct := u.Elem().Underlying().(*types.Struct); isStruct && isGeneratedMessage(u.Elem()) {
				mergeUnpack(fr, u.Elem(), dp, *sp)
			} else {
				*dp = deepClone(*sp, map[*value]*value{})
			}
		case *types.Struct:
			if isGeneratedMessage(ft) {
				mergeUnpack(fr, ft, &d[k], s[k])
			} else {
				d[k] = deepClone(s[k], map[*value]*value{})
			}
		case *types.Map:
			sm, _ := s[k].(map[value]value)
			if len(sm) == 0 {
				continue
			}
			panic(unsupported("generated Unmarshal of a message with a populated map field"))
		default:
			if _, isNil := s[k].(iface); isNil && s[k].(iface).t == nil {
				continue
			}
			d[k] = deepClone(s[k], map[*value]*value{})
		}
	}
}

// isGeneratedMessage: a struct type with a generated Unmarshal of its own that is not a value type with a
// private encoding (math.Int, LegacyDec, time.Time, ...): its pointer method set has both Unmarshal and
// XXX_Unmarshal / ProtoMessage.
func isGeneratedMessage(t types.Type) bool {
	ms := types.NewMethodSet(types.NewPointer(t))
	return ms.Lookup(nil, "ProtoMessage") != nil && ms.Lookup(nil, "Unmarshal") != nil
}
