package interp

import (
	"fmt"
	"go/types"
	"runtime"
	"strings"

	"golang.org/x/tools/go/ssa"
)

func mustDeref(t types.Type) types.Type {
	if p, ok := t.Underlying().(*types.Pointer); ok {
		return p.Elem()
	}
	if tp, ok := t.(*types.TypeParam); ok {
		_ = tp
	}
	panic(fmt.Sprintf("%v is not a pointer type", t))
}

func truncStr(s string, n int) string {
	if len(s) > n {
		return s[:n] + "…"
	}
	return s
}

func isSymOrStr(v value) bool {
	switch v.(type) {
	case symInt, symBool, symF64, symStr:
		return true
	}
	return false
}

// copyVal deep-copies aggregate (struct/array) values; everything else is
// immutable or a reference and is returned as is.
func copyVal(v value) value {
	switch x := v.(type) {
	case structure:
		c := make(structure, len(x))
		for i := range x {
			c[i] = copyVal(x[i])
		}
		return c
	case array:
		c := make(array, len(x))
		for i := range x {
			c[i] = copyVal(x[i])
		}
		return c
	}
	return v
}

func containsSym(v value) bool {
	switch x := v.(type) {
	case symInt, symBool, symF64, symStr:
		return true
	case structure:
		for _, e := range x {
			if containsSym(e) {
				return true
			}
		}
	case array:
		for _, e := range x {
			if containsSym(e) {
				return true
			}
		}
	case iface:
		return containsSym(x.v)
	}
	return false
}

// symEquals builds the Bool term for x == y (Go equality at type t) where
// some leaf is symbolic.
func (i *interpreter) symEquals(t types.Type, x, y value) *Term {
	tc := i.tc
	switch a := x.(type) {
	case structure:
		b := y.(structure)
		r := tc.True()
		for k := range a {
			r = tc.And(r, i.symEquals(nil, a[k], b[k]))
		}
		return r
	case array:
		b := y.(array)
		r := tc.True()
		for k := range a {
			r = tc.And(r, i.symEquals(nil, a[k], b[k]))
		}
		return r
	case iface:
		b := y.(iface)
		if !sameType(a.t, b.t) {
			return tc.False()
		}
		if a.t == nil {
			return tc.True()
		}
		return i.symEquals(a.t, a.v, b.v)
	}
	if isSymOrStr(x) || isSymOrStr(y) {
		if sx, ok := x.(symStr); ok {
			if sy, ok := y.(symStr); ok {
				if sx.id == sy.id {
					return tc.True()
				}
				if sx.kind == "int" && sy.kind == "int" {
					return tc.Eq(sx.t, sy.t)
				}
				if sx.kind == sy.kind && strings.HasPrefix(sx.kind, "ratfloat") && sx.t != nil && sy.t != nil {
					return tc.Eq(sx.t, sy.t)
				}
				if sx.kind == "hex" && sy.kind == "hex" {
					return i.elemsEqual(sx.bytes, sy.bytes)
				}
				ex, okx := strElems(sx)
				ey, oky := strElems(sy)
				if okx && oky {
					return i.elemsEqual(ex, ey)
				}
			}
			panic(unsupported("comparison of an opaque string"))
		}
		if _, ok := y.(symStr); ok {
			panic(unsupported("comparison of an opaque string"))
		}
		if _, ok := x.(symF64); ok {
			return tc.mkF("f=", SBool, tc.f64Term(x), tc.f64Term(y))
		}
		if _, ok := y.(symF64); ok {
			return tc.mkF("f=", SBool, tc.f64Term(x), tc.f64Term(y))
		}
		_, xb := x.(symBool)
		_, yb := y.(symBool)
		if xb || yb {
			return tc.Iff(tc.boolTerm(x), tc.boolTerm(y))
		}
		return tc.Eq(tc.intTerm(x), tc.intTerm(y))
	}
	return tc.Bool(equals(t, x, y))
}

// branch evaluates the condition of an If.
func (i *interpreter) branch(fr *frame, instr *ssa.If) bool {
	v := fr.get(instr.Cond)
	if b, ok := v.(bool); ok {
		return b
	}
	sb, ok := v.(symBool)
	if !ok {
		panic(unsupported(fmt.Sprintf("If condition of type %T", v)))
	}
	// unwind bound: symbolic decisions taken at the same If in the same frame
	if i.ifCount == nil {
		i.ifCount = map[*frame]map[*ssa.If]int{}
	}
	m := i.ifCount[fr]
	if m == nil {
		m = map[*ssa.If]int{}
		i.ifCount[fr] = m
	}
	m[instr]++
	if m[instr] > i.run.opts.Unwind {
		panic(abort{"unwind", fmt.Sprintf("loop with symbolic condition exceeded unwind bound %d at %s", i.run.opts.Unwind, i.prog.Fset.Position(instr.Pos()))})
	}
	return i.decide(sb.t, i.sitePos(fr, instr))
}

func (i *interpreter) sitePos(fr *frame, instr ssa.Instruction) string {
	pos := instr.Pos()
	if !pos.IsValid() {
		// walk back for a position
		return fr.fn.String()
	}
	p := i.prog.Fset.Position(pos)
	return fmt.Sprintf("%s:%d", p.Filename, p.Line)
}

func (i *interpreter) notePanic(fr *frame, instr *ssa.Panic) {
	if i.res != nil {
		i.res.lastPanicSite = fr.fn.String() + " " + i.sitePos(fr, instr)
	}
}

// classifyPanic separates engine faults from panics of the target program.
func classifyPanic(p interface{}, fr *frame) interface{} {
	switch x := p.(type) {
	case abort:
		if (x.kind == "unsupported" || x.kind == "unwind" || x.kind == "budget") && !strings.Contains(x.msg, "\n      ") {
			x.msg += " at " + fr.i.targetStack(fr, 12)
		}
		return x
	case targetPanic:
		if fr.i.res != nil {
			d := 0
			for f := fr; f != nil; f = f.caller {
				d++
			}
			if d > fr.i.res.panicDepth {
				fr.i.res.panicDepth = d
				fr.i.res.lastPanicSite = "(panic: " + truncStr(toString(x.v), 200) + ") at " + fr.i.targetStack(fr, 14)
			}
		}
		return x
	case runtime.Error:
		msg := x.Error()
		if strings.Contains(msg, "interface conversion: interface {} is") ||
			strings.Contains(msg, "interface conversion: interp.") {
			buf := make([]byte, 4096)
			n := runtime.Stack(buf, false)
			return abort{"unsupported", "engine fault in " + fr.fn.String() + ": " + msg + "\n" + string(buf[:n])}
		}
		if fr.i.res != nil && !strings.Contains(fr.i.res.lastPanicSite, msg) {
			fr.i.res.lastPanicSite = "(runtime error: " + msg + ") at " + fr.i.targetStack(fr, 14)
		}
		return x
	case string:
		for _, pre := range []string{"method invoked on nil interface", "call of nil function", "interface conversion:",
			"array length is greater", "value method "} {
			if strings.HasPrefix(x, pre) {
				if fr.i.res != nil {
					fr.i.res.lastPanicSite = fr.fn.String() + " (" + x + ")"
				}
				return x
			}
		}
		return abort{"unsupported", "engine: " + x + " in " + fr.fn.String()}
	}
	return abort{"unsupported", fmt.Sprintf("engine: unexpected panic %T %v in %s", p, p, fr.fn.String())}
}

// targetStack renders the interpreted call stack.
func (i *interpreter) targetStack(fr *frame, max int) string {
	var sb strings.Builder
	for f, n := fr, 0; f != nil && n < max; f, n = f.caller, n+1 {
		pos := ""
		if f.cur != nil && f.cur.Pos().IsValid() {
			p := i.prog.Fset.Position(f.cur.Pos())
			pos = fmt.Sprintf(" %s:%d", p.Filename, p.Line)
		}
		sb.WriteString("\n      " + f.fn.String() + pos)
	}
	return sb.String()
}

// mapKey canonicalises map keys: text derived only from abstract hashes (hex of a hash) becomes a
// concrete canonical string; other symbolic keys are unsupported.
func mapKey(k value) value {
	st, ok := k.(symStr)
	if !ok {
		if isSymOrStr(k) {
			panic(unsupported(fmt.Sprintf("symbolic map key %T", k)))
		}
		return k
	}
	var sb strings.Builder
	sb.WriteString("\x00abs:" + st.kind + ":")
	for _, e := range st.bytes {
		switch b := e.(type) {
		case byte:
			fmt.Fprintf(&sb, "%02x", b)
		case absByte:
			fmt.Fprintf(&sb, "[h%d.%d]", b.id, b.pos)
		default:
			panic(unsupported("map key derived from a symbolic value"))
		}
	}
	if len(st.bytes) == 0 {
		panic(unsupported("map key is an opaque string"))
	}
	return sb.String()
}
