package interp

// Keccak-256 (legacy padding 0x01) for go-ethereum's EIP-55 address checksum: the real implementation
// (golang.org/x/crypto/sha3) XORs through unsafe pointers, which the interpreter does not execute.

import "encoding/hex"

var keccakRC = [24]uint64{
	0x0000000000000001, 0x0000000000008082, 0x800000000000808A, 0x8000000080008000, 0x000000000000808B, 0x0000000080000001,
	0x8000000080008081, 0x8000000000008009, 0x000000000000008A, 0x0000000000000088, 0x0000000080008009, 0x000000008000000A,
	0x000000008000808B, 0x800000000000008B, 0x8000000000008089, 0x8000000000008003, 0x8000000000008002, 0x8000000000000080,
	0x000000000000800A, 0x800000008000000A, 0x8000000080008081, 0x8000000000008080, 0x0000000080000001, 0x8000000080008008,
}
var keccakRot = [24]uint{1, 3, 6, 10, 15, 21, 28, 36, 45, 55, 2, 14, 27, 41, 56, 8, 25, 43, 62, 18, 39, 61, 20, 44}
var keccakPil = [24]int{10, 7, 11, 17, 18, 3, 5, 16, 8, 21, 24, 4, 15, 23, 19, 13, 12, 2, 20, 14, 22, 9, 6, 1}

func keccakF(a *[25]uint64) {
	var bc [5]uint64
	for r := 0; r < 24; r++ {
		for i := 0; i < 5; i++ {
			bc[i] = a[i] ^ a[i+5] ^ a[i+10] ^ a[i+15] ^ a[i+20]
		}
		for i := 0; i < 5; i++ {
			t := bc[(i+4)%5] ^ (bc[(i+1)%5]<<1 | bc[(i+1)%5]>>63)
			for j := 0; j < 25; j += 5 {
				a[j+i] ^= t
			}
		}
		t := a[1]
		for i := 0; i < 24; i++ {
			j := keccakPil[i]
			b := a[j]
			a[j] = t<<keccakRot[i] | t>>(64-keccakRot[i])
			t = b
		}
		for j := 0; j < 25; j += 5 {
			for i := 0; i < 5; i++ {
				bc[i] = a[j+i]
			}
			for i := 0; i < 5; i++ {
				a[j+i] ^= (^bc[(i+1)%5]) & bc[(i+2)%5]
			}
		}
		a[0] ^= keccakRC[r]
	}
}

func keccak256(data []byte) [32]byte {
	const rate = 136
	var st [25]uint64
	buf := append([]byte{}, data...)
	buf = append(buf, 0x01)
	for len(buf)%rate != 0 {
		buf = append(buf, 0)
	}
	buf[len(buf)-1] |= 0x80
	for off := 0; off < len(buf); off += rate {
		for i := 0; i < rate/8; i++ {
			var w uint64
			for b := 0; b < 8; b++ {
				w |= uint64(buf[off+8*i+b]) << (8 * uint(b))
			}
			st[i] ^= w
		}
		keccakF(&st)
	}
	var out [32]byte
	for i := 0; i < 4; i++ {
		for b := 0; b < 8; b++ {
			out[8*i+b] = byte(st[i] >> (8 * uint(b)))
		}
	}
	return out
}

func init() {
	externals["(*github.com/ethereum/go-ethereum/common.Address).checksumHex"] = func(fr *frame, args []value) value {
		p, _ := args[0].(*value)
		a, _ := (*p).(array)
		raw := make([]byte, len(a))
		for k := range a {
			b, ok := a[k].(byte)
			if !ok {
				panic(unsupported("checksum of a symbolic address"))
			}
			raw[k] = b
		}
		h := []byte(hex.EncodeToString(raw))
		sum := keccak256(h)
		for i := range h {
			hb := sum[i/2]
			if i%2 == 0 {
				hb >>= 4
			} else {
				hb &= 0xf
			}
			if h[i] > '9' && hb > 7 {
				h[i] -= 32
			}
		}
		return bytesToValue(append([]byte("0x"), h...))
	}
	externals["github.com/ethereum/go-ethereum/crypto.Keccak256"] = func(fr *frame, args []value) value {
		var all []byte
		for _, part := range variadic(args[0]) {
			s, _ := part.([]value)
			if hasAbstract(s) {
				panic(unsupported("Keccak256 of symbolic bytes"))
			}
			all = append(all, valueToBytes(s)...)
		}
		sum := keccak256(all)
		return bytesToValue(sum[:])
	}
}
