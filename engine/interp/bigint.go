package interp

// math/big.Int as an engine intrinsic.  A big.Int object is the usual
// structure{neg, abs}; the abs slot holds a bigVal (immutable) carrying either
// a native *big.Int or an Int term.  Any real math/big code that touches the
// nat representation directly therefore faults and is reported as unsupported.

import (
	"fmt"
	"go/types"
	"math/big"
)

type bigVal struct {
	c *big.Int
	t *Term
}

func newBigPtr(c *big.Int, t *Term) *value {
	var v value = structure{false, bigVal{c, t}}
	return &v
}

func (i *interpreter) getBig(v value, what string) (*big.Int, *Term) {
	p, ok := v.(*value)
	if !ok {
		panic(unsupported(fmt.Sprintf("big.Int operand of %s is %T", what, v)))
	}
	if p == nil {
		panic(targetPanic{iface{i.runtimeErrorString, "invalid memory address or nil pointer dereference (nil *big.Int in " + what + ")"}})
	}
	st, ok := (*p).(structure)
	if !ok {
		panic(unsupported(fmt.Sprintf("big.Int cell holds %T", *p)))
	}
	switch a := st[1].(type) {
	case bigVal:
		return a.c, a.t
	case []value:
		if len(a) == 0 {
			return new(big.Int), nil
		}
		// a real nat written by non-intrinsic code
		words := make([]big.Word, len(a))
		for k, w := range a {
			u, ok := w.(uint)
			if !ok {
				panic(unsupported("big.Int nat with non-concrete words"))
			}
			words[k] = big.Word(u)
		}
		r := new(big.Int).SetBits(words)
		if neg, _ := st[0].(bool); neg {
			r.Neg(r)
		}
		return r, nil
	}
	panic(unsupported(fmt.Sprintf("big.Int abs slot holds %T", st[1])))
}

func (i *interpreter) setBig(v value, c *big.Int, t *Term) {
	p := v.(*value)
	if p == nil {
		panic(targetPanic{iface{i.runtimeErrorString, "invalid memory address or nil pointer dereference (nil *big.Int receiver)"}})
	}
	if t != nil && t.IsConst() {
		c, t = t.c, nil
	}
	st := (*p).(structure)
	st[0] = false
	st[1] = bigVal{c, t}
}

func (i *interpreter) bt(c *big.Int, t *Term) *Term {
	if t != nil {
		return t
	}
	return i.tc.Const(c)
}

func (i *interpreter) divZeroCheck(yc *big.Int, yt *Term) {
	if yt == nil {
		if yc.Sign() == 0 {
			panic(targetPanic{iface{i.runtimeErrorString, "division by zero"}})
		}
		return
	}
	if i.decide(i.tc.Eq(yt, i.tc.ConstI(0)), "big.Int division by zero") {
		panic(targetPanic{iface{i.runtimeErrorString, "division by zero"}})
	}
}

func cmpTerm(tc *termCtx, a, b *Term) *Term {
	return tc.Ite(tc.Lt(a, b), tc.ConstI(-1), tc.Ite(tc.Eq(a, b), tc.ConstI(0), tc.ConstI(1)))
}

func init() {
	type bin struct {
		name string
		c    func(z, x, y *big.Int) *big.Int
		t    func(tc *termCtx, x, y *Term) *Term
		div  bool
	}
	for _, b := range []bin{
		{"Add", (*big.Int).Add, (*termCtx).Add, false},
		{"Sub", (*big.Int).Sub, (*termCtx).Sub, false},
		{"Mul", (*big.Int).Mul, (*termCtx).Mul, false},
		{"Quo", (*big.Int).Quo, (*termCtx).TDiv, true},
		{"Rem", (*big.Int).Rem, (*termCtx).TRem, true},
		{"Div", (*big.Int).Div, (*termCtx).Div, true},
		{"Mod", (*big.Int).Mod, (*termCtx).Mod, true},
	} {
		b := b
		externals["(*math/big.Int)."+b.name] = func(fr *frame, args []value) value {
			i := fr.i
			xc, xt := i.getBig(args[1], b.name)
			yc, yt := i.getBig(args[2], b.name)
			if b.div {
				i.divZeroCheck(yc, yt)
			}
			if xt == nil && yt == nil {
				i.setBig(args[0], b.c(new(big.Int), xc, yc), nil)
			} else {
				i.setBig(args[0], nil, b.t(i.tc, i.bt(xc, xt), i.bt(yc, yt)))
			}
			return args[0]
		}
	}
	quoRem := func(name string, cf func(z, x, y, r *big.Int) (*big.Int, *big.Int), qf, rf func(tc *termCtx, x, y *Term) *Term) {
		externals["(*math/big.Int)."+name] = func(fr *frame, args []value) value {
			i := fr.i
			xc, xt := i.getBig(args[1], name)
			yc, yt := i.getBig(args[2], name)
			i.divZeroCheck(yc, yt)
			if xt == nil && yt == nil {
				q, r := cf(new(big.Int), xc, yc, new(big.Int))
				i.setBig(args[0], q, nil)
				i.setBig(args[3], r, nil)
			} else {
				a, b := i.bt(xc, xt), i.bt(yc, yt)
				q, r := qf(i.tc, a, b), rf(i.tc, a, b)
				i.setBig(args[0], nil, q)
				i.setBig(args[3], nil, r)
			}
			return tuple{args[0], args[3]}
		}
	}
	quoRem("QuoRem", (*big.Int).QuoRem, (*termCtx).TDiv, (*termCtx).TRem)
	quoRem("DivMod", (*big.Int).DivMod, (*termCtx).Div, (*termCtx).Mod)

	un := func(name string, cf func(z, x *big.Int) *big.Int, tf func(tc *termCtx, x *Term) *Term) {
		externals["(*math/big.Int)."+name] = func(fr *frame, args []value) value {
			i := fr.i
			xc, xt := i.getBig(args[1], name)
			if xt == nil {
				i.setBig(args[0], cf(new(big.Int), xc), nil)
			} else {
				i.setBig(args[0], nil, tf(i.tc, xt))
			}
			return args[0]
		}
	}
	un("Neg", (*big.Int).Neg, (*termCtx).Neg)
	un("Abs", (*big.Int).Abs, (*termCtx).Abs)
	un("Set", (*big.Int).Set, func(tc *termCtx, x *Term) *Term { return x })

	externals["math/big.NewInt"] = func(fr *frame, args []value) value {
		if s, ok := args[0].(symInt); ok {
			return newBigPtr(nil, s.t)
		}
		return newBigPtr(big.NewInt(asInt64(args[0])), nil)
	}
	externals["(*math/big.Int).SetInt64"] = func(fr *frame, args []value) value {
		if s, ok := args[1].(symInt); ok {
			fr.i.setBig(args[0], nil, s.t)
		} else {
			fr.i.setBig(args[0], big.NewInt(asInt64(args[1])), nil)
		}
		return args[0]
	}
	externals["(*math/big.Int).SetUint64"] = func(fr *frame, args []value) value {
		if s, ok := args[1].(symInt); ok {
			fr.i.setBig(args[0], nil, s.t)
		} else {
			fr.i.setBig(args[0], new(big.Int).SetUint64(args[1].(uint64)), nil)
		}
		return args[0]
	}
	externals["(*math/big.Int).Cmp"] = func(fr *frame, args []value) value {
		i := fr.i
		xc, xt := i.getBig(args[0], "Cmp")
		yc, yt := i.getBig(args[1], "Cmp")
		if xt == nil && yt == nil {
			return xc.Cmp(yc)
		}
		return i.tc.mkInt(cmpTerm(i.tc, i.bt(xc, xt), i.bt(yc, yt)), types.Int)
	}
	externals["(*math/big.Int).CmpAbs"] = func(fr *frame, args []value) value {
		i := fr.i
		xc, xt := i.getBig(args[0], "CmpAbs")
		yc, yt := i.getBig(args[1], "CmpAbs")
		if xt == nil && yt == nil {
			return xc.CmpAbs(yc)
		}
		return i.tc.mkInt(cmpTerm(i.tc, i.tc.Abs(i.bt(xc, xt)), i.tc.Abs(i.bt(yc, yt))), types.Int)
	}
	externals["(*math/big.Int).Sign"] = func(fr *frame, args []value) value {
		i := fr.i
		xc, xt := i.getBig(args[0], "Sign")
		if xt == nil {
			return xc.Sign()
		}
		return i.tc.mkInt(cmpTerm(i.tc, xt, i.tc.ConstI(0)), types.Int)
	}
	externals["(*math/big.Int).BitLen"] = func(fr *frame, args []value) value {
		i := fr.i
		xc, xt := i.getBig(args[0], "BitLen")
		if xt == nil {
			return xc.BitLen()
		}
		return symInt{i.tc.BitLen(xt), types.Int}
	}
	externals["(*math/big.Int).IsInt64"] = func(fr *frame, args []value) value {
		i := fr.i
		xc, xt := i.getBig(args[0], "IsInt64")
		if xt == nil {
			return xc.IsInt64()
		}
		lo := i.tc.Const(new(big.Int).Neg(new(big.Int).Lsh(bigOne, 63)))
		hi := i.tc.Const(new(big.Int).Lsh(bigOne, 63))
		return i.tc.mkBool(i.tc.And(i.tc.Le(lo, xt), i.tc.Lt(xt, hi)))
	}
	externals["(*math/big.Int).IsUint64"] = func(fr *frame, args []value) value {
		i := fr.i
		xc, xt := i.getBig(args[0], "IsUint64")
		if xt == nil {
			return xc.IsUint64()
		}
		hi := i.tc.Const(new(big.Int).Lsh(bigOne, 64))
		return i.tc.mkBool(i.tc.And(i.tc.Le(i.tc.ConstI(0), xt), i.tc.Lt(xt, hi)))
	}
	externals["(*math/big.Int).Int64"] = func(fr *frame, args []value) value {
		i := fr.i
		xc, xt := i.getBig(args[0], "Int64")
		if xt == nil {
			return xc.Int64()
		}
		return i.tc.mkInt(i.tc.wrap(xt, types.Int64), types.Int64)
	}
	externals["(*math/big.Int).Uint64"] = func(fr *frame, args []value) value {
		i := fr.i
		xc, xt := i.getBig(args[0], "Uint64")
		if xt == nil {
			return xc.Uint64()
		}
		// low 64 bits of |x|
		return i.tc.mkInt(i.tc.wrap(i.tc.Abs(xt), types.Uint64), types.Uint64)
	}
	externals["(*math/big.Int).Bits"] = func(fr *frame, args []value) value {
		i := fr.i
		xc, xt := i.getBig(args[0], "Bits")
		if xt != nil {
			panic(unsupported("(*big.Int).Bits on a symbolic value"))
		}
		var r []value
		for _, w := range xc.Bits() {
			r = append(r, uint(w))
		}
		return r
	}
	externals["(*math/big.Int).Exp"] = func(fr *frame, args []value) value {
		i := fr.i
		xc, xt := i.getBig(args[1], "Exp")
		yc, yt := i.getBig(args[2], "Exp")
		var mc *big.Int
		if mp, _ := args[3].(*value); mp != nil {
			var mt *Term
			mc, mt = i.getBig(args[3], "Exp")
			if mt != nil {
				panic(unsupported("big.Int.Exp with symbolic modulus"))
			}
		}
		if yt != nil {
			panic(unsupported("big.Int.Exp with symbolic exponent"))
		}
		if xt == nil {
			i.setBig(args[0], new(big.Int).Exp(xc, yc, mc), nil)
			return args[0]
		}
		if mc != nil && mc.Sign() != 0 {
			panic(unsupported("big.Int.Exp of symbolic base with modulus"))
		}
		if !yc.IsInt64() || yc.Int64() > 64 {
			panic(unsupported("big.Int.Exp of symbolic base with large exponent"))
		}
		r := i.tc.ConstI(1)
		for k := int64(0); k < yc.Int64(); k++ {
			r = i.tc.Mul(r, xt)
		}
		i.setBig(args[0], nil, r)
		return args[0]
	}
	externals["(*math/big.Int).Sqrt"] = func(fr *frame, args []value) value {
		i := fr.i
		xc, xt := i.getBig(args[1], "Sqrt")
		if xt == nil {
			if xc.Sign() < 0 {
				panic(targetPanic{iface{i.runtimeErrorString, "square root of negative number"}})
			}
			i.setBig(args[0], new(big.Int).Sqrt(xc), nil)
			return args[0]
		}
		if i.decide(i.tc.Lt(xt, i.tc.ConstI(0)), "big.Int.Sqrt negative") {
			panic(targetPanic{iface{i.runtimeErrorString, "square root of negative number"}})
		}
		r := i.tc.Fresh("sqrt", SInt)
		tc := i.tc
		r1 := tc.Add(r, tc.ConstI(1))
		i.assume(tc.And(tc.Le(tc.ConstI(0), r), tc.And(tc.Le(tc.Mul(r, r), xt), tc.Lt(xt, tc.Mul(r1, r1)))), "sqrt axiom")
		i.setBig(args[0], nil, r)
		return args[0]
	}
	shift := func(name string, left bool) {
		externals["(*math/big.Int)."+name] = func(fr *frame, args []value) value {
			i := fr.i
			xc, xt := i.getBig(args[1], name)
			n := uint(asInt64(args[2]))
			if xt == nil {
				if left {
					i.setBig(args[0], new(big.Int).Lsh(xc, n), nil)
				} else {
					i.setBig(args[0], new(big.Int).Rsh(xc, n), nil)
				}
				return args[0]
			}
			p := i.tc.Const(new(big.Int).Lsh(bigOne, n))
			if left {
				i.setBig(args[0], nil, i.tc.Mul(xt, p))
			} else {
				i.setBig(args[0], nil, i.tc.Div(xt, p))
			}
			return args[0]
		}
	}
	shift("Lsh", true)
	shift("Rsh", false)

	str := func(name string, f func(x *big.Int, args []value) value) {
		externals["(*math/big.Int)."+name] = func(fr *frame, args []value) value {
			i := fr.i
			if p, _ := args[0].(*value); p == nil {
				return f(nil, args)
			}
			xc, xt := i.getBig(args[0], name)
			if xt != nil {
				st := i.newSymStr("big.Int." + name)
				if name == "String" {
					st.kind, st.t = "int", xt
				}
				return st
			}
			return f(xc, args)
		}
	}
	str("String", func(x *big.Int, args []value) value { return x.String() })
	str("Text", func(x *big.Int, args []value) value { return x.Text(int(asInt64(args[1]))) })
	externals["(*math/big.Int).MarshalText"] = func(fr *frame, args []value) value {
		i := fr.i
		xc, xt := i.getBig(args[0], "MarshalText")
		if xt != nil {
			panic(unsupported("big.Int.MarshalText on a symbolic value"))
		}
		b, _ := xc.MarshalText()
		return tuple{bytesToValue(b), iface{}}
	}
	externals["(*math/big.Int).UnmarshalText"] = func(fr *frame, args []value) value {
		i := fr.i
		b := valueToBytes(args[1])
		z := new(big.Int)
		if err := z.UnmarshalText(b); err != nil {
			return i.mkError(err.Error())
		}
		i.setBig(args[0], z, nil)
		return iface{}
	}
	externals["(*math/big.Int).SetString"] = func(fr *frame, args []value) value {
		i := fr.i
		s, ok := args[1].(string)
		if !ok {
			panic(unsupported("big.Int.SetString on an opaque string"))
		}
		z, ok := new(big.Int).SetString(s, int(asInt64(args[2])))
		if !ok {
			return tuple{(*value)(nil), false}
		}
		i.setBig(args[0], z, nil)
		return tuple{args[0], true}
	}
	externals["(*math/big.Int).SetBytes"] = func(fr *frame, args []value) value {
		if s, ok := args[1].([]value); ok && hasAbstract(s) {
			if id, whole := absWhole(s); whole {
				fr.i.setBig(args[0], nil, fr.i.hashValueTerm(id))
				return args[0]
			}
			if len(s) == 1 {
				if o, isO := s[0].(opaqueRun); isO && o.kind == "intbytes" {
					fr.i.setBig(args[0], nil, fr.i.tc.Abs(o.t))
					return args[0]
				}
			}
			panic(unsupported("big.Int.SetBytes on partially abstract bytes"))
		}
		fr.i.setBig(args[0], new(big.Int).SetBytes(valueToBytes(args[1])), nil)
		return args[0]
	}
	externals["(*math/big.Int).Bytes"] = func(fr *frame, args []value) value {
		xc, xt := fr.i.getBig(args[0], "Bytes")
		if xt != nil {
			return []value{opaqueRun{"intbytes", xt}}
		}
		return bytesToValue(xc.Bytes())
	}
	externals["(*math/big.Int).FillBytes"] = func(fr *frame, args []value) value {
		xc, xt := fr.i.getBig(args[0], "FillBytes")
		if xt != nil {
			panic(unsupported("big.Int.FillBytes on a symbolic value"))
		}
		buf := args[1].([]value)
		tmp := make([]byte, len(buf))
		xc.FillBytes(tmp)
		for k := range tmp {
			buf[k] = tmp[k]
		}
		return buf
	}
	externals["(*math/big.Int).Bit"] = func(fr *frame, args []value) value {
		xc, xt := fr.i.getBig(args[0], "Bit")
		n := int(asInt64(args[1]))
		if xt != nil {
			if n == 0 {
				return fr.i.tc.mkInt(fr.i.tc.Mod(xt, fr.i.tc.ConstI(2)), types.Uint)
			}
			panic(unsupported("big.Int.Bit(n>0) on a symbolic value"))
		}
		return uint(xc.Bit(n))
	}
	externals["(*math/big.Int).TrailingZeroBits"] = func(fr *frame, args []value) value {
		xc, xt := fr.i.getBig(args[0], "TrailingZeroBits")
		if xt != nil {
			panic(unsupported("big.Int.TrailingZeroBits on a symbolic value"))
		}
		return uint(xc.TrailingZeroBits())
	}
	for _, name := range []string{"And", "Or", "Xor", "AndNot"} {
		name := name
		externals["(*math/big.Int)."+name] = func(fr *frame, args []value) value {
			i := fr.i
			xc, xt := i.getBig(args[1], name)
			yc, yt := i.getBig(args[2], name)
			if xt != nil || yt != nil {
				panic(unsupported("big.Int." + name + " on a symbolic value"))
			}
			z := new(big.Int)
			switch name {
			case "And":
				z.And(xc, yc)
			case "Or":
				z.Or(xc, yc)
			case "Xor":
				z.Xor(xc, yc)
			case "AndNot":
				z.AndNot(xc, yc)
			}
			i.setBig(args[0], z, nil)
			return args[0]
		}
	}
	externals["(*math/big.Int).Float64"] = func(fr *frame, args []value) value {
		xc, xt := fr.i.getBig(args[0], "Float64")
		if xt != nil {
			panic(unsupported("big.Int.Float64 on a symbolic value"))
		}
		f, acc := xc.Float64()
		return tuple{f, int8(acc)}
	}
	// cosmossdk.io/math.bigIntOverflows: |x| >= 2^256 (word-count fast path + BitLen)
	externals["cosmossdk.io/math.bigIntOverflows"] = func(fr *frame, args []value) value {
		i := fr.i
		xc, xt := i.getBig(args[0], "bigIntOverflows")
		if xt == nil {
			return xc.BitLen() > 256
		}
		lim := i.tc.Const(new(big.Int).Lsh(bigOne, 256))
		return i.tc.mkBool(i.tc.Le(lim, i.tc.Abs(xt)))
	}
}

func bytesToValue(b []byte) value {
	r := make([]value, len(b))
	for k := range b {
		r[k] = b[k]
	}
	return r
}

func valueToBytes(v value) []byte {
	s, ok := v.([]value)
	if !ok {
		if str, ok := v.(string); ok {
			return []byte(str)
		}
		panic(unsupported(fmt.Sprintf("expected concrete []byte, got %T", v)))
	}
	b := make([]byte, len(s))
	for k := range s {
		c, ok := s[k].(byte)
		if !ok {
			panic(unsupported(fmt.Sprintf("expected concrete byte, got %T", s[k])))
		}
		b[k] = c
	}
	return b
}
