package interp

// Persistent SMT solver processes (z3 -in / z3-new -in).  One process per
// worker; every query is sent after a (reset) so each check-sat runs in the
// solver's non-incremental mode.  Any "(error" line makes the query
// inconclusive.

import (
	"bufio"
	"fmt"
	"io"
	"math/big"
	"os/exec"
	"strings"
	"sync/atomic"
	"time"
)

type Solver struct {
	name string
	cmd  *exec.Cmd
	in   io.WriteCloser
	out  *bufio.Reader
	dead bool
}

func startSolver(name string) (*Solver, error) {
	var cmd *exec.Cmd
	switch name {
	case "z3", "z3-new":
		cmd = exec.Command(name, "-in")
	case "cvc5":
		cmd = exec.Command("cvc5", "--incremental", "--lang=smt2", "--produce-models")
	default:
		return nil, fmt.Errorf("unknown solver %s", name)
	}
	in, err := cmd.StdinPipe()
	if err != nil {
		return nil, err
	}
	out, err := cmd.StdoutPipe()
	if err != nil {
		return nil, err
	}
	cmd.Stderr = nil
	if err := cmd.Start(); err != nil {
		return nil, err
	}
	return &Solver{name: name, cmd: cmd, in: in, out: bufio.NewReader(out)}, nil
}

func (s *Solver) Close() {
	if s == nil || s.dead {
		return
	}
	s.dead = true
	s.in.Close()
	s.cmd.Process.Kill()
	s.cmd.Wait()
}

type QueryResult struct {
	Status string // "sat","unsat","unknown","error"
	Model  map[string]*big.Int
	Raw    string
	Ms     int64
}

var SolverStats struct {
	Queries, Sat, Unsat, Unknown, Errors int64
	Micros                               int64
}

// Check runs one query: script (declarations+asserts), optional get-value over vars.
func (s *Solver) Check(script string, timeoutMs int, vars []*Term) QueryResult {
	start := time.Now()
	res := s.check(script, timeoutMs, vars)
	res.Ms = time.Since(start).Milliseconds()
	atomic.AddInt64(&SolverStats.Queries, 1)
	atomic.AddInt64(&SolverStats.Micros, time.Since(start).Microseconds())
	switch res.Status {
	case "sat":
		atomic.AddInt64(&SolverStats.Sat, 1)
	case "unsat":
		atomic.AddInt64(&SolverStats.Unsat, 1)
	case "unknown":
		atomic.AddInt64(&SolverStats.Unknown, 1)
	default:
		atomic.AddInt64(&SolverStats.Errors, 1)
	}
	return res
}

func (s *Solver) check(script string, timeoutMs int, vars []*Term) QueryResult {
	if s.dead {
		return QueryResult{Status: "error", Raw: "solver dead"}
	}
	var sb strings.Builder
	sb.WriteString("(reset)\n")
	if s.name == "cvc5" {
		fmt.Fprintf(&sb, "(set-option :tlimit-per %d)\n(set-logic ALL)\n", timeoutMs)
	} else {
		fmt.Fprintf(&sb, "(set-option :timeout %d)\n", timeoutMs)
	}
	sb.WriteString(script)
	sb.WriteString("(check-sat)\n(echo \"--cs--\")\n")
	if _, err := io.WriteString(s.in, sb.String()); err != nil {
		s.dead = true
		return QueryResult{Status: "error", Raw: err.Error()}
	}
	raw, err := s.readUntil("--cs--", time.Duration(timeoutMs)*time.Millisecond+20*time.Second)
	if err != nil {
		s.Close()
		return QueryResult{Status: "unknown", Raw: "solver did not answer: " + err.Error()}
	}
	if strings.Contains(raw, "(error") {
		return QueryResult{Status: "error", Raw: raw}
	}
	status := ""
	for _, ln := range strings.Split(raw, "\n") {
		ln = strings.TrimSpace(ln)
		if ln == "sat" || ln == "unsat" || ln == "unknown" || ln == "timeout" {
			status = ln
		}
	}
	if status == "timeout" || status == "" {
		status = "unknown"
	}
	r := QueryResult{Status: status, Raw: raw}
	if status == "sat" && len(vars) > 0 {
		var gv strings.Builder
		gv.WriteString("(get-value (")
		for _, v := range vars {
			gv.WriteString(smtName(v.name))
			gv.WriteByte(' ')
		}
		gv.WriteString("))\n(echo \"--gv--\")\n")
		if _, err := io.WriteString(s.in, gv.String()); err != nil {
			s.dead = true
			return r
		}
		mraw, err := s.readUntil("--gv--", 20*time.Second)
		if err != nil {
			s.Close()
			return r
		}
		if strings.Contains(mraw, "(error") {
			r.Status = "error"
			r.Raw = mraw
			return r
		}
		r.Model = parseModel(mraw, vars)
	}
	return r
}

func (s *Solver) readUntil(marker string, limit time.Duration) (string, error) {
	type res struct {
		s   string
		err error
	}
	ch := make(chan res, 1)
	go func() {
		var sb strings.Builder
		for {
			line, err := s.out.ReadString('\n')
			if strings.Contains(line, marker) {
				ch <- res{sb.String(), nil}
				return
			}
			sb.WriteString(line)
			if err != nil {
				ch <- res{sb.String(), err}
				return
			}
		}
	}()
	select {
	case r := <-ch:
		return r.s, r.err
	case <-time.After(limit):
		return "", fmt.Errorf("timeout waiting for solver")
	}
}

// parseModel parses "((x 1) (y (- 2)) (b true))" style output.
func parseModel(raw string, vars []*Term) map[string]*big.Int {
	m := map[string]*big.Int{}
	toks := tokenize(raw)
	// expect: ( ( name value ) ( name value ) ... )
	i := 0
	next := func() string {
		if i < len(toks) {
			t := toks[i]
			i++
			return t
		}
		return ""
	}
	var parseVal func() *big.Int
	parseVal = func() *big.Int {
		t := next()
		switch t {
		case "true":
			return big.NewInt(1)
		case "false":
			return big.NewInt(0)
		case "(":
			op := next()
			switch op {
			case "fp": // (fp #b0 #b01111111111 #x0000000000000) -> IEEE bits as an integer
				sign, exp, man := next(), next(), next()
				next() // )
				bits := new(big.Int)
				parse := func(tok string) (*big.Int, int) {
					v := new(big.Int)
					if strings.HasPrefix(tok, "#b") {
						v.SetString(tok[2:], 2)
						return v, len(tok) - 2
					}
					if strings.HasPrefix(tok, "#x") {
						v.SetString(tok[2:], 16)
						return v, 4 * (len(tok) - 2)
					}
					return v, 0
				}
				sv, _ := parse(sign)
				ev, _ := parse(exp)
				mv, _ := parse(man)
				bits.Lsh(sv, 63)
				bits.Or(bits, new(big.Int).Lsh(ev, 52))
				bits.Or(bits, mv)
				return bits
			case "_": // (_ +zero 11 53) (_ -zero 11 53) (_ NaN 11 53) (_ +oo 11 53) (_ -oo 11 53)
				kind := next()
				next()
				next()
				next() // )
				switch kind {
				case "+zero":
					return big.NewInt(0)
				case "-zero":
					return new(big.Int).Lsh(big.NewInt(1), 63)
				case "+oo":
					return new(big.Int).Lsh(big.NewInt(0x7ff), 52)
				case "-oo":
					return new(big.Int).Lsh(big.NewInt(0xfff), 52)
				case "NaN":
					return new(big.Int).Lsh(big.NewInt(0x7ff8), 48)
				}
				return nil
			case "-":
				v := parseVal()
				if i < len(toks) && toks[i] != ")" {
					w := parseVal()
					next()
					if v == nil || w == nil {
						return nil
					}
					return new(big.Int).Sub(v, w)
				}
				next() // )
				if v == nil {
					return nil
				}
				return new(big.Int).Neg(v)
			default:
				// skip unknown s-expr
				depth := 1
				for depth > 0 && i < len(toks) {
					tt := next()
					if tt == "(" {
						depth++
					} else if tt == ")" {
						depth--
					}
				}
				return nil
			}
		default:
			v, ok := new(big.Int).SetString(t, 10)
			if !ok {
				return nil
			}
			return v
		}
	}
	if next() != "(" {
		return m
	}
	for i < len(toks) {
		t := next()
		if t != "(" {
			break
		}
		name := next()
		name = strings.Trim(name, "|")
		v := parseVal()
		next() // )
		if v != nil {
			m[name] = v
		}
	}
	return m
}

func tokenize(s string) []string {
	var toks []string
	i := 0
	for i < len(s) {
		c := s[i]
		switch {
		case c == '(' || c == ')':
			toks = append(toks, string(c))
			i++
		case c == ' ' || c == '\n' || c == '\t' || c == '\r':
			i++
		case c == '|':
			j := i + 1
			for j < len(s) && s[j] != '|' {
				j++
			}
			toks = append(toks, s[i:j+1])
			i = j + 1
		default:
			j := i
			for j < len(s) && !strings.ContainsRune("() \n\t\r", rune(s[j])) {
				j++
			}
			toks = append(toks, s[i:j])
			i = j
		}
	}
	return toks
}
