package interp

// Term DAG for the symbolic layer: mathematical integers (SMT sort Int),
// booleans and IEEE binary64 (SMT FloatingPoint 11 53).  Terms are hash-consed per
// path (a termCtx lives as long as one path execution) and are
// simplified on construction (constant folding and a few algebraic
// identities), so a fully concrete computation never produces a term.

import (
	"fmt"
	"math/big"
	"sort"
	"strings"
)

type Sort int

const (
	SInt Sort = iota
	SBool
	SF64
)

type Term struct {
	id   int
	op   string // "const","var","+","-","*","div","mod","neg","abs","ite","<","<=","=","and","or","not","true","false","bitlen","uf"
	sort Sort
	args []*Term
	c    *big.Int // for const
	name string   // for var / uf name
	f    float64  // for f64 const
}

func (t *Term) IsConst() bool { return t.op == "const" }
func (t *Term) IsTrue() bool  { return t.op == "true" }
func (t *Term) IsFalse() bool { return t.op == "false" }

type termCtx struct {
	tab     map[string]*Term
	nextID  int
	vars    []*Term // declaration order
	varset  map[string]*Term
	ufs     map[string]string      // uf name -> declaration
	bounds  map[string][2]*big.Int // facts learned from the path condition: var -> [lo,hi] (nil = unbounded)
	tbounds map[int][2]*big.Int    // same for arbitrary terms (by id)
	epoch   int
	rcache  map[int]rangeEntry
}

type rangeEntry struct {
	epoch  int
	lo, hi *big.Int
	ok     bool
}

func newTermCtx() *termCtx {
	return &termCtx{tab: map[string]*Term{}, varset: map[string]*Term{}, ufs: map[string]string{}, bounds: map[string][2]*big.Int{}, tbounds: map[int][2]*big.Int{}, rcache: map[int]rangeEntry{}}
}

func (c *termCtx) mk(op string, sort Sort, name string, k *big.Int, args ...*Term) *Term {
	var sb strings.Builder
	sb.WriteString(op)
	sb.WriteByte('|')
	sb.WriteString(name)
	if k != nil {
		sb.WriteByte('#')
		sb.WriteString(k.String())
	}
	for _, a := range args {
		fmt.Fprintf(&sb, ",%d", a.id)
	}
	key := sb.String()
	if t, ok := c.tab[key]; ok {
		return t
	}
	c.nextID++
	t := &Term{id: c.nextID, op: op, sort: sort, args: args, c: k, name: name}
	c.tab[key] = t
	return t
}

func (c *termCtx) Const(k *big.Int) *Term {
	return c.mk("const", SInt, "", new(big.Int).Set(k))
}
func (c *termCtx) ConstI(k int64) *Term  { return c.Const(big.NewInt(k)) }
func (c *termCtx) ConstU(k uint64) *Term { return c.Const(new(big.Int).SetUint64(k)) }
func (c *termCtx) True() *Term           { return c.mk("true", SBool, "", nil) }
func (c *termCtx) False() *Term          { return c.mk("false", SBool, "", nil) }
func (c *termCtx) Bool(b bool) *Term {
	if b {
		return c.True()
	}
	return c.False()
}

func (c *termCtx) Var(name string, sort Sort) *Term {
	if t, ok := c.varset[name]; ok {
		if t.sort != sort {
			panic(unsupported("variable " + name + " redeclared with another sort"))
		}
		return t
	}
	t := c.mk("var", sort, name, nil)
	c.varset[name] = t
	c.vars = append(c.vars, t)
	return t
}

// Fresh returns a fresh variable with a unique name derived from hint.
func (c *termCtx) Fresh(hint string, sort Sort) *Term {
	for i := 0; ; i++ {
		n := fmt.Sprintf("%s!%d", hint, i)
		if _, ok := c.varset[n]; !ok {
			return c.Var(n, sort)
		}
	}
}

var (
	bigZero = big.NewInt(0)
	bigOne  = big.NewInt(1)
)

func (c *termCtx) Add(a, b *Term) *Term {
	if a.IsConst() && b.IsConst() {
		return c.Const(new(big.Int).Add(a.c, b.c))
	}
	if a.IsConst() && a.c.Sign() == 0 {
		return b
	}
	if b.IsConst() && b.c.Sign() == 0 {
		return a
	}
	// (x + k1) + k2
	if b.IsConst() && a.op == "+" && a.args[1].IsConst() {
		return c.Add(a.args[0], c.Const(new(big.Int).Add(a.args[1].c, b.c)))
	}
	if a.IsConst() {
		a, b = b, a
	}
	return c.mk("+", SInt, "", nil, a, b)
}

func (c *termCtx) Sub(a, b *Term) *Term {
	if a.IsConst() && b.IsConst() {
		return c.Const(new(big.Int).Sub(a.c, b.c))
	}
	if b.IsConst() {
		return c.Add(a, c.Const(new(big.Int).Neg(b.c)))
	}
	if a == b {
		return c.ConstI(0)
	}
	return c.mk("-", SInt, "", nil, a, b)
}

func (c *termCtx) Neg(a *Term) *Term {
	if a.IsConst() {
		return c.Const(new(big.Int).Neg(a.c))
	}
	if a.op == "neg" {
		return a.args[0]
	}
	return c.mk("neg", SInt, "", nil, a)
}

func (c *termCtx) Mul(a, b *Term) *Term {
	if a.IsConst() && b.IsConst() {
		return c.Const(new(big.Int).Mul(a.c, b.c))
	}
	if a.IsConst() {
		a, b = b, a
	}
	if b.IsConst() {
		if b.c.Sign() == 0 {
			return b
		}
		if b.c.Cmp(bigOne) == 0 {
			return a
		}
		if a.op == "*" && a.args[1].IsConst() {
			return c.Mul(a.args[0], c.Const(new(big.Int).Mul(a.args[1].c, b.c)))
		}
	}
	return c.mk("*", SInt, "", nil, a, b)
}

// Div is SMT-LIB euclidean-style div (floor for positive divisor).
func (c *termCtx) Div(a, b *Term) *Term {
	if a.IsConst() && b.IsConst() && b.c.Sign() != 0 {
		q := new(big.Int)
		m := new(big.Int)
		q.DivMod(a.c, b.c, m) // Euclidean
		return c.Const(q)
	}
	if b.IsConst() && b.c.Cmp(bigOne) == 0 {
		return a
	}
	return c.mk("div", SInt, "", nil, a, b)
}

// Mod is SMT-LIB mod (result in [0,|b|)).
func (c *termCtx) Mod(a, b *Term) *Term {
	if a.IsConst() && b.IsConst() && b.c.Sign() != 0 {
		q := new(big.Int)
		m := new(big.Int)
		q.DivMod(a.c, b.c, m)
		return c.Const(m)
	}
	if b.IsConst() && b.c.Cmp(bigOne) == 0 {
		return c.ConstI(0)
	}
	// (x mod k) mod k = x mod k
	if a.op == "mod" && a.args[1] == b {
		return a
	}
	// range-based elimination: 0 <= a < b
	if b.IsConst() && b.c.Sign() > 0 {
		if lo, hi, ok := c.rangeOf(a, 0); ok && lo.Sign() >= 0 && hi.Cmp(b.c) < 0 {
			return a
		}
	}
	return c.mk("mod", SInt, "", nil, a, b)
}

// rangeOf computes a cheap syntactic interval for a (no path-condition knowledge).
func (c *termCtx) rangeOf(a *Term, depth int) (lo, hi *big.Int, ok bool) {
	if a.op == "const" {
		return a.c, a.c, true
	}
	if e, hit := c.rcache[a.id]; hit && e.epoch == c.epoch {
		return e.lo, e.hi, e.ok
	}
	if depth > 60 {
		return nil, nil, false
	}
	lo, hi, ok = c.rangeOf1(a, depth)
	// intersect with bounds learned for this very term
	if tb, has := c.tbounds[a.id]; has {
		if tb[0] != nil && tb[1] != nil && !ok {
			lo, hi, ok = tb[0], tb[1], true
		} else if ok {
			if tb[0] != nil && tb[0].Cmp(lo) > 0 {
				lo = tb[0]
			}
			if tb[1] != nil && tb[1].Cmp(hi) < 0 {
				hi = tb[1]
			}
		}
	}
	c.rcache[a.id] = rangeEntry{c.epoch, lo, hi, ok}
	return
}

func (c *termCtx) rangeOf1(a *Term, depth int) (lo, hi *big.Int, ok bool) {
	switch a.op {
	case "const":
		return a.c, a.c, true
	case "var":
		if b, ok := c.bounds[a.name]; ok && b[0] != nil && b[1] != nil {
			return b[0], b[1], true
		}
	case "neg":
		if l, h, ok := c.rangeOf(a.args[0], depth+1); ok {
			return new(big.Int).Neg(h), new(big.Int).Neg(l), true
		}
	case "-":
		l1, h1, ok1 := c.rangeOf(a.args[0], depth+1)
		l2, h2, ok2 := c.rangeOf(a.args[1], depth+1)
		if ok1 && ok2 {
			return new(big.Int).Sub(l1, h2), new(big.Int).Sub(h1, l2), true
		}
	case "mod":
		if a.args[1].IsConst() && a.args[1].c.Sign() > 0 {
			return bigZero, new(big.Int).Sub(a.args[1].c, bigOne), true
		}
	case "ite":
		l1, h1, ok1 := c.rangeOf(a.args[1], depth+1)
		l2, h2, ok2 := c.rangeOf(a.args[2], depth+1)
		if ok1 && ok2 {
			lo, hi = l1, h1
			if l2.Cmp(lo) < 0 {
				lo = l2
			}
			if h2.Cmp(hi) > 0 {
				hi = h2
			}
			return lo, hi, true
		}
	case "+":
		l1, h1, ok1 := c.rangeOf(a.args[0], depth+1)
		l2, h2, ok2 := c.rangeOf(a.args[1], depth+1)
		if ok1 && ok2 {
			return new(big.Int).Add(l1, l2), new(big.Int).Add(h1, h2), true
		}
	case "div":
		if a.args[1].IsConst() && a.args[1].c.Sign() > 0 {
			l1, h1, ok1 := c.rangeOf(a.args[0], depth+1)
			if ok1 && l1.Sign() >= 0 {
				return new(big.Int).Quo(l1, a.args[1].c), new(big.Int).Quo(h1, a.args[1].c), true
			}
		} else {
			// x div y with x >= 0, y >= 1: result in [0, hi(x)]
			l1, h1, ok1 := c.rangeOf(a.args[0], depth+1)
			l2, _, ok2 := c.rangeOf(a.args[1], depth+1)
			if ok1 && ok2 && l1.Sign() >= 0 && l2.Sign() > 0 {
				return bigZero, h1, true
			}
		}
	case "*":
		l1, h1, ok1 := c.rangeOf(a.args[0], depth+1)
		l2, h2, ok2 := c.rangeOf(a.args[1], depth+1)
		if ok1 && ok2 {
			ps := []*big.Int{new(big.Int).Mul(l1, l2), new(big.Int).Mul(l1, h2), new(big.Int).Mul(h1, l2), new(big.Int).Mul(h1, h2)}
			lo, hi = ps[0], ps[0]
			for _, p := range ps[1:] {
				if p.Cmp(lo) < 0 {
					lo = p
				}
				if p.Cmp(hi) > 0 {
					hi = p
				}
			}
			return lo, hi, true
		}
	}
	return nil, nil, false
}

func (c *termCtx) Abs(a *Term) *Term {
	if a.IsConst() {
		return c.Const(new(big.Int).Abs(a.c))
	}
	if l, h, ok := c.rangeOf(a, 0); ok {
		if l.Sign() >= 0 {
			return a
		}
		if h.Sign() <= 0 {
			return c.Neg(a)
		}
	}
	if a.op == "abs" {
		return a
	}
	return c.Ite(c.Lt(a, c.ConstI(0)), c.Neg(a), a)
}

func (c *termCtx) Ite(cond, a, b *Term) *Term {
	if cond.IsTrue() {
		return a
	}
	if cond.IsFalse() {
		return b
	}
	if a == b {
		return a
	}
	if a.sort == SBool {
		if a.IsTrue() && b.IsFalse() {
			return cond
		}
		if a.IsFalse() && b.IsTrue() {
			return c.Not(cond)
		}
		if a.IsTrue() {
			return c.Or(cond, b)
		}
		if a.IsFalse() {
			return c.And(c.Not(cond), b)
		}
		if b.IsTrue() {
			return c.Or(c.Not(cond), a)
		}
		if b.IsFalse() {
			return c.And(cond, a)
		}
	}
	return c.mk("ite", a.sort, "", nil, cond, a, b)
}

// TDiv / TRem: Go (truncated) integer division; caller guarantees b != 0 on the path.
func (c *termCtx) TDiv(a, b *Term) *Term {
	if a.IsConst() && b.IsConst() && b.c.Sign() != 0 {
		return c.Const(new(big.Int).Quo(a.c, b.c))
	}
	// sign(a)*sign(b) * (|a| div |b|)
	q := c.Div(c.Abs(a), c.Abs(b))
	neg := c.Xor(c.Lt(a, c.ConstI(0)), c.Lt(b, c.ConstI(0)))
	return c.Ite(neg, c.Neg(q), q)
}

func (c *termCtx) TRem(a, b *Term) *Term {
	if a.IsConst() && b.IsConst() && b.c.Sign() != 0 {
		return c.Const(new(big.Int).Rem(a.c, b.c))
	}
	r := c.Mod(c.Abs(a), c.Abs(b))
	return c.Ite(c.Lt(a, c.ConstI(0)), c.Neg(r), r)
}

func (c *termCtx) Xor(a, b *Term) *Term {
	return c.Not(c.Iff(a, b))
}

func (c *termCtx) Iff(a, b *Term) *Term {
	if a == b {
		return c.True()
	}
	if a.IsTrue() {
		return b
	}
	if b.IsTrue() {
		return a
	}
	if a.IsFalse() {
		return c.Not(b)
	}
	if b.IsFalse() {
		return c.Not(a)
	}
	return c.mk("=", SBool, "", nil, a, b)
}

func (c *termCtx) Not(a *Term) *Term {
	switch a.op {
	case "true":
		return c.False()
	case "false":
		return c.True()
	case "not":
		return a.args[0]
	}
	return c.mk("not", SBool, "", nil, a)
}

func (c *termCtx) And(a, b *Term) *Term {
	if a.IsFalse() || b.IsFalse() {
		return c.False()
	}
	if a.IsTrue() {
		return b
	}
	if b.IsTrue() {
		return a
	}
	if a == b {
		return a
	}
	return c.mk("and", SBool, "", nil, a, b)
}

func (c *termCtx) Or(a, b *Term) *Term {
	if a.IsTrue() || b.IsTrue() {
		return c.True()
	}
	if a.IsFalse() {
		return b
	}
	if b.IsFalse() {
		return a
	}
	if a == b {
		return a
	}
	return c.mk("or", SBool, "", nil, a, b)
}

// bitlen comparisons are rewritten into magnitude comparisons:
//
//	bitlen(x) >  K  <=>  |x| >= 2^K
//	bitlen(x) >= K  <=>  |x| >= 2^(K-1)   (K>=1; K<=0 => true)
func (c *termCtx) bitlenCmp(op string, a, b *Term) (*Term, bool) {
	// returns rewritten term for "a op b" where one of them is bitlen and the other const
	if a.op == "bitlen" && b.IsConst() && b.c.IsInt64() {
		x := c.Abs(a.args[0])
		k := b.c.Int64()
		pow := func(e int64) *Term {
			if e < 0 {
				return c.ConstI(0)
			}
			return c.Const(new(big.Int).Lsh(bigOne, uint(e)))
		}
		switch op {
		case "<": // bitlen < k  <=> |x| < 2^(k-1) for k>=1 ; false for k<=0
			if k <= 0 {
				return c.False(), true
			}
			return c.Lt(x, pow(k-1)), true
		case "<=": // bitlen <= k <=> |x| < 2^k
			if k < 0 {
				return c.False(), true
			}
			return c.Lt(x, pow(k)), true
		case "=":
			if k < 0 {
				return c.False(), true
			}
			if k == 0 {
				return c.Eq(a.args[0], c.ConstI(0)), true
			}
			return c.And(c.Le(pow(k-1), x), c.Lt(x, pow(k))), true
		}
	}
	if b.op == "bitlen" && a.IsConst() && a.c.IsInt64() {
		x := c.Abs(b.args[0])
		k := a.c.Int64()
		pow := func(e int64) *Term {
			return c.Const(new(big.Int).Lsh(bigOne, uint(e)))
		}
		switch op {
		case "<": // k < bitlen <=> |x| >= 2^k
			if k < 0 {
				return c.True(), true
			}
			return c.Le(pow(k), x), true
		case "<=": // k <= bitlen <=> |x| >= 2^(k-1)
			if k <= 0 {
				return c.True(), true
			}
			return c.Le(pow(k-1), x), true
		case "=":
			return c.bitlenCmp("=", b, a)
		}
	}
	return nil, false
}

// constTree reports whether t is a constant or an ite tree with constant leaves (depth-limited).
func constTree(t *Term, d int) bool {
	if t.IsConst() {
		return true
	}
	return d < 4 && t.op == "ite" && constTree(t.args[1], d+1) && constTree(t.args[2], d+1)
}

// pushCmp distributes a comparison with a constant over an ite tree of constants.
func (c *termCtx) pushCmp(op func(x, y *Term) *Term, a, b *Term) (*Term, bool) {
	if a.op == "ite" && b.IsConst() && constTree(a, 0) {
		return c.Ite(a.args[0], op(a.args[1], b), op(a.args[2], b)), true
	}
	if b.op == "ite" && a.IsConst() && constTree(b, 0) {
		return c.Ite(b.args[0], op(a, b.args[1]), op(a, b.args[2])), true
	}
	return nil, false
}

func (c *termCtx) Lt(a, b *Term) *Term {
	if a.IsConst() && b.IsConst() {
		return c.Bool(a.c.Cmp(b.c) < 0)
	}
	if r, ok := c.pushCmp(c.Lt, a, b); ok {
		return r
	}
	if a == b {
		return c.False()
	}
	if r, ok := c.bitlenCmp("<", a, b); ok {
		return r
	}
	if r, ok := c.rangeCmp("<", a, b); ok {
		return r
	}
	return c.mk("<", SBool, "", nil, a, b)
}

func (c *termCtx) Le(a, b *Term) *Term {
	if a.IsConst() && b.IsConst() {
		return c.Bool(a.c.Cmp(b.c) <= 0)
	}
	if r, ok := c.pushCmp(c.Le, a, b); ok {
		return r
	}
	if a == b {
		return c.True()
	}
	if r, ok := c.bitlenCmp("<=", a, b); ok {
		return r
	}
	if r, ok := c.rangeCmp("<=", a, b); ok {
		return r
	}
	return c.mk("<=", SBool, "", nil, a, b)
}

func (c *termCtx) rangeCmp(op string, a, b *Term) (*Term, bool) {
	la, ha, ok1 := c.rangeOf(a, 0)
	lb, hb, ok2 := c.rangeOf(b, 0)
	if !ok1 || !ok2 {
		return nil, false
	}
	switch op {
	case "<":
		if ha.Cmp(lb) < 0 {
			return c.True(), true
		}
		if la.Cmp(hb) >= 0 {
			return c.False(), true
		}
	case "<=":
		if ha.Cmp(lb) <= 0 {
			return c.True(), true
		}
		if la.Cmp(hb) > 0 {
			return c.False(), true
		}
	}
	return nil, false
}

func (c *termCtx) Gt(a, b *Term) *Term { return c.Lt(b, a) }
func (c *termCtx) Ge(a, b *Term) *Term { return c.Le(b, a) }

func (c *termCtx) Eq(a, b *Term) *Term {
	if a.sort == SBool {
		return c.Iff(a, b)
	}
	if a.IsConst() && b.IsConst() {
		return c.Bool(a.c.Cmp(b.c) == 0)
	}
	if a == b {
		return c.True()
	}
	if a.sort == SInt {
		if r, ok := c.pushCmp(c.Eq, a, b); ok {
			return r
		}
	}
	if r, ok := c.bitlenCmp("=", a, b); ok {
		return r
	}
	if a.sort == SInt && (a.IsConst() || b.IsConst()) {
		la, ha, ok1 := c.rangeOf(a, 0)
		lb, hb, ok2 := c.rangeOf(b, 0)
		if ok1 && ok2 && (ha.Cmp(lb) < 0 || hb.Cmp(la) < 0) {
			return c.False()
		}
	}
	// ite(c, k1, k2) = k  with distinct constants
	if b.IsConst() && a.op == "ite" && a.args[1].IsConst() && a.args[2].IsConst() {
		e1 := a.args[1].c.Cmp(b.c) == 0
		e2 := a.args[2].c.Cmp(b.c) == 0
		switch {
		case e1 && e2:
			return c.True()
		case e1:
			return a.args[0]
		case e2:
			return c.Not(a.args[0])
		default:
			return c.False()
		}
	}
	if a.id > b.id {
		a, b = b, a
	}
	return c.mk("=", SBool, "", nil, a, b)
}

func (c *termCtx) BitLen(a *Term) *Term {
	if a.IsConst() {
		return c.ConstI(int64(a.c.BitLen()))
	}
	return c.mk("bitlen", SInt, "", nil, a)
}

// UF applies an uninterpreted function (declared on first use).
func (c *termCtx) UF(name string, ret Sort, args ...*Term) *Term {
	if _, ok := c.ufs[name]; !ok {
		var sb strings.Builder
		fmt.Fprintf(&sb, "(declare-fun %s (", smtName(name))
		for i, a := range args {
			if i > 0 {
				sb.WriteByte(' ')
			}
			sb.WriteString(sortName(a.sort))
		}
		fmt.Fprintf(&sb, ") %s)", sortName(ret))
		c.ufs[name] = sb.String()
	}
	return c.mk("uf", ret, name, nil, args...)
}

func sortName(s Sort) string {
	switch s {
	case SInt:
		return "Int"
	case SBool:
		return "Bool"
	case SF64:
		return "(_ FloatingPoint 11 53)"
	}
	return "?"
}

func smtName(n string) string {
	ok := true
	for _, r := range n {
		if !(r >= 'a' && r <= 'z' || r >= 'A' && r <= 'Z' || r >= '0' && r <= '9' || r == '_' || r == '.' || r == '!') {
			ok = false
		}
	}
	if ok && n != "" && !(n[0] >= '0' && n[0] <= '9') {
		return n
	}
	return "|" + strings.ReplaceAll(strings.ReplaceAll(n, "|", "_"), "\\", "_") + "|"
}

// ---------------------------------------------------------------------
// SMT-LIB printing

type smtPrinter struct {
	sb   strings.Builder
	done map[int]bool
	ctx  *termCtx
}

func smtInt(k *big.Int) string {
	if k.Sign() < 0 {
		return "(- " + new(big.Int).Neg(k).String() + ")"
	}
	return k.String()
}

func (p *smtPrinter) ref(t *Term) string {
	switch t.op {
	case "const":
		return smtInt(t.c)
	case "var":
		return smtName(t.name)
	case "true", "false":
		return t.op
	case "fconst":
		return f64Literal(t.f)
	}
	return fmt.Sprintf("t%d", t.id)
}

// define emits (define-fun tN ...) for every non-leaf sub-term of t, bottom-up.
func (p *smtPrinter) define(t *Term) {
	if p.done[t.id] {
		return
	}
	p.done[t.id] = true
	switch t.op {
	case "const", "var", "true", "false", "fconst":
		return
	}
	for _, a := range t.args {
		p.define(a)
	}
	var body string
	refs := make([]string, len(t.args))
	for i, a := range t.args {
		refs[i] = p.ref(a)
	}
	switch t.op {
	case "neg":
		body = "(- " + refs[0] + ")"
	case "bitlen":
		panic(unsupported("big.Int.BitLen of a symbolic value used other than in a comparison with a constant"))
	case "uf":
		if len(refs) == 0 {
			body = smtName(t.name)
		} else {
			body = "(" + smtName(t.name) + " " + strings.Join(refs, " ") + ")"
		}
	default:
		op := t.op
		if m, ok := smtOpNames[op]; ok {
			op = m
		}
		body = "(" + op + " " + strings.Join(refs, " ") + ")"
		if t.op == "f32round" {
			body += ")"
		}
	}
	fmt.Fprintf(&p.sb, "(define-fun t%d () %s %s)\n", t.id, sortName(t.sort), body)
}

var smtOpNames = map[string]string{
	"f+": "fp.add RNE", "f-": "fp.sub RNE", "f*": "fp.mul RNE", "f/": "fp.div RNE",
	"f<": "fp.lt", "f<=": "fp.leq", "f=": "fp.eq", "fneg": "fp.neg", "fisnan": "fp.isNaN", "fisinf": "fp.isInfinite",
	"i2f": "(_ to_fp 11 53) RNE",
	// a binary64 rounded to binary32 and widened again (strconv.FormatFloat with bitSize 32, float32 conversions)
	"f32round": "(_ to_fp 11 53) RNE ((_ to_fp 8 24) RNE",
}

// script renders declarations + definitions + assertions for a query.
func (c *termCtx) script(asserts []*Term) string {
	p := &smtPrinter{done: map[int]bool{}, ctx: c}
	var decl strings.Builder
	for _, v := range c.vars {
		fmt.Fprintf(&decl, "(declare-const %s %s)\n", smtName(v.name), sortName(v.sort))
	}
	names := make([]string, 0, len(c.ufs))
	for n := range c.ufs {
		names = append(names, n)
	}
	sort.Strings(names)
	for _, n := range names {
		decl.WriteString(c.ufs[n])
		decl.WriteByte('\n')
	}
	for _, a := range asserts {
		p.define(a)
	}
	for _, a := range asserts {
		fmt.Fprintf(&p.sb, "(assert %s)\n", p.ref(a))
	}
	return decl.String() + p.sb.String()
}

// Eval evaluates t under a model (var name -> value). Used to validate models
// and to pick branch directions cheaply.  Returns nil if some var is missing
// or the term contains a UF.
func (c *termCtx) Eval(t *Term, m map[string]*big.Int, memo map[int]*big.Int) *big.Int {
	if v, ok := memo[t.id]; ok {
		return v
	}
	b2i := func(b bool) *big.Int {
		if b {
			return bigOne
		}
		return bigZero
	}
	var r *big.Int
	args := make([]*big.Int, len(t.args))
	if t.op != "ite" {
		for i, a := range t.args {
			args[i] = c.Eval(a, m, memo)
			if args[i] == nil {
				memo[t.id] = nil
				return nil
			}
		}
	}
	switch t.op {
	case "const":
		r = t.c
	case "true":
		r = bigOne
	case "false":
		r = bigZero
	case "var":
		v, ok := m[t.name]
		if !ok {
			r = nil
		} else {
			r = v
		}
	case "+":
		r = new(big.Int).Add(args[0], args[1])
	case "-":
		r = new(big.Int).Sub(args[0], args[1])
	case "*":
		r = new(big.Int).Mul(args[0], args[1])
	case "neg":
		r = new(big.Int).Neg(args[0])
	case "div":
		if args[1].Sign() == 0 {
			r = nil
		} else {
			q, mm := new(big.Int), new(big.Int)
			q.DivMod(args[0], args[1], mm)
			r = q
		}
	case "mod":
		if args[1].Sign() == 0 {
			r = nil
		} else {
			q, mm := new(big.Int), new(big.Int)
			q.DivMod(args[0], args[1], mm)
			r = mm
		}
	case "ite":
		cv := c.Eval(t.args[0], m, memo)
		if cv == nil {
			r = nil
		} else if cv.Sign() != 0 {
			r = c.Eval(t.args[1], m, memo)
		} else {
			r = c.Eval(t.args[2], m, memo)
		}
	case "<":
		r = b2i(args[0].Cmp(args[1]) < 0)
	case "<=":
		r = b2i(args[0].Cmp(args[1]) <= 0)
	case "=":
		r = b2i(args[0].Cmp(args[1]) == 0)
	case "and":
		r = b2i(args[0].Sign() != 0 && args[1].Sign() != 0)
	case "or":
		r = b2i(args[0].Sign() != 0 || args[1].Sign() != 0)
	case "not":
		r = b2i(args[0].Sign() == 0)
	case "bitlen":
		r = big.NewInt(int64(args[0].BitLen()))
	default:
		r = nil
	}
	memo[t.id] = r
	return r
}

func (t *Term) String() string {
	switch t.op {
	case "const":
		return t.c.String()
	case "var":
		return t.name
	case "true", "false":
		return t.op
	}
	var parts []string
	for _, a := range t.args {
		parts = append(parts, a.String())
	}
	n := t.op
	if t.op == "uf" {
		n = t.name
	}
	s := "(" + n + " " + strings.Join(parts, " ") + ")"
	if len(s) > 400 {
		return s[:400] + "…"
	}
	return s
}

// learn records simple variable bounds implied by a fact added to the path condition.
func (c *termCtx) learn(f *Term) {
	switch f.op {
	case "and":
		c.learn(f.args[0])
		c.learn(f.args[1])
		return
	case "not":
		g := f.args[0]
		switch g.op {
		case "<": // not (a < b)  =>  b <= a
			c.learnLe(g.args[1], g.args[0], false)
		case "<=": // not (a <= b) => b < a
			c.learnLe(g.args[1], g.args[0], true)
		}
		return
	case "or":
		// (a < b) or (a = b)  ==>  a <= b
		x, y := f.args[0], f.args[1]
		if x.op == "=" {
			x, y = y, x
		}
		if x.op == "<" && y.op == "=" && ((x.args[0] == y.args[0] && x.args[1] == y.args[1]) || (x.args[0] == y.args[1] && x.args[1] == y.args[0])) {
			c.learnLe(x.args[0], x.args[1], false)
		}
	case "<":
		c.learnLe(f.args[0], f.args[1], true)
	case "<=":
		c.learnLe(f.args[0], f.args[1], false)
	case "=":
		if f.args[0].sort == SInt {
			c.learnLe(f.args[0], f.args[1], false)
			c.learnLe(f.args[1], f.args[0], false)
		}
	}
}

// learnLe: a <= b (or a < b when strict).
func (c *termCtx) learnLe(a, b *Term, strict bool) {
	c.epoch++
	if a.sort == SInt && a.op != "var" && a.op != "const" {
		if _, hb, ok := c.rangeOf(b, 0); ok {
			hi := hb
			if strict {
				hi = new(big.Int).Sub(hb, bigOne)
			}
			cur := c.tbounds[a.id]
			if cur[1] == nil || hi.Cmp(cur[1]) < 0 {
				cur[1] = hi
				c.tbounds[a.id] = cur
			}
		}
	}
	if b.sort == SInt && b.op != "var" && b.op != "const" {
		if la, _, ok := c.rangeOf(a, 0); ok {
			lo := la
			if strict {
				lo = new(big.Int).Add(la, bigOne)
			}
			cur := c.tbounds[b.id]
			if cur[0] == nil || lo.Cmp(cur[0]) > 0 {
				cur[0] = lo
				c.tbounds[b.id] = cur
			}
		}
	}
	c.epoch++
	if a.op == "var" && a.sort == SInt {
		if _, hb, ok := c.rangeOf(b, 0); ok {
			hi := hb
			if strict {
				hi = new(big.Int).Sub(hb, bigOne)
			}
			cur := c.bounds[a.name]
			if cur[1] == nil || hi.Cmp(cur[1]) < 0 {
				cur[1] = hi
				c.bounds[a.name] = cur
			}
		}
	}
	if b.op == "var" && b.sort == SInt {
		if la, _, ok := c.rangeOf(a, 0); ok {
			lo := la
			if strict {
				lo = new(big.Int).Add(la, bigOne)
			}
			cur := c.bounds[b.name]
			if cur[0] == nil || lo.Cmp(cur[0]) > 0 {
				cur[0] = lo
				c.bounds[b.name] = cur
			}
		}
	}
}
