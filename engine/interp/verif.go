package interp

// Harness primitives: calls to functions named verif* (declared with native
// bodies in the overlay file zz_verif_rt.go of the package under test) are
// intercepted here.

import (
	"fmt"
	"go/token"
	"go/types"
	"math"
	"math/big"
	"os"
	"strconv"
	"strings"
)

type verifPrim func(fr *frame, args []value) value

var verifPrims map[string]verifPrim

func (i *interpreter) concreteVar(name string) (*big.Int, bool) {
	if i.run.opts.Concrete == nil {
		return nil, false
	}
	s, ok := i.run.opts.Concrete[name]
	if !ok {
		return new(big.Int), true
	}
	v, ok2 := new(big.Int).SetString(s, 10)
	if !ok2 {
		panic(unsupported("bad concrete value for " + name + ": " + s))
	}
	return v, true
}

func argString(v value) string {
	s, ok := v.(string)
	if !ok {
		panic(unsupported(fmt.Sprintf("verif primitive needs a constant string, got %T", v)))
	}
	return s
}

func init() {
	verifPrims = map[string]verifPrim{
		"verifSymbolic": func(fr *frame, args []value) value { return true },
		"verifBig": func(fr *frame, args []value) value {
			i := fr.i
			name := argString(args[0])
			if c, ok := i.concreteVar(name); ok {
				return newBigPtr(c, nil)
			}
			return newBigPtr(nil, i.tc.Var(name, SInt))
		},
		"verifUint64": func(fr *frame, args []value) value {
			return fr.i.intVar(argString(args[0]), types.Uint64)
		},
		"verifInt64": func(fr *frame, args []value) value {
			return fr.i.intVar(argString(args[0]), types.Int64)
		},
		"verifUint32": func(fr *frame, args []value) value {
			return fr.i.intVar(argString(args[0]), types.Uint32)
		},
		"verifByte": func(fr *frame, args []value) value {
			return fr.i.intVar(argString(args[0]), types.Uint8)
		},
		"verifBool": func(fr *frame, args []value) value {
			i := fr.i
			name := argString(args[0])
			if c, ok := i.concreteVar(name); ok {
				return c.Sign() != 0
			}
			return symBool{i.tc.Var(name, SBool)}
		},
		"verifFloat64": func(fr *frame, args []value) value {
			i := fr.i
			name := argString(args[0])
			if i.run.opts.Concrete != nil {
				s := i.run.opts.Concrete[name]
				var bits uint64
				fmt.Sscanf(s, "%d", &bits)
				return math.Float64frombits(bits)
			}
			return symF64{i.tc.Var(name, SF64)}
		},
		"verifChoice": func(fr *frame, args []value) value {
			i := fr.i
			name := argString(args[0])
			n := asInt64(args[1])
			if c, ok := i.concreteVar(name); ok {
				return int(c.Int64())
			}
			v := i.tc.Var(name, SInt)
			i.assume(i.tc.And(i.tc.Le(i.tc.ConstI(0), v), i.tc.Lt(v, i.tc.ConstI(n))), "choice range")
			return int(i.concretize(symInt{v, types.Int}, 0, n-1, "choice "+name))
		},
		"verifAssume": func(fr *frame, args []value) value {
			i := fr.i
			switch c := args[0].(type) {
			case bool:
				if !c {
					panic(abort{"assume-false", "concrete"})
				}
			case symBool:
				i.assume(c.t, "verifAssume")
			default:
				panic(unsupported(fmt.Sprintf("verifAssume(%T)", c)))
			}
			return nil
		},
		"verifAssert": func(fr *frame, args []value) value {
			if fr.i.quiet {
				return nil
			}
			fr.i.doAssert(fr, args[0], argString(args[1]))
			return nil
		},
		"verifCover": func(fr *frame, args []value) value {
			if fr.i.quiet {
				return nil
			}
			fr.i.doCover(argString(args[0]))
			return nil
		},
		"verifExpect": func(fr *frame, args []value) value {
			if fr.i.quiet {
				return nil
			}
			r := fr.i.run
			r.mu.Lock()
			for _, l := range variadic(args[0]) {
				label := argString(l)
				if r.covers[label] == nil {
					r.covers[label] = &CoverInfo{Label: label, Status: "unknown"}
				}
			}
			r.mu.Unlock()
			return nil
		},
		"verifFloatOf": func(fr *frame, args []value) value {
			// the float behind a decimal string produced by strconv.FormatFloat
			switch s := args[0].(type) {
			case symStr:
				if s.kind == "f64" {
					return symF64{s.t}
				}
				panic(unsupported("verifFloatOf of an opaque string"))
			case string:
				f, err := strconv.ParseFloat(s, 64)
				if err != nil {
					panic(unsupported("verifFloatOf: " + err.Error()))
				}
				return f
			}
			panic(unsupported("verifFloatOf"))
		},
		// 8-decimal comparisons: exact under the engine (the float behind the rendered string is
		// known), with half-a-unit tolerance in the native twin (which only sees the rendering)
		"verifFloatEq8": func(fr *frame, args []value) value {
			return binop(fr.i, token.EQL, nil, args[0], args[1])
		},
		"verifFloatGe8": func(fr *frame, args []value) value {
			return binop(fr.i, token.GEQ, nil, args[0], args[1])
		},
		// the ...Tol variants carry the same tolerance as the native twins, so that a counterexample differs by
		// more than the rendering can hide and reproduces natively; FP subtraction makes them expensive: the
		// harnesses reach them only on paths where the exact comparison has already failed
		"verifFloatEq8Tol": func(fr *frame, args []value) value {
			f64 := types.Typ[types.Float64]
			le := func(x, y value) value {
				return binop(fr.i, token.LEQ, f64, binop(fr.i, token.SUB, f64, x, y), float64(0.6e-8))
			}
			a, b := le(args[0], args[1]), le(args[1], args[0])
			ab, aok := a.(bool)
			bb, bok := b.(bool)
			switch {
			case aok && bok:
				return ab && bb
			case aok:
				if !ab {
					return false
				}
				return b
			case bok:
				if !bb {
					return false
				}
				return a
			}
			return symBool{fr.i.tc.And(a.(symBool).t, b.(symBool).t)}
		},
		"verifFloatGe8Tol": func(fr *frame, args []value) value {
			f64 := types.Typ[types.Float64]
			return binop(fr.i, token.GEQ, f64, args[0], binop(fr.i, token.SUB, f64, args[1], float64(0.6e-8)))
		},
		"verifDeepEqual": func(fr *frame, args []value) value {
			a, b := args[0].(iface), args[1].(iface)
			if !sameType(a.t, b.t) {
				return false
			}
			if a.t == nil {
				return true
			}
			return fr.i.tc.mkBool(fr.i.valueEqualTerm(a.v, b.v))
		},
		// verifQuiet(on): inside a self-composition the wrapped harness body runs for its state changes only -
		// its own assertions, cover labels and expectations belong to its home property and are skipped
		// (assumptions stay: they define the inputs)
		"verifQuiet": func(fr *frame, args []value) value {
			fr.i.quiet = args[0].(bool)
			return nil
		},
		"verifMapOrderSymbolic": func(fr *frame, args []value) value {
			fr.i.symMapOrder = args[0].(bool)
			return nil
		},
		"verifClockSymbolic": func(fr *frame, args []value) value {
			fr.i.symClock = args[0].(bool)
			return nil
		},
		"verifInFreshProcess": func(fr *frame, args []value) value {
			// a new node process: the repository's package-level state is forgotten (initialisers run
			// again lazily, reading a fresh symbolic clock), then the process function runs
			i := fr.i
			name := argString(args[0])
			for g := range i.globals {
				if g.Pkg != nil && strings.HasPrefix(g.Pkg.Pkg.Path(), "mods.irisnet.org/") {
					delete(i.globals, g)
				}
			}
			for fn := range i.initFnDone {
				if fn.Pkg != nil && strings.HasPrefix(fn.Pkg.Pkg.Path(), "mods.irisnet.org/") {
					delete(i.initFnDone, fn)
				}
			}
			pf := fr.fn.Pkg.Func("verifProc_" + name)
			if pf == nil {
				panic(unsupported("verifInFreshProcess: no function verifProc_" + name))
			}
			return call(i, fr, token.NoPos, pf, nil)
		},
		"verifChildProcess": func(fr *frame, args []value) value { return false },
		"verifTries":        func(fr *frame, args []value) value { return 1 },
		"verifSleepMs":      func(fr *frame, args []value) value { return nil },
		"verifTier":         func(fr *frame, args []value) value { return fr.i.run.opts.Tier },
		"verifAssertKnown": func(fr *frame, args []value) value {
			// verifAssertKnown(c, label, kfID, inClass): like verifAssert, but if kfID is a
			// listed known finding, violations inside the class predicate are reported as
			// KNOWN-FINDING and only violations outside it are violations.
			i := fr.i
			label, kf := argString(args[1]), argString(args[2])
			if i.quiet {
				// the harness continues as if the asserted condition held
				switch cc := args[0].(type) {
				case bool:
					if !cc {
						panic(abort{"assume-false", "quiet known-finding assertion"})
					}
				case symBool:
					i.assume(cc.t, "quiet known-finding assertion")
				}
				return nil
			}
			if !i.run.opts.Known[kf] {
				i.doAssert(fr, args[0], label)
				return nil
			}
			tc := i.tc
			c, in := tc.boolTerm(args[0]), tc.boolTerm(args[3])
			i.doAssert(fr, tc.mkBool(tc.Or(in, c)), label)
			// inside the class: is the listed finding still reproducible here?
			q := append(append([]*Term{}, i.pc...), tc.And(in, tc.Not(c)))
			hit := false
			var model map[string]string
			if tc.And(in, tc.Not(c)).IsTrue() {
				hit = true
				model = i.fullModel(i.model)
			} else if !tc.And(in, tc.Not(c)).IsFalse() {
				if r := i.solve(q, i.run.opts.AssertMs); r.Status == "sat" {
					hit = true
					model = i.fullModel(r.Model)
				}
			}
			if hit {
				i.res.KnownHits = append(i.res.KnownHits, KnownHit{ID: kf, Harness: i.run.fn.Name(), Label: label, Model: model})
			}
			switch cc := args[0].(type) {
			case bool:
				if !cc {
					panic(abort{"assume-false", "known finding " + kf})
				}
			case symBool:
				i.assume(cc.t, "after known finding "+kf)
			}
			return nil
		},
		"verifFail": func(fr *frame, args []value) value {
			panic(abort{"unsupported", "harness failure: " + argString(args[0])})
		},
		"verifPack":   prim_verifPack,
		"verifUnpack": prim_verifUnpack,
		"verifPrint": func(fr *frame, args []value) value {
			if fr.i.run.opts.Trace || fr.i.run.opts.Concrete != nil {
				fmt.Fprintln(os.Stderr, "verifPrint:", toString(args[0]), " lastPanic:", fr.i.res.lastPanicSite)
			}
			return nil
		},
	}
	registerABIPrims()
}

func (i *interpreter) intVar(name string, k types.BasicKind) value {
	if c, ok := i.concreteVar(name); ok {
		return concreteOfKind(c, k)
	}
	v := i.tc.Var(name, SInt)
	bits, signed := kindBits(k)
	var lo, hi *big.Int
	if signed {
		hi = new(big.Int).Lsh(bigOne, bits-1)
		lo = new(big.Int).Neg(hi)
	} else {
		lo = bigZero
		hi = new(big.Int).Lsh(bigOne, bits)
	}
	i.assume(i.tc.And(i.tc.Le(i.tc.Const(lo), v), i.tc.Lt(v, i.tc.Const(hi))), "range of "+name)
	return symInt{v, k}
}

func (i *interpreter) callerSite(fr *frame) string {
	if fr.caller != nil && fr.caller.block != nil {
		// find the call instruction currently executing in the caller: approximate by function name
		return fr.caller.fn.Name()
	}
	return ""
}

func (i *interpreter) doAssert(fr *frame, c value, label string) {
	site := fr.fn.Name()
	if fr.caller != nil {
		site = fr.caller.fn.Name()
	}
	ob := Obligation{Label: label, Site: site, Solver: i.run.opts.Solver}
	switch b := c.(type) {
	case bool:
		if b {
			ob.Result = "concrete-true"
			i.res.Obligations = append(i.res.Obligations, ob)
			return
		}
		ob.Result = "concrete-false"
		// is the path condition really feasible? get a model for it
		m := i.model
		if m == nil && i.run.opts.Concrete == nil {
			r := i.solve(i.pc, i.run.opts.AssertMs)
			if r.Status == "unsat" {
				panic(abort{"infeasible", "assert on infeasible path"})
			}
			if r.Status != "sat" {
				// the path condition could not be decided: inconclusive, never a violation
				ob.Result = "unknown"
				i.res.Obligations = append(i.res.Obligations, ob)
				panic(abort{"unknown-path", "feasibility of a path reaching a failing assertion is undecided: " + label})
			}
			m = r.Model
		}
		i.res.Obligations = append(i.res.Obligations, ob)
		i.res.Violations = append(i.res.Violations, Violation{Harness: i.run.fn.Name(), Label: label, Site: site, Model: i.fullModel(m), Path: decisionString(i.decisions), Kind: "assert"})
		panic(abort{"violation", label})
	case symBool:
		q := append(append([]*Term{}, i.pc...), i.tc.Not(b.t))
		r := i.solve(q, i.run.opts.AssertMs)
		ob.Result = r.Status
		ob.Ms = r.Ms
		if r.Status == "error" {
			ob.Result = "error"
			i.res.Msg = truncStr(r.Raw, 300)
		}
		if i.run.opts.Solver2 != "" && (r.Status == "sat" || r.Status == "unsat") {
			r2 := i.solve2(q)
			ob.Solver2 = i.run.opts.Solver2 + ":" + r2.Status
			if (r2.Status == "sat" || r2.Status == "unsat") && r2.Status != r.Status {
				ob.Result = "disagree"
			}
		}
		i.res.Obligations = append(i.res.Obligations, ob)
		switch ob.Result {
		case "sat":
			i.res.Violations = append(i.res.Violations, Violation{Harness: i.run.fn.Name(), Label: label, Site: site, Model: i.fullModel(r.Model), Path: decisionString(i.decisions), Kind: "assert"})
			panic(abort{"violation", label})
		case "unsat":
			i.pc = append(i.pc, b.t) // holds on this path; keep as a lemma
		default:
			// inconclusive: continue under the assumption that it holds
			i.assume(b.t, "assert (inconclusive) "+label)
		}
	default:
		panic(unsupported(fmt.Sprintf("verifAssert(%T)", c)))
	}
}

func (i *interpreter) solve2(q []*Term) QueryResult {
	script := i.tc.script(q)
	s, err := startSolver(i.run.opts.Solver2)
	if err != nil {
		return QueryResult{Status: "error", Raw: err.Error()}
	}
	defer s.Close()
	return s.Check(script, i.run.opts.AssertMs, nil)
}

func (i *interpreter) fullModel(m map[string]*big.Int) map[string]string {
	r := map[string]string{}
	if i.run.opts.Concrete != nil {
		for k, v := range i.run.opts.Concrete {
			r[k] = v
		}
		return r
	}
	for _, v := range i.tc.vars {
		if strings.Contains(v.name, "!") {
			continue
		}
		if x, ok := m[v.name]; ok {
			r[v.name] = x.String()
		} else {
			r[v.name] = "0"
		}
	}
	return r
}

func (i *interpreter) doCover(label string) {
	i.res.Covers = append(i.res.Covers, label)
	r := i.run
	r.mu.Lock()
	ci := r.covers[label]
	if ci == nil {
		ci = &CoverInfo{Label: label, Status: "unknown"}
		r.covers[label] = ci
	}
	ci.Paths++
	need := ci.Status != "sat"
	r.mu.Unlock()
	if !need {
		return
	}
	var wit map[string]string
	status := "unknown"
	if i.run.opts.Concrete != nil {
		status = "sat"
	} else if i.model != nil {
		status = "sat"
		wit = i.fullModel(i.model)
	} else {
		q := i.solve(i.pc, i.run.opts.FeasMs)
		if q.Status == "sat" {
			status = "sat"
			i.model = q.Model
			wit = i.fullModel(q.Model)
		} else if q.Status == "unsat" {
			panic(abort{"infeasible", "cover on infeasible path"})
		}
	}
	if status == "sat" {
		r.mu.Lock()
		if ci.Status != "sat" {
			ci.Status = "sat"
			ci.Witness = wit
		}
		r.mu.Unlock()
	}
}
