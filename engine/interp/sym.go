package interp

// Symbolic scalar values and the per-path scheduler.

import (
	"fmt"
	"go/token"
	"go/types"
	"math/big"
)

// symInt is a Go fixed-width integer whose value is the Int term t, always
// normalised into the range of kind k (explicit wrap-around).
type symInt struct {
	t *Term
	k types.BasicKind
}

type symBool struct{ t *Term }

// symStr is an opaque string (text derived from symbolic values: error texts,
// event attributes, logs).  Only concatenation and storing are supported.
type symStr struct {
	id    int
	desc  string
	kind  string // "", "int" (decimal text of t), "hex" (hex text of bytes)
	t     *Term
	bytes []value
}

// abort is an engine-level termination of the current path.  It is never
// visible to the target program's recover().
type abort struct {
	kind string // "unsupported","infeasible","assume-false","unwind","budget","violation"
	msg  string
}

func (a abort) Error() string { return a.kind + ": " + a.msg }

func unsupported(msg string) abort { return abort{"unsupported", msg} }

func kindBits(k types.BasicKind) (bits uint, signed bool) {
	switch k {
	case types.Int8:
		return 8, true
	case types.Int16:
		return 16, true
	case types.Int32:
		return 32, true
	case types.Int64, types.Int:
		return 64, true
	case types.Uint8:
		return 8, false
	case types.Uint16:
		return 16, false
	case types.Uint32:
		return 32, false
	case types.Uint64, types.Uint, types.Uintptr:
		return 64, false
	}
	panic(unsupported(fmt.Sprintf("kindBits(%v)", k)))
}

func concreteKind(v value) (types.BasicKind, bool) {
	switch v.(type) {
	case int:
		return types.Int, true
	case int8:
		return types.Int8, true
	case int16:
		return types.Int16, true
	case int32:
		return types.Int32, true
	case int64:
		return types.Int64, true
	case uint:
		return types.Uint, true
	case uint8:
		return types.Uint8, true
	case uint16:
		return types.Uint16, true
	case uint32:
		return types.Uint32, true
	case uint64:
		return types.Uint64, true
	case uintptr:
		return types.Uintptr, true
	}
	return 0, false
}

func concreteBig(v value) *big.Int {
	switch x := v.(type) {
	case int:
		return big.NewInt(int64(x))
	case int8:
		return big.NewInt(int64(x))
	case int16:
		return big.NewInt(int64(x))
	case int32:
		return big.NewInt(int64(x))
	case int64:
		return big.NewInt(x)
	case uint:
		return new(big.Int).SetUint64(uint64(x))
	case uint8:
		return big.NewInt(int64(x))
	case uint16:
		return big.NewInt(int64(x))
	case uint32:
		return big.NewInt(int64(x))
	case uint64:
		return new(big.Int).SetUint64(x)
	case uintptr:
		return new(big.Int).SetUint64(uint64(x))
	}
	panic(unsupported(fmt.Sprintf("concreteBig(%T)", v)))
}

// concreteOfKind builds the Go value of kind k holding b (b is in range).
func concreteOfKind(b *big.Int, k types.BasicKind) value {
	switch k {
	case types.Int:
		return int(b.Int64())
	case types.Int8:
		return int8(b.Int64())
	case types.Int16:
		return int16(b.Int64())
	case types.Int32:
		return int32(b.Int64())
	case types.Int64:
		return b.Int64()
	case types.Uint:
		return uint(b.Uint64())
	case types.Uint8:
		return uint8(b.Uint64())
	case types.Uint16:
		return uint16(b.Uint64())
	case types.Uint32:
		return uint32(b.Uint64())
	case types.Uint64:
		return b.Uint64()
	case types.Uintptr:
		return uintptr(b.Uint64())
	}
	panic(unsupported(fmt.Sprintf("concreteOfKind(%v)", k)))
}

func isSym(v value) bool {
	switch v.(type) {
	case symInt, symBool, symF64:
		return true
	}
	return false
}

// intTerm returns the Int term of an integer value (concrete or symbolic).
func (tc *termCtx) intTerm(v value) *Term {
	if s, ok := v.(symInt); ok {
		return s.t
	}
	return tc.Const(concreteBig(v))
}

func (tc *termCtx) boolTerm(v value) *Term {
	switch b := v.(type) {
	case symBool:
		return b.t
	case bool:
		return tc.Bool(b)
	}
	panic(unsupported(fmt.Sprintf("boolTerm(%T)", v)))
}

func valKind(v value) types.BasicKind {
	if s, ok := v.(symInt); ok {
		return s.k
	}
	k, ok := concreteKind(v)
	if !ok {
		panic(unsupported(fmt.Sprintf("valKind(%T)", v)))
	}
	return k
}

// wrap normalises t into the value range of kind k.
func (tc *termCtx) wrap(t *Term, k types.BasicKind) *Term {
	bits, signed := kindBits(k)
	mod := tc.Const(new(big.Int).Lsh(bigOne, bits))
	if !signed {
		return tc.Mod(t, mod)
	}
	half := tc.Const(new(big.Int).Lsh(bigOne, bits-1))
	// ((t + 2^(n-1)) mod 2^n) - 2^(n-1)
	if lo, hi, ok := tc.rangeOf(t, 0); ok {
		if lo.Cmp(new(big.Int).Neg(half.c)) >= 0 && hi.Cmp(half.c) < 0 {
			return t
		}
	}
	return tc.Sub(tc.Mod(tc.Add(t, half), mod), half)
}

func (tc *termCtx) mkInt(t *Term, k types.BasicKind) value {
	if t.IsConst() {
		return concreteOfKind(t.c, k)
	}
	return symInt{t, k}
}

func (tc *termCtx) mkBool(t *Term) value {
	if t.IsTrue() {
		return true
	}
	if t.IsFalse() {
		return false
	}
	return symBool{t}
}

func isPow2Minus1(b *big.Int) (uint, bool) {
	if b.Sign() < 0 {
		return 0, false
	}
	n := new(big.Int).Add(b, bigOne)
	if n.BitLen() > 0 && new(big.Int).And(n, b).Sign() == 0 {
		return uint(n.BitLen() - 1), true
	}
	return 0, false
}

// symBinop handles binary operators when at least one operand is symbolic.
func (i *interpreter) symBinop(op token.Token, x, y value) value {
	tc := i.tc
	if fx, ok := x.(symF64); ok {
		return i.symFloatBinop(op, fx, y)
	}
	if fy, ok := y.(symF64); ok {
		return i.symFloatBinop(op, x, fy)
	}
	if _, ok := x.(symStr); ok {
		return i.symStrBinop(op, x, y)
	}
	if _, ok := y.(symStr); ok {
		return i.symStrBinop(op, x, y)
	}
	// booleans
	_, xb := x.(symBool)
	_, yb := y.(symBool)
	if xb || yb {
		a, b := tc.boolTerm(x), tc.boolTerm(y)
		switch op {
		case token.EQL:
			return tc.mkBool(tc.Iff(a, b))
		case token.NEQ:
			return tc.mkBool(tc.Not(tc.Iff(a, b)))
		case token.AND, token.LAND:
			return tc.mkBool(tc.And(a, b))
		case token.OR, token.LOR:
			return tc.mkBool(tc.Or(a, b))
		}
		panic(unsupported("boolean binop " + op.String()))
	}
	// shifts: the operands may have different kinds
	if op == token.SHL || op == token.SHR {
		k := valKind(x)
		if _, ok := y.(symInt); ok {
			panic(unsupported("shift by a symbolic count"))
		}
		cnt := concreteBig(y)
		if cnt.Sign() < 0 {
			panic(targetPanic{"negative shift amount"})
		}
		bits, _ := kindBits(k)
		a := tc.intTerm(x)
		if !cnt.IsUint64() || cnt.Uint64() >= uint64(bits) {
			if op == token.SHL {
				return concreteOfKind(bigZero, k)
			}
			_, signed := kindBits(k)
			if signed {
				return tc.mkInt(tc.Ite(tc.Lt(a, tc.ConstI(0)), tc.ConstI(-1), tc.ConstI(0)), k)
			}
			return concreteOfKind(bigZero, k)
		}
		p := tc.Const(new(big.Int).Lsh(bigOne, uint(cnt.Uint64())))
		if op == token.SHL {
			return tc.mkInt(tc.wrap(tc.Mul(a, p), k), k)
		}
		return tc.mkInt(tc.Div(a, p), k) // floor division == arithmetic shift
	}
	k := valKind(x)
	if ky := valKind(y); ky != k {
		// int vs int64 etc. cannot happen in well-typed SSA except via our own ints
		bx, _ := kindBits(k)
		by, _ := kindBits(ky)
		if bx != by {
			panic(unsupported(fmt.Sprintf("binop %s on kinds %v and %v", op, k, ky)))
		}
	}
	a, b := tc.intTerm(x), tc.intTerm(y)
	switch op {
	case token.ADD:
		return tc.mkInt(tc.wrap(tc.Add(a, b), k), k)
	case token.SUB:
		return tc.mkInt(tc.wrap(tc.Sub(a, b), k), k)
	case token.MUL:
		return tc.mkInt(tc.wrap(tc.Mul(a, b), k), k)
	case token.QUO, token.REM:
		// division by zero is a run-time panic: decide it
		if i.decide(tc.Eq(b, tc.ConstI(0)), "div-by-zero") {
			panic(targetPanic{iface{i.runtimeErrorString, "integer divide by zero"}})
		}
		if op == token.QUO {
			return tc.mkInt(tc.wrap(tc.TDiv(a, b), k), k)
		}
		return tc.mkInt(tc.TRem(a, b), k)
	case token.AND:
		if b.IsConst() {
			if n, ok := isPow2Minus1(b.c); ok {
				return tc.mkInt(tc.wrap(tc.Mod(a, tc.Const(new(big.Int).Lsh(bigOne, n))), k), k)
			}
			// ^mask style: x &^ low bits == x - x mod 2^n when b = ~(2^n-1) in the kind's width
			bits, signed := kindBits(k)
			if !signed {
				full := new(big.Int).Sub(new(big.Int).Lsh(bigOne, bits), bigOne)
				inv := new(big.Int).Xor(full, b.c)
				if n, ok := isPow2Minus1(inv); ok {
					return tc.mkInt(tc.Sub(a, tc.Mod(a, tc.Const(new(big.Int).Lsh(bigOne, n)))), k)
				}
			}
		}
		if a.IsConst() {
			if n, ok := isPow2Minus1(a.c); ok {
				return tc.mkInt(tc.wrap(tc.Mod(b, tc.Const(new(big.Int).Lsh(bigOne, n))), k), k)
			}
		}
		panic(unsupported("bitwise AND of symbolic operands (mask is not 2^k-1)"))
	case token.OR:
		// x | c where the bits of c are disjoint from the range of x
		if a.IsConst() {
			a, b = b, a
		}
		if b.IsConst() && b.c.Sign() >= 0 {
			if b.c.Sign() == 0 {
				return tc.mkInt(a, k)
			}
			if lo, hi, ok := tc.rangeOf(a, 0); ok && lo.Sign() >= 0 {
				low := uint(b.c.TrailingZeroBits())
				if hi.BitLen() <= int(low) {
					return tc.mkInt(tc.wrap(tc.Add(a, b), k), k)
				}
			}
		}
		// two symbolic operands whose bits cannot overlap: one is below 2^k, the other a multiple of 2^k
		// (the varint decoding idiom  acc |= uint64(b&0x7F) << shift)
		for _, pr := range [][2]*Term{{a, b}, {b, a}} {
			lowT, highT := pr[0], pr[1]
			if lo, hi, ok := tc.rangeOf(lowT, 0); ok && lo.Sign() >= 0 {
				// (in two's complement a negative multiple of 2^k also has k zero low bits)
				if tz := termTZ(highT, 0); tz > 0 && hi.BitLen() <= tz {
					return tc.mkInt(tc.wrap(tc.Add(a, b), k), k)
				}
			}
		}
		if b.IsConst() {
			// x | (2^n-1) == x - x mod 2^n + (2^n-1)  (two's complement, floor mod)
			if n, ok := isPow2Minus1(b.c); ok {
				return tc.mkInt(tc.Add(tc.Sub(a, tc.Mod(a, tc.Const(new(big.Int).Lsh(bigOne, n)))), b), k)
			}
		}
		panic(unsupported("bitwise OR of symbolic operands"))
	case token.XOR, token.AND_NOT:
		panic(unsupported("bitwise " + op.String() + " of symbolic operands"))
	case token.EQL:
		return tc.mkBool(tc.Eq(a, b))
	case token.NEQ:
		return tc.mkBool(tc.Not(tc.Eq(a, b)))
	case token.LSS:
		return tc.mkBool(tc.Lt(a, b))
	case token.LEQ:
		return tc.mkBool(tc.Le(a, b))
	case token.GTR:
		return tc.mkBool(tc.Lt(b, a))
	case token.GEQ:
		return tc.mkBool(tc.Le(b, a))
	}
	panic(unsupported("symbolic binop " + op.String()))
}

func (i *interpreter) symStrBinop(op token.Token, x, y value) value {
	if op == token.ADD {
		ex, okx := strElems(x)
		ey, oky := strElems(y)
		if okx && oky {
			st := i.newSymStr("concat")
			st.kind = "bytes"
			st.bytes = append(append([]value{}, ex...), ey...)
			return st
		}
		return i.newSymStr("concat")
	}
	if op == token.EQL || op == token.NEQ {
		sx, okx := x.(symStr)
		sy, oky := y.(symStr)
		if okx && oky {
			e := i.symEquals(nil, sx, sy)
			if op == token.NEQ {
				e = i.tc.Not(e)
			}
			return i.tc.mkBool(e)
		}
	}
	panic(unsupported("operator " + op.String() + " on an opaque (symbolic-derived) string"))
}

func (i *interpreter) newSymStr(desc string) symStr {
	i.symStrN++
	return symStr{id: i.symStrN, desc: desc}
}

func (i *interpreter) symUnop(op token.Token, x value) value {
	tc := i.tc
	switch v := x.(type) {
	case symBool:
		if op == token.NOT {
			return tc.mkBool(tc.Not(v.t))
		}
	case symInt:
		switch op {
		case token.SUB:
			return tc.mkInt(tc.wrap(tc.Neg(v.t), v.k), v.k)
		case token.XOR: // ^x == -x-1 (signed) or 2^n-1-x (unsigned)
			bits, signed := kindBits(v.k)
			if signed {
				return tc.mkInt(tc.Sub(tc.Neg(v.t), tc.ConstI(1)), v.k)
			}
			full := new(big.Int).Sub(new(big.Int).Lsh(bigOne, bits), bigOne)
			return tc.mkInt(tc.Sub(tc.Const(full), v.t), v.k)
		}
	case symF64:
		if op == token.SUB {
			return symF64{tc.mkF("fneg", SF64, v.t)}
		}
	}
	panic(unsupported(fmt.Sprintf("symbolic unop %s %T", op, x)))
}

// symConv converts a symbolic scalar to the basic kind dst.
func (i *interpreter) symConv(dst *types.Basic, x value) value {
	tc := i.tc
	switch v := x.(type) {
	case symInt:
		if dst.Info()&types.IsInteger != 0 {
			k := dst.Kind()
			return tc.mkInt(tc.wrap(v.t, k), k)
		}
		if dst.Kind() == types.Float64 {
			return symF64{tc.mkF("i2f", SF64, v.t)}
		}
	case symF64:
		if dst.Kind() == types.Float64 {
			return v
		}
	case symStr:
		if dst.Kind() == types.String {
			return v
		}
	}
	panic(unsupported(fmt.Sprintf("conversion of symbolic %T to %s", x, dst)))
}

// ---------------------------------------------------------------------
// Scheduler: decisions, path condition, model-guided branch choice.

// decide returns the truth value chosen for cond on this path and extends the
// path condition accordingly.
func (i *interpreter) decide(cond *Term, site string) bool {
	if cond.IsTrue() {
		return true
	}
	if cond.IsFalse() {
		return false
	}
	tc := i.tc
	// a condition the path has decided (or assumed) already - the same hash-consed term - is not decided again:
	// a body executed twice on the same inputs (self-composition) re-evaluates the very same conditions
	if i.decided[cond] {
		return true
	}
	if i.decided[tc.Not(cond)] {
		return false
	}
	n := len(i.decisions)
	if n >= i.run.opts.MaxDecisions {
		panic(abort{"budget", fmt.Sprintf("more than %d symbolic decisions on one path (at %s)", n, site)})
	}
	var take bool
	if n < len(i.prefix) {
		take = i.prefix[n]
		c := cond
		if !take {
			c = tc.Not(cond)
		}
		i.pc = append(i.pc, c)
		i.noteDecided(c)
		i.tc.learn(c)
		i.decisions = append(i.decisions, take)
		if n == len(i.prefix)-1 {
			// the last, flipped, decision has never been checked for feasibility
			switch r := i.solve(i.pc, i.run.opts.FeasMs); r.Status {
			case "unsat":
				panic(abort{"infeasible", site})
			case "sat":
				i.model = r.Model
			default:
				i.model = nil
				i.unknownFeas++
			}
		}
		return take
	}
	// new decision
	if i.model != nil {
		if v := tc.Eval(cond, i.model, i.evalMemo()); v != nil {
			take = v.Sign() != 0
			i.pushAlt(!take)
			c := cond
			if !take {
				c = tc.Not(cond)
			}
			i.pc = append(i.pc, c)
			i.noteDecided(c)
			i.tc.learn(c)
			i.decisions = append(i.decisions, take)
			return take
		}
	}
	// no usable model: ask the solver about the true side
	r := i.solve(append(append([]*Term{}, i.pc...), cond), i.run.opts.FeasMs)
	switch r.Status {
	case "sat":
		i.model = r.Model
		take = true
		i.pushAlt(false)
	case "unsat":
		take = false
	default:
		i.unknownFeas++
		i.model = nil
		take = true
		i.pushAlt(false)
	}
	c := cond
	if !take {
		c = tc.Not(cond)
	}
	i.pc = append(i.pc, c)
	i.noteDecided(c)
	i.tc.learn(c)
	i.decisions = append(i.decisions, take)
	return take
}

func (i *interpreter) noteDecided(c *Term) {
	if i.decided == nil {
		i.decided = map[*Term]bool{}
	}
	i.decided[c] = true
}

func (i *interpreter) pushAlt(alt bool) {
	p := make([]bool, len(i.decisions)+1)
	copy(p, i.decisions)
	p[len(i.decisions)] = alt
	i.newPrefixes = append(i.newPrefixes, p)
}

func (i *interpreter) evalMemo() map[int]*big.Int {
	if i.memoModelGen != i.modelGen || i.memo == nil {
		i.memo = map[int]*big.Int{}
		i.memoModelGen = i.modelGen
	}
	return i.memo
}

// solve sends asserts to the worker's solver.
func (i *interpreter) solve(asserts []*Term, ms int) QueryResult {
	script := i.tc.script(asserts)
	r := i.run.query(i, script, ms, i.tc.vars)
	if r.Status == "sat" {
		// complete the model: variables the solver did not mention are 0
		if r.Model == nil {
			r.Model = map[string]*big.Int{}
		}
		for _, v := range i.tc.vars {
			if _, ok := r.Model[v.name]; !ok && v.sort != SF64 {
				r.Model[v.name] = bigZero
			}
		}
		i.modelGen++
	}
	return r
}

// assume adds c to the path condition; the path ends if it is infeasible.
func (i *interpreter) assume(c *Term, what string) {
	if c.IsTrue() {
		return
	}
	if c.IsFalse() {
		panic(abort{"assume-false", what})
	}
	i.pc = append(i.pc, c)
	i.noteDecided(c)
	i.tc.learn(c)
	if i.model != nil {
		if v := i.tc.Eval(c, i.model, i.evalMemo()); v != nil && v.Sign() != 0 {
			return
		}
	}
	if len(i.decisions) < len(i.prefix) {
		// replaying a prefix: this assumption was already part of the parent
		// path's satisfiable condition; feasibility is re-established at the
		// last (flipped) decision of the prefix.
		i.model = nil
		return
	}
	switch r := i.solve(i.pc, i.run.opts.FeasMs); r.Status {
	case "unsat":
		panic(abort{"assume-false", what})
	case "sat":
		i.model = r.Model
	default:
		i.model = nil
		i.unknownFeas++
	}
}

// condValue turns a bool-typed value into a Go bool, deciding if symbolic.
func (i *interpreter) condValue(v value, site string) bool {
	switch b := v.(type) {
	case bool:
		return b
	case symBool:
		return i.decide(b.t, site)
	}
	panic(unsupported(fmt.Sprintf("condition of type %T", v)))
}

// concretize forks on the value of a symbolic integer known to lie in [lo,hi].
func (i *interpreter) concretize(v value, lo, hi int64, site string) int64 {
	s, ok := v.(symInt)
	if !ok {
		return asInt64(v)
	}
	for k := lo; k < hi; k++ {
		if i.decide(i.tc.Eq(s.t, i.tc.ConstI(k)), site) {
			return k
		}
	}
	i.assume(i.tc.Eq(s.t, i.tc.ConstI(hi)), site)
	return hi
}

// concreteIndex turns a symbolic index / length into a concrete one by bisecting its syntactic
// interval with decisions (deterministic given the decision prefix).
func (i *interpreter) concreteIndex(v value, site string) value {
	s, ok := v.(symInt)
	if !ok {
		return v
	}
	lo, hi, ok := i.tc.rangeOf(s.t, 0)
	if !ok || !lo.IsInt64() || !hi.IsInt64() || hi.Int64()-lo.Int64() > 4096 {
		panic(unsupported("a symbolic integer (" + truncStr(s.t.String(), 80) + ") without a small known range is used as " + site))
	}
	l, h := lo.Int64(), hi.Int64()
	for l < h {
		mid := l + (h-l)/2
		if i.decide(i.tc.Le(s.t, i.tc.ConstI(mid)), site) {
			h = mid
		} else {
			l = mid + 1
		}
	}
	i.assume(i.tc.Eq(s.t, i.tc.ConstI(l)), site)
	return concreteOfKind(big.NewInt(l), s.k)
}

// strElems returns the byte-like elements of a string value (concrete bytes and opaque runs).
func strElems(v value) ([]value, bool) {
	switch s := v.(type) {
	case string:
		r := make([]value, len(s))
		for k := 0; k < len(s); k++ {
			r[k] = s[k]
		}
		return r, true
	case symStr:
		switch s.kind {
		case "int":
			return []value{opaqueRun{"intstr", s.t}}, true
		case "bytes":
			return s.bytes, true
		}
	}
	return nil, false
}

func (i *interpreter) strFromElems(e []value) value {
	if !hasAbstract(e) {
		return string(valueToBytes(e))
	}
	st := i.newSymStr("text")
	st.kind = "bytes"
	st.bytes = append([]value{}, e...)
	return st
}

// termTZ: a lower bound on the number of trailing zero bits of an integer term (0 = unknown).
func termTZ(t *Term, depth int) int {
	if depth > 8 {
		return 0
	}
	switch t.op {
	case "const":
		if t.c.Sign() == 0 {
			return 1 << 20
		}
		return int(new(big.Int).Abs(t.c).TrailingZeroBits())
	case "*":
		n := 0
		for _, a := range t.args {
			n += termTZ(a, depth+1)
		}
		return n
	case "+", "-":
		n := -1
		for _, a := range t.args {
			if k := termTZ(a, depth+1); n < 0 || k < n {
				n = k
			}
		}
		if n < 0 {
			return 0
		}
		return n
	case "mod":
		// (x mod 2^n) keeps the trailing zeros of x up to n
		if t.args[1].IsConst() {
			if n, ok := isPow2(t.args[1].c); ok {
				if k := termTZ(t.args[0], depth+1); k < int(n) {
					return k
				}
				return int(n)
			}
		}
	case "ite":
		a, b := termTZ(t.args[1], depth+1), termTZ(t.args[2], depth+1)
		if a < b {
			return a
		}
		return b
	}
	return 0
}

func isPow2(c *big.Int) (uint, bool) {
	if c.Sign() <= 0 {
		return 0, false
	}
	n := c.TrailingZeroBits()
	if new(big.Int).Rsh(c, n).Cmp(bigOne) == 0 {
		return n, true
	}
	return 0, false
}
