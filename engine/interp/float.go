package interp

// IEEE-754 binary64 terms (SMT FloatingPoint theory), used by the oracle
// aggregation functions only.

import (
	"fmt"
	"go/token"
	"math"
)

type symF64 struct{ t *Term }

func (c *termCtx) mkF(op string, sort Sort, args ...*Term) *Term {
	return c.mk(op, sort, "", nil, args...)
}

func (c *termCtx) FConst(f float64) *Term {
	t := c.mk("fconst", SF64, fmt.Sprintf("%x", math.Float64bits(f)), nil)
	t.f = f
	return t
}

func f64Literal(f float64) string {
	b := math.Float64bits(f)
	return fmt.Sprintf("(fp #b%01b #b%011b #x%013x)", b>>63, (b>>52)&0x7ff, b&((1<<52)-1))
}

func (c *termCtx) f64Term(v value) *Term {
	switch x := v.(type) {
	case symF64:
		return x.t
	case float64:
		return c.FConst(x)
	}
	panic(unsupported(fmt.Sprintf("f64Term(%T)", v)))
}

func (i *interpreter) symFloatBinop(op token.Token, x, y value) value {
	tc := i.tc
	a, b := tc.f64Term(x), tc.f64Term(y)
	switch op {
	case token.ADD:
		return symF64{tc.mkF("f+", SF64, a, b)}
	case token.SUB:
		return symF64{tc.mkF("f-", SF64, a, b)}
	case token.MUL:
		return symF64{tc.mkF("f*", SF64, a, b)}
	case token.QUO:
		return symF64{tc.mkF("f/", SF64, a, b)}
	case token.LSS:
		return tc.mkBool(tc.mkF("f<", SBool, a, b))
	case token.LEQ:
		return tc.mkBool(tc.mkF("f<=", SBool, a, b))
	case token.GTR:
		return tc.mkBool(tc.mkF("f<", SBool, b, a))
	case token.GEQ:
		return tc.mkBool(tc.mkF("f<=", SBool, b, a))
	case token.EQL:
		return tc.mkBool(tc.mkF("f=", SBool, a, b))
	case token.NEQ:
		return tc.mkBool(tc.Not(tc.mkF("f=", SBool, a, b)))
	}
	panic(unsupported("float binop " + op.String()))
}
