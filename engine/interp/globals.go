package interp

// Demand-driven initialisation of package-level variables.
//
// SSA is built with ssa.BareInits: a package's "init" holds only its own
// variable initialisers and the calls to its explicit init#N functions.  The
// first read of a global G executes (a) the backward slice of init that feeds
// the stores into G and (b) every init#N of the package that mentions G
// (directly, or through same-package callees to depth 2).

import (
	"fmt"
	"go/types"
	"strings"
	"sync"

	"golang.org/x/tools/go/ssa"
)

type initSlice struct {
	fn        *ssa.Function
	instrs    map[ssa.Instruction]bool // phase A: the variable's own initialiser
	initCalls []*ssa.Call              // phase B: explicit init#N functions that mention the variable
	multi     bool                     // init has several blocks and a sliced instr is outside block 0
}

var (
	mentionMu    sync.Mutex
	mentionCache = map[*ssa.Function][]*ssa.Global{}
)

// mentionedGlobals lists the same-package globals fn refers to (callees to depth 2).
func mentionedGlobals(fn *ssa.Function) []*ssa.Global {
	mentionMu.Lock()
	defer mentionMu.Unlock()
	if r, ok := mentionCache[fn]; ok {
		return r
	}
	set := map[*ssa.Global]bool{}
	var walk func(f *ssa.Function, depth int, seen map[*ssa.Function]bool)
	walk = func(f *ssa.Function, depth int, seen map[*ssa.Function]bool) {
		if seen[f] || f.Blocks == nil {
			return
		}
		seen[f] = true
		for _, b := range f.Blocks {
			for _, ins := range b.Instrs {
				for _, op := range ins.Operands(nil) {
					if gl, ok := (*op).(*ssa.Global); ok && gl.Pkg == fn.Pkg {
						set[gl] = true
					}
				}
				if depth > 0 {
					if c, ok := ins.(ssa.CallInstruction); ok {
						if callee := c.Common().StaticCallee(); callee != nil && callee.Pkg == fn.Pkg {
							walk(callee, depth-1, seen)
						}
					}
				}
			}
		}
		for _, af := range f.AnonFuncs {
			walk(af, depth, seen)
		}
	}
	walk(fn, 2, map[*ssa.Function]bool{})
	var r []*ssa.Global
	for gl := range set {
		r = append(r, gl)
	}
	mentionCache[fn] = r
	return r
}

var (
	sliceMu    sync.Mutex
	sliceCache = map[*ssa.Global]*initSlice{}
)

var noInitPkgs = map[string]bool{
	"runtime": true, "reflect": true, "unsafe": true, "sync": true, "sync/atomic": true,
	"os": true, "syscall": true, "internal/reflectlite": true, "internal/cpu": true,
	"internal/poll": true, "internal/godebug": true, "net": true, "net/http": true,
	"crypto/rand": true, "testing": true, "log": true,
}

func (i *interpreter) globalAddr(g *ssa.Global) *value {
	if r, ok := i.globals[g]; ok {
		return r
	}
	cell := zero(mustDeref(g.Type()))
	r := &cell
	i.globals[g] = r
	if g.Pkg == nil || noInitPkgs[g.Pkg.Pkg.Path()] || strings.HasPrefix(g.Pkg.Pkg.Path(), "internal/") || strings.HasPrefix(g.Pkg.Pkg.Path(), "runtime/") {
		return r
	}
	if ov, ok := globalOverrides[g.String()]; ok {
		*r = ov(i, g)
		return r
	}
	i.initGlobal(g)
	return r
}

func computeSlice(g *ssa.Global) *initSlice {
	sliceMu.Lock()
	defer sliceMu.Unlock()
	if s, ok := sliceCache[g]; ok {
		return s
	}
	g.Pkg.Build()
	fn := g.Pkg.Func("init")
	s := &initSlice{fn: fn, instrs: map[ssa.Instruction]bool{}}
	sliceCache[g] = s
	if fn == nil || len(fn.Blocks) == 0 {
		return s
	}
	var include func(ins ssa.Instruction)
	var includeVal func(v ssa.Value)
	seenVal := map[ssa.Value]bool{}
	// mutators of a memory object created in init (alloc, makemap, makeslice ...)
	var addMutators func(v ssa.Value)
	addMutators = func(v ssa.Value) {
		refs := v.Referrers()
		if refs == nil {
			return
		}
		for _, r := range *refs {
			if r.Parent() != fn {
				continue
			}
			switch r := r.(type) {
			case *ssa.Store:
				if r.Addr == v {
					include(r)
				}
			case *ssa.MapUpdate:
				if r.Map == v {
					include(r)
				}
			case *ssa.FieldAddr:
				if r.X == v {
					include(r)
					addMutators(r)
				}
			case *ssa.IndexAddr:
				if r.X == v {
					include(r)
					addMutators(r)
				}
			case *ssa.Slice:
				if r.X == v {
					// slicing an array under construction: elements were stored via IndexAddr on v
				}
			}
		}
	}
	includeVal = func(v ssa.Value) {
		if seenVal[v] {
			return
		}
		seenVal[v] = true
		ins, ok := v.(ssa.Instruction)
		if !ok || ins.Parent() != fn {
			return
		}
		include(ins)
		switch v.(type) {
		case *ssa.Alloc, *ssa.MakeMap, *ssa.MakeSlice:
			addMutators(v)
		}
	}
	include = func(ins ssa.Instruction) {
		if s.instrs[ins] {
			return
		}
		s.instrs[ins] = true
		if ins.Block().Index != 0 {
			s.multi = true
		}
		for _, op := range ins.Operands(nil) {
			if *op != nil {
				includeVal(*op)
			}
		}
	}
	// roots: stores whose address is g or derived from g
	var rootsFrom func(v ssa.Value)
	rootsFrom = func(v ssa.Value) {
		refs := v.Referrers()
		if refs == nil {
			return
		}
		for _, r := range *refs {
			if r.Parent() != fn {
				continue
			}
			switch r := r.(type) {
			case *ssa.Store:
				if r.Addr == v {
					include(r)
				}
			case *ssa.FieldAddr:
				if r.X == v {
					include(r)
					rootsFrom(r)
				}
			case *ssa.IndexAddr:
				if r.X == v {
					include(r)
					rootsFrom(r)
				}
			}
		}
	}
	// globals have no Referrers(); scan init for uses of g
	for _, b := range fn.Blocks {
		for _, ins := range b.Instrs {
			switch ins := ins.(type) {
			case *ssa.Store:
				if ins.Addr == g {
					include(ins)
				}
			case *ssa.FieldAddr:
				if ins.X == g {
					include(ins)
					rootsFrom(ins)
				}
			case *ssa.IndexAddr:
				if ins.X == g {
					include(ins)
					rootsFrom(ins)
				}
			case *ssa.Call:
				// explicit init#N functions that mention g
				if callee := ins.Call.StaticCallee(); callee != nil && callee.Pkg == g.Pkg && strings.HasPrefix(callee.Name(), "init#") {
					if mentionsGlobal(callee, g, 2, map[*ssa.Function]bool{}) {
						s.initCalls = append(s.initCalls, ins)
					}
				}
			}
		}
	}
	return s
}

func mentionsGlobal(fn *ssa.Function, g *ssa.Global, depth int, seen map[*ssa.Function]bool) bool {
	if seen[fn] {
		return false
	}
	seen[fn] = true
	if fn.Blocks == nil {
		return false
	}
	for _, b := range fn.Blocks {
		for _, ins := range b.Instrs {
			for _, op := range ins.Operands(nil) {
				if *op == g {
					return true
				}
			}
			if depth > 0 {
				if c, ok := ins.(ssa.CallInstruction); ok {
					if callee := c.Common().StaticCallee(); callee != nil && callee.Pkg == g.Pkg {
						if mentionsGlobal(callee, g, depth-1, seen) {
							return true
						}
					}
				}
			}
		}
	}
	for _, af := range fn.AnonFuncs {
		if mentionsGlobal(af, g, depth, seen) {
			return true
		}
	}
	return false
}

func (i *interpreter) initGlobal(g *ssa.Global) {
	s := computeSlice(g)
	i.initPhaseA(g, s)
	// phase B: explicit init functions mentioning g, each at most once per path.  Go runs
	// init() after all variable initialisers, so while some variable initialiser is still
	// being evaluated (phaseADepth > 0) the calls are queued and run when it has finished.
	for _, c := range s.initCalls {
		i.pendingInits = append(i.pendingInits, pendingInit{c, s.fn})
	}
	i.runPendingInits()
}

type pendingInit struct {
	call *ssa.Call
	fn   *ssa.Function
}

func (i *interpreter) runPendingInits() {
	for {
		// an init function waits only while a variable initialiser of its own package is being
		// evaluated (dependencies are fully initialised before a package's initialisers run)
		idx := -1
		for k, p := range i.pendingInits {
			if i.phaseAPkgs[p.fn.Pkg] == 0 {
				idx = k
				break
			}
		}
		if idx < 0 {
			return
		}
		p := i.pendingInits[idx]
		i.pendingInits = append(i.pendingInits[:idx:idx], i.pendingInits[idx+1:]...)
		callee := p.call.Call.StaticCallee()
		if i.initFnDone == nil {
			i.initFnDone = map[*ssa.Function]bool{}
		}
		if i.initFnDone[callee] {
			continue
		}
		i.initFnDone[callee] = true
		fr := &frame{i: i, fn: p.fn}
		call(i, fr, p.call.Pos(), callee, nil)
	}
}

func (i *interpreter) initPhaseA(g *ssa.Global, s *initSlice) {
	if len(s.instrs) == 0 {
		return
	}
	if i.initDepth > 40 {
		panic(unsupported("global initialisation recursion too deep at " + g.String()))
	}
	i.initDepth++
	i.phaseADepth++
	if i.phaseAPkgs == nil {
		i.phaseAPkgs = map[*ssa.Package]int{}
	}
	i.phaseAPkgs[s.fn.Pkg]++
	defer func() { i.initDepth--; i.phaseADepth--; i.phaseAPkgs[s.fn.Pkg]-- }()
	fn := s.fn
	fr := &frame{i: i, fn: fn}
	fr.env = make(map[ssa.Value]value)
	fr.locals = make([]value, len(fn.Locals))
	for k, l := range fn.Locals {
		fr.locals[k] = zero(mustDeref(l.Type()))
		fr.env[l] = &fr.locals[k]
	}
	for _, b := range fn.Blocks {
		fr.block = b
		for _, ins := range b.Instrs {
			if !s.instrs[ins] {
				continue
			}
			switch ins.(type) {
			case *ssa.Phi:
				panic(unsupported(fmt.Sprintf("initialiser of %s needs control flow (phi) in package init", g)))
			case *ssa.If, *ssa.Jump, *ssa.Return:
				continue
			}
			visitInstr(fr, ins)
		}
	}
	fr.block = nil
}

// globalOverrides replaces the initial value of specific globals.
var globalOverrides = map[string]func(i *interpreter, g *ssa.Global) value{}

var _ = types.Typ
