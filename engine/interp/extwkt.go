package interp

// The two protobuf well-known types that irismod messages embed: Timestamp and Duration.  The api
// (pulsar) family hands them to google.golang.org/protobuf's table-driven encoder, which works on
// unsafe pointers into the message struct and cannot be interpreted.  Their wire format is two varint
// fields (1: seconds int64, 2: nanos int32, defaults omitted); the calls are redirected to a reference
// encoder/decoder written in plain Go in the harness package (verifWKTMarshal / verifWKTUnmarshal),
// which is interpreted symbolically like any other code.  The native replay of every cover witness
// runs the real library.

import (
	"go/types"

	"golang.org/x/tools/go/ssa"
)

func wktMessage(v value) (p *value, st *types.Struct, ok bool) {
	m, isIface := v.(iface)
	if !isIface || m.t == nil {
		return nil, nil, false
	}
	pt, isPtr := m.t.(*types.Pointer)
	if !isPtr {
		return nil, nil, false
	}
	named, isNamed := pt.Elem().(*types.Named)
	if !isNamed || named.Obj().Pkg() == nil {
		return nil, nil, false
	}
	switch named.Obj().Pkg().Path() + "." + named.Obj().Name() {
	case "google.golang.org/protobuf/types/known/timestamppb.Timestamp", "google.golang.org/protobuf/types/known/durationpb.Duration":
	default:
		return nil, nil, false
	}
	st, _ = named.Underlying().(*types.Struct)
	p, _ = m.v.(*value)
	return p, st, st != nil
}

func wktField(st *types.Struct, name string) int {
	for k := 0; k < st.NumFields(); k++ {
		if st.Field(k).Name() == name {
			return k
		}
	}
	panic(unsupported("well-known type without field " + name))
}

func (i *interpreter) harnessFunc(name string) *ssa.Function {
	if i.run == nil || i.run.fn == nil || i.run.fn.Pkg == nil {
		panic(unsupported("no harness package for " + name))
	}
	f := i.run.fn.Pkg.Func(name)
	if f == nil {
		panic(unsupported("the harness package does not define " + name))
	}
	return f
}

func registerWKT() {
	marshal := func(fr *frame, v value) ([]value, bool) {
		p, st, ok := wktMessage(v)
		if !ok {
			return nil, false
		}
		if p == nil {
			return nil, true
		}
		s := (*p).(structure)
		res := call(fr.i, fr, 0, fr.i.harnessFunc("verifWKTMarshal"), []value{s[wktField(st, "Seconds")], s[wktField(st, "Nanos")]})
		b, _ := res.([]value)
		return b, true
	}
	externals["(google.golang.org/protobuf/proto.MarshalOptions).Marshal"] = func(fr *frame, args []value) value {
		if b, ok := marshal(fr, args[1]); ok {
			return tuple{b, iface{}}
		}
		return fallThrough{}
	}
	externals["(google.golang.org/protobuf/proto.MarshalOptions).Size"] = func(fr *frame, args []value) value {
		if b, ok := marshal(fr, args[1]); ok {
			return len(b)
		}
		return fallThrough{}
	}
	externals["(google.golang.org/protobuf/proto.UnmarshalOptions).Unmarshal"] = func(fr *frame, args []value) value {
		p, st, ok := wktMessage(args[2])
		if !ok {
			return fallThrough{}
		}
		if p == nil {
			return fr.i.mkError("proto: Unmarshal into a nil message")
		}
		res := call(fr.i, fr, 0, fr.i.harnessFunc("verifWKTUnmarshal"), []value{args[1]}).(tuple)
		if okv, _ := res[2].(bool); !okv {
			return fr.i.mkError("proto: cannot parse invalid wire-format data")
		}
		s := (*p).(structure)
		s[wktField(st, "Seconds")] = res[0]
		s[wktField(st, "Nanos")] = res[1]
		return iface{}
	}
}
