package interp

// Abstract hashing.  SHA-256 of an input that is not fully concrete (symbolic bytes, a packed
// message, text of a symbolic integer, another abstract hash) yields 32 pseudo-bytes
// absByte{id,pos}.  Assumption (listed in evidence): the hash is injective - two inputs get the
// same id iff they are equal, which is decided (forking) when it depends on symbolic values -
// and never collides with a concrete constant.  Ordering of abstract hashes is arbitrary but
// consistent (by id).

import (
	"fmt"
	"go/types"
	"math/big"
	"strings"
)

type absByte struct {
	id  int
	pos int
}

// opaqueRun is a run of bytes of unknown length determined by an Int term (decimal text or
// big-endian bytes of a symbolic integer).
type opaqueRun struct {
	kind string
	t    *Term
}

type hashEntry struct {
	elems []value
	id    int
}

func isAbstractElem(v value) bool {
	switch v.(type) {
	case absByte, opaqueRun, packedMsg, symInt:
		return true
	}
	return false
}

func hasAbstract(s []value) bool {
	for _, e := range s {
		if isAbstractElem(e) {
			return true
		}
	}
	return false
}

// elemsEqual returns the condition under which two hash inputs are equal (False if they
// cannot be).
func (i *interpreter) elemsEqual(a, b []value) *Term {
	tc := i.tc
	if len(a) != len(b) {
		return tc.False()
	}
	r := tc.True()
	for k := range a {
		e := i.valueEqualTerm(a[k], b[k])
		if e.IsFalse() {
			return e
		}
		r = tc.And(r, e)
	}
	return r
}

// valueEqualTerm compares two interpreter values deeply (used for packed messages too).
func (i *interpreter) valueEqualTerm(x, y value) *Term {
	tc := i.tc
	switch a := x.(type) {
	case absByte:
		b, ok := y.(absByte)
		return tc.Bool(ok && a == b)
	case opaqueRun:
		b, ok := y.(opaqueRun)
		if !ok || a.kind != b.kind {
			return tc.False()
		}
		return tc.Eq(a.t, b.t)
	case packedMsg:
		b, ok := y.(packedMsg)
		if !ok || !types.Identical(a.t, b.t) {
			return tc.False()
		}
		return i.valueEqualTerm(a.v, b.v)
	case symInt:
		if _, ok := concreteKind(y); ok {
			return tc.Eq(a.t, tc.intTerm(y))
		}
		if b, ok := y.(symInt); ok {
			return tc.Eq(a.t, b.t)
		}
		return tc.False()
	case symBool:
		switch b := y.(type) {
		case symBool:
			return tc.Iff(a.t, b.t)
		case bool:
			return tc.Iff(a.t, tc.Bool(b))
		}
		return tc.False()
	case bigVal:
		b, ok := y.(bigVal)
		if !ok {
			if s, ok := y.([]value); ok && len(s) == 0 {
				b = bigVal{c: new(big.Int)}
			} else {
				return tc.False()
			}
		}
		return tc.Eq(i.bt(a.c, a.t), i.bt(b.c, b.t))
	case structure:
		b, ok := y.(structure)
		if !ok || len(a) != len(b) {
			return tc.False()
		}
		r := tc.True()
		for k := range a {
			r = tc.And(r, i.valueEqualTerm(a[k], b[k]))
		}
		return r
	case array:
		b, ok := y.(array)
		if !ok || len(a) != len(b) {
			return tc.False()
		}
		r := tc.True()
		for k := range a {
			r = tc.And(r, i.valueEqualTerm(a[k], b[k]))
		}
		return r
	case []value:
		b, ok := y.([]value)
		if !ok {
			if bv, isBig := y.(bigVal); isBig && len(a) == 0 {
				return tc.Eq(tc.ConstI(0), i.bt(bv.c, bv.t))
			}
			return tc.False()
		}
		if len(a) != len(b) {
			return tc.False()
		}
		r := tc.True()
		for k := range a {
			r = tc.And(r, i.valueEqualTerm(a[k], b[k]))
		}
		return r
	case *value:
		b, ok := y.(*value)
		if !ok {
			return tc.False()
		}
		if a == nil || b == nil {
			return tc.Bool(a == b)
		}
		return i.valueEqualTerm(*a, *b)
	case iface:
		b, ok := y.(iface)
		if !ok || !sameType(a.t, b.t) {
			return tc.False()
		}
		if a.t == nil {
			return tc.True()
		}
		return i.valueEqualTerm(a.v, b.v)
	case symStr:
		b, ok := y.(symStr)
		if ok && a.id == b.id {
			return tc.True()
		}
		if ok && a.t != nil && b.t != nil && a.kind == b.kind {
			return tc.Eq(a.t, b.t)
		}
		panic(unsupported("equality of opaque strings inside a hashed/packed value"))
	}
	if _, ok := y.(symInt); ok {
		return i.valueEqualTerm(y, x)
	}
	if _, ok := y.(symBool); ok {
		return i.valueEqualTerm(y, x)
	}
	switch x.(type) {
	case bool, int, int8, int16, int32, int64, uint, uint8, uint16, uint32, uint64, uintptr, float32, float64, string:
		return tc.Bool(x == y)
	case map[value]value:
		xm := x.(map[value]value)
		ym, ok := y.(map[value]value)
		if !ok || len(xm) != len(ym) {
			return tc.False()
		}
		r := tc.True()
		for k, xv := range xm {
			yv, ok := ym[k]
			if !ok {
				return tc.False()
			}
			r = tc.And(r, i.valueEqualTerm(xv, yv))
		}
		return r
	}
	if x == nil && y == nil {
		return tc.True()
	}
	panic(unsupported(fmt.Sprintf("deep equality on %T", x)))
}

// abstractHash returns the 32 pseudo-bytes of H(input).
// concHash: a SHA-256 computed natively on a concrete input on this path.  An abstract hash is related to
// it by injectivity: H(x) = H(c) iff x = c (decided, forking); if x = c the hash IS the real digest.
type concHash struct {
	in  []value
	out array
}

func (i *interpreter) abstractHash(input []value) array {
	in := append([]value{}, input...)
	for _, c := range i.concHashes {
		if len(c.in) != len(in) {
			continue
		}
		eq := i.elemsEqual(in, c.in)
		if eq.IsFalse() {
			continue
		}
		if i.decide(eq, "hash input equals a concrete hash input") {
			return append(array{}, c.out...)
		}
	}
	for _, h := range i.hashes {
		eq := i.elemsEqual(h.elems, in)
		if eq.IsFalse() {
			continue
		}
		if i.decide(eq, "hash input equality") {
			return absArray(h.id)
		}
	}
	i.hashN++
	i.hashes = append(i.hashes, hashEntry{elems: in, id: i.hashN})
	return absArray(i.hashN)
}

func absArray(id int) array {
	a := make(array, 32)
	for k := range a {
		a[k] = absByte{id, k}
	}
	return a
}

// absWhole reports whether s is exactly the 32 pseudo-bytes of one abstract hash.
func absWhole(s []value) (int, bool) {
	if len(s) != 32 {
		return 0, false
	}
	first, ok := s[0].(absByte)
	if !ok {
		return 0, false
	}
	for k, e := range s {
		b, ok := e.(absByte)
		if !ok || b.id != first.id || b.pos != k {
			return 0, false
		}
	}
	return first.id, true
}

// hashValueTerm is the integer value of an abstract hash (big-endian), constrained to [0,2^256).
func (i *interpreter) hashValueTerm(id int) *Term {
	name := fmt.Sprintf("hash!%d", id)
	if t, ok := i.tc.varset[name]; ok {
		return t
	}
	t := i.tc.Var(name, SInt)
	i.assume(i.tc.And(i.tc.Le(i.tc.ConstI(0), t), i.tc.Lt(t, i.tc.Const(new(big.Int).Lsh(bigOne, 256)))), "range of abstract hash")
	return t
}

// hashRank is the symbolic position of an abstract hash in byte order (distinct per hash).
func (i *interpreter) hashRank(id int) *Term {
	name := fmt.Sprintf("hashrank!%d", id)
	if t, ok := i.tc.varset[name]; ok {
		return t
	}
	t := i.tc.Var(name, SInt)
	for other := 1; other <= i.hashN; other++ {
		if o, ok := i.tc.varset[fmt.Sprintf("hashrank!%d", other)]; ok && other != id {
			i.assume(i.tc.Not(i.tc.Eq(t, o)), "distinct hash ranks")
		}
	}
	return t
}

// compareElem orders two byte-like elements; ok=false if it needs a symbolic decision.
func absRank(v value) (cls int, a, b int) {
	switch x := v.(type) {
	case byte:
		return 0, int(x), 0
	case absByte:
		return 1, x.id, x.pos
	case opaqueRun:
		return 2, x.t.id, 0
	case packedMsg:
		return 3, 0, 0
	}
	return 4, 0, 0
}

func hexOfElems(i *interpreter, s []value) symStr {
	st := i.newSymStr("hex")
	st.kind = "hex"
	st.bytes = append([]value{}, s...)
	return st
}

func init() {
	externals["encoding/hex.EncodeToString"] = func(fr *frame, args []value) value {
		s, _ := args[0].([]value)
		if !hasAbstract(s) {
			return fallThrough{}
		}
		return hexOfElems(fr.i, s)
	}
	externals["encoding/hex.DecodeString"] = func(fr *frame, args []value) value {
		if st, ok := args[0].(symStr); ok {
			if st.kind == "hex" {
				return tuple{append([]value{}, st.bytes...), iface{}}
			}
			if st.kind == "hexodd" {
				return tuple{[]value(nil), fr.i.mkError("encoding/hex: odd length hex string")}
			}
			panic(unsupported("hex.DecodeString of an opaque string"))
		}
		return fallThrough{}
	}
	for _, n := range []string{"strings.ToUpper", "strings.ToLower"} {
		old := externals[n]
		externals[n] = func(fr *frame, args []value) value {
			if st, ok := args[0].(symStr); ok && st.kind == "hex" {
				return st
			}
			return old(fr, args)
		}
	}
	externals["crypto/sha256.Sum256"] = func(fr *frame, args []value) value {
		s, _ := args[0].([]value)
		if hasAbstract(s) {
			return fr.i.abstractHash(s)
		}
		i := fr.i
		// an earlier abstract hash of an input that may equal this concrete one: on the branch where it does,
		// the pseudo-bytes handed out earlier cannot be reconciled with the real digest
		for _, h := range i.hashes {
			if len(h.elems) != len(s) {
				continue
			}
			if eq := i.elemsEqual(h.elems, s); !eq.IsFalse() && i.decide(eq, "concrete hash input equals an abstract one") {
				panic(unsupported("concrete hash of an input equal to an earlier abstract hash input"))
			}
		}
		out := sha256Native(valueToBytes(args[0]))
		if len(s) <= 128 && len(i.concHashes) < 4096 {
			i.concHashes = append(i.concHashes, concHash{in: append([]value{}, s...), out: out})
		}
		return out
	}
}

var _ = strings.Join

// hexLeadingZeros: how many leading '0' digits the hex text of an abstract hash has.  The bytes of an
// abstract hash carry no numeric theory, but any hash value may start with zero digits, so the count is a
// free symbolic quantity per hash (stable: one variable per hash), decided here into 0, 1 or 2 - texts with
// three or more leading zero digits (1 id in 4096) are outside the model (the path is dropped as assumed away).
func (i *interpreter) hexLeadingZeros(st symStr, max int) int {
	if len(st.bytes) == 0 {
		return 0
	}
	ab, ok := st.bytes[0].(absByte)
	if !ok || ab.pos != 0 {
		if b, ok := st.bytes[0].(byte); ok {
			switch {
			case b == 0:
				panic(unsupported("hex text starting with a concrete zero byte"))
			case b < 16:
				return 1
			}
			return 0
		}
		panic(unsupported("leading digits of a hex text that does not start at the beginning of a hash"))
	}
	v := i.tc.Var(fmt.Sprintf("hexlead!%d", ab.id), SInt)
	i.assume(i.tc.And(i.tc.Le(i.tc.ConstI(0), v), i.tc.Le(v, i.tc.ConstI(2))), "leading zero digits of a hash text (0..2 modelled)")
	if max > 2 {
		max = 2
	}
	return int(i.concretize(symInt{v, types.Int}, 0, int64(max), "leading zero digits of a hash text"))
}

// hexTrimLeftZeros returns the text left after stripping k leading zero digits.
func (i *interpreter) hexTrimLeftZeros(st symStr, k int) value {
	switch k {
	case 0:
		return st
	case 2:
		return hexOfElems(i, st.bytes[1:])
	}
	odd := i.newSymStr("hex text with an odd number of digits")
	odd.kind = "hexodd"
	odd.bytes = append([]value{}, st.bytes...)
	return odd
}

func registerHexTrims() {
	trimmable := func(cutset string) (zero bool, ok bool) {
		for _, c := range cutset {
			switch {
			case c == '0':
				zero = true
			case (c >= '1' && c <= '9') || (c >= 'a' && c <= 'f') || (c >= 'A' && c <= 'F'):
				return false, false // other hex digits: not modelled
			}
		}
		return zero, true
	}
	wrap := func(name string, f func(fr *frame, st symStr, arg string) value) {
		old := externals[name]
		externals[name] = func(fr *frame, args []value) value {
			if st, ok := args[0].(symStr); ok && st.kind == "hex" {
				if arg, ok := args[1].(string); ok {
					return f(fr, st, arg)
				}
			}
			return old(fr, args)
		}
	}
	{
		wrap("strings.TrimLeft", func(fr *frame, st symStr, cutset string) value {
			zero, ok := trimmable(cutset)
			if !ok {
				panic(unsupported("strings.TrimLeft of a hash text with hex digits other than 0 in the cutset"))
			}
			if !zero {
				return st
			}
			return fr.i.hexTrimLeftZeros(st, fr.i.hexLeadingZeros(st, 2))
		})
		wrap("strings.TrimPrefix", func(fr *frame, st symStr, prefix string) value {
			switch prefix {
			case "":
				return st
			case "0":
				return fr.i.hexTrimLeftZeros(st, fr.i.hexLeadingZeros(st, 1))
			case "00":
				if fr.i.hexLeadingZeros(st, 2) == 2 {
					return fr.i.hexTrimLeftZeros(st, 2)
				}
				return st
			}
			for _, c := range prefix {
				if !((c >= '0' && c <= '9') || (c >= 'a' && c <= 'f') || (c >= 'A' && c <= 'F')) {
					return st // a prefix with a non-hex character never matches a hex text
				}
			}
			panic(unsupported("strings.TrimPrefix of a hash text with a hex-digit prefix"))
		})
		wrap("strings.HasPrefix", func(fr *frame, st symStr, prefix string) value {
			switch prefix {
			case "":
				return true
			case "0":
				return fr.i.hexLeadingZeros(st, 1) >= 1
			}
			for _, c := range prefix {
				if !((c >= '0' && c <= '9') || (c >= 'a' && c <= 'f') || (c >= 'A' && c <= 'F')) {
					return false
				}
			}
			panic(unsupported("strings.HasPrefix of a hash text with a hex-digit prefix"))
		})
	}
}
