// symgo: symbolic execution of Go harness functions over go/ssa + SMT.
package main

import (
	"encoding/json"
	"flag"
	"fmt"
	"os"
	"path/filepath"
	"regexp"
	"strings"
	"time"

	"symgo/interp"
)

func main() {
	dir := flag.String("dir", "", "module directory (e.g. /repo/modules/coinswap)")
	rel := flag.String("rel", "", "package directory relative to -dir (e.g. keeper)")
	overlay := flag.String("overlay", "", "comma-separated directories/files of overlay files placed into the package directory")
	harness := flag.String("harness", "^Verif", "regexp selecting harness functions")
	out := flag.String("out", "", "write JSON results here")
	workers := flag.Int("workers", 0, "worker count")
	maxPaths := flag.Int("max-paths", 4096, "path budget per harness")
	unwind := flag.Int("unwind", 12, "unwind bound for loops with symbolic conditions")
	feasMs := flag.Int("feas-ms", 5000, "feasibility query timeout")
	assertMs := flag.Int("assert-ms", 60000, "assertion query timeout")
	solver := flag.String("solver", "z3-new", "primary solver")
	solver2 := flag.String("solver2", "", "second solver for assertion queries")
	trace := flag.Bool("trace", false, "trace instructions")
	replay := flag.String("replay", "", "JSON file with {\"harness\":..., \"vars\":{...}}: run concretely in the engine")
	budget := flag.Int("budget-s", 0, "stop exploring after this many seconds (0 = no limit); the run is then inconclusive unless a violation was found")
	maxViol := flag.Int("max-violations", 0, "with -keep-going: stop a harness after this many violations (0 = never)")
	keepGoing := flag.Bool("keep-going", false, "continue after a violation")
	dump := flag.String("dump", "", "dump queries into this directory")
	tier := flag.Int("tier", 0, "0 quick, 1 thorough")
	known := flag.String("known", "", "comma-separated ids of listed known findings")
	maxSteps := flag.Int64("max-steps", 0, "instruction budget per path")
	flag.Parse()

	pkgDir := filepath.Join(*dir, *rel)
	ov := map[string]string{}
	for _, o := range strings.Split(*overlay, ",") {
		if o == "" {
			continue
		}
		st, err := os.Stat(o)
		if err != nil {
			fatal(err)
		}
		if st.IsDir() {
			ents, _ := os.ReadDir(o)
			for _, e := range ents {
				if strings.HasSuffix(e.Name(), ".go") && !strings.HasSuffix(e.Name(), "_test.go") {
					ov[filepath.Join(pkgDir, e.Name())] = filepath.Join(o, e.Name())
				}
			}
		} else {
			ov[filepath.Join(pkgDir, filepath.Base(o))] = o
		}
	}
	t0 := time.Now()
	prog, pkgPath, err := interp.LoadPkg(*dir, "./"+*rel, ov)
	if err != nil {
		fatal(err)
	}
	loadS := time.Since(t0).Seconds()
	re := regexp.MustCompile(*harness)
	var names []string
	for _, n := range prog.HarnessNames(pkgPath, "Verif") {
		if re.MatchString(n) {
			names = append(names, n)
		}
	}
	opts := interp.Options{Workers: *workers, MaxPaths: *maxPaths, Unwind: *unwind, FeasMs: *feasMs, AssertMs: *assertMs,
		Solver: *solver, Solver2: *solver2, Trace: *trace, KeepGoing: *keepGoing, MaxViolations: *maxViol, Deadline: deadlineOf(*budget), DumpDir: *dump, MaxSteps: *maxSteps, Tier: *tier, Known: map[string]bool{}}
	for _, k := range strings.Split(*known, ",") {
		if k != "" {
			opts.Known[k] = true
		}
	}
	if *replay != "" {
		b, err := os.ReadFile(*replay)
		if err != nil {
			fatal(err)
		}
		var r struct {
			Harness string            `json:"harness"`
			Vars    map[string]string `json:"vars"`
		}
		if err := json.Unmarshal(b, &r); err != nil {
			fatal(err)
		}
		names = []string{r.Harness}
		opts.Concrete = r.Vars
		if opts.Concrete == nil {
			opts.Concrete = map[string]string{}
		}
		opts.Workers = 1
	}
	type output struct {
		PkgPath string                  `json:"pkg"`
		LoadS   float64                 `json:"load_s"`
		Results []*interp.HarnessResult `json:"results"`
		Solver  interface{}             `json:"solver_stats"`
		Harness []string                `json:"harnesses"`
	}
	o := output{PkgPath: pkgPath, LoadS: loadS, Harness: names}
	for _, n := range names {
		fn := prog.FindFunc(pkgPath, n)
		if fn == nil {
			fatal(fmt.Errorf("harness %s not found", n))
		}
		hr := prog.RunHarness(fn, opts)
		o.Results = append(o.Results, hr)
		fmt.Fprintf(os.Stderr, "%-40s paths=%d outcomes=%v obligations=%d discharged=%d results=%v violations=%d inconclusive=%d wall=%.1fs\n",
			n, hr.Paths, hr.Outcomes, hr.Obligations, hr.Discharged, hr.ByResult, len(hr.Violations), len(hr.Inconclusive), hr.WallS)
		for _, m := range hr.Inconclusive {
			fmt.Fprintf(os.Stderr, "   INCONCLUSIVE %s\n", m)
		}
		for _, v := range hr.Violations {
			fmt.Fprintf(os.Stderr, "   VIOLATION %s label=%q vars=%v\n", v.Harness, v.Label, v.Model)
		}
		for l, c := range hr.Covers {
			if c.Status != "sat" {
				fmt.Fprintf(os.Stderr, "   COVER-NOT-WITNESSED %s\n", l)
			}
		}
	}
	o.Solver = interp.SolverStats
	if *out != "" {
		if err := interp.WriteJSON(*out, o); err != nil {
			fatal(err)
		}
	}
}

func fatal(err error) {
	fmt.Fprintln(os.Stderr, "symgo:", err)
	os.Exit(3)
}

func deadlineOf(sec int) time.Time {
	if sec <= 0 {
		return time.Time{}
	}
	return time.Now().Add(time.Duration(sec) * time.Second)
}
