// c20gen generates, from /repo's CURRENT generated protobuf code, one differential harness per message
// type that exists in both families (gogoproto under modules/*/types, protoc-gen-go-pulsar under api/).
// The two Go struct types are matched field by field through the protobuf field numbers in their struct
// tags; the harness builds the same value in both families (numeric / boolean / enum leaves symbolic),
// marshals with both, and cross-decodes.  Message types the value builder cannot mirror (maps, Any,
// timestamps/durations, oneofs) are listed in the output as skipped - they are outside the claim.
package main

import (
	"flag"
	"fmt"
	"go/types"
	"os"
	"reflect"
	"sort"
	"strconv"
	"strings"

	"golang.org/x/tools/go/packages"
)

type pair struct{ gogo, api, alias string }

var pairs = []pair{
	{"mods.irisnet.org/modules/coinswap/types", "mods.irisnet.org/api/irismod/coinswap", "coinswap"},
	{"mods.irisnet.org/modules/farm/types", "mods.irisnet.org/api/irismod/farm", "farm"},
	{"mods.irisnet.org/modules/htlc/types", "mods.irisnet.org/api/irismod/htlc", "htlc"},
	{"mods.irisnet.org/modules/mt/types", "mods.irisnet.org/api/irismod/mt", "mt"},
	{"mods.irisnet.org/modules/nft/types", "mods.irisnet.org/api/irismod/nft", "nft"},
	{"mods.irisnet.org/modules/oracle/types", "mods.irisnet.org/api/irismod/oracle", "oracle"},
	{"mods.irisnet.org/modules/random/types", "mods.irisnet.org/api/irismod/random", "random"},
	{"mods.irisnet.org/modules/record/types", "mods.irisnet.org/api/irismod/record", "record"},
	{"mods.irisnet.org/modules/service/types", "mods.irisnet.org/api/irismod/service", "service"},
	{"mods.irisnet.org/modules/token/types/v1", "mods.irisnet.org/api/irismod/token/v1", "tokenv1"},
	{"mods.irisnet.org/modules/token/types/v1beta1", "mods.irisnet.org/api/irismod/token/v1beta1", "tokenv1beta1"},
}

type gen struct {
	imports map[string]string // path -> alias
	n       int               // fresh name counter
	decls   []string          // leaf declarations of the message being built
	leaves  int               // number of symbolic-capable leaves (one of them is symbolic per path)
	skip    string            // reason the current message cannot be mirrored
	depth   int
	path    []string          // field path inside the message being built
	hasStr  bool              // the message carries a string or byte string somewhere
	topNums []int             // field numbers of the top-level fields of the message being built
}

func (g *gen) imp(path string) string {
	if a, ok := g.imports[path]; ok {
		return a
	}
	a := fmt.Sprintf("p%d", len(g.imports))
	g.imports[path] = a
	return a
}

func (g *gen) typeStr(t types.Type) string {
	return types.TypeString(t, func(p *types.Package) string { return g.imp(p.Path()) })
}

func (g *gen) fresh(prefix string) string { g.n++; return fmt.Sprintf("%s%d", prefix, g.n) }

func fieldNum(tag string) (int, bool) {
	pb := reflect.StructTag(tag).Get("protobuf")
	if pb == "" {
		return 0, false
	}
	parts := strings.Split(pb, ",")
	if len(parts) < 2 {
		return 0, false
	}
	n, err := strconv.Atoi(parts[1])
	return n, err == nil
}

func isOneof(tag string) bool { return reflect.StructTag(tag).Get("protobuf_oneof") != "" }

func namedPath(t types.Type) string {
	if n, ok := t.(*types.Named); ok && n.Obj().Pkg() != nil {
		return n.Obj().Pkg().Path() + "." + n.Obj().Name()
	}
	return ""
}

// value returns Go expressions building the same value as gogo type gt and as pulsar type pt.
func (g *gen) value(gt, pt types.Type) (string, string) {
	if g.skip != "" {
		return "nil", "nil"
	}
	g.depth++
	defer func() { g.depth-- }()
	if g.depth > 9 {
		g.skip = "nesting deeper than 9"
		return "nil", "nil"
	}
	gp := namedPath(gt)
	switch gp {
	case "cosmossdk.io/math.Int", "cosmossdk.io/math.LegacyDec":
		if b, ok := pt.Underlying().(*types.Basic); !ok || b.Kind() != types.String {
			g.skip = fmt.Sprintf("MISMATCH: %s: modules family encodes a custom scalar (%s, text) where the api family has %s", strings.Join(g.path, "."), gp, pt)
			return "nil", "nil"
		}
	}
	switch gp {
	case "cosmossdk.io/math.Int":
		v := g.fresh("i")
		g.decls = append(g.decls, fmt.Sprintf("%s := %s.NewInt(%d)", v, g.imp("cosmossdk.io/math"), 1000+g.n))
		return v, fmt.Sprintf("c20Text(%s)", v)
	case "cosmossdk.io/math.LegacyDec":
		v := g.fresh("d")
		g.decls = append(g.decls, fmt.Sprintf("%s := %s.LegacyNewDecWithPrec(%d, 2)", v, g.imp("cosmossdk.io/math"), 100+g.n))
		return v, fmt.Sprintf("c20Text(%s)", v)
	case "time.Time", "time.Duration":
		return g.timeValue(gp, pt, false)
	case "github.com/cosmos/cosmos-sdk/codec/types.Any", "github.com/cosmos/gogoproto/types.Any":
		g.skip = "Any"
		return "nil", "nil"
	}
	if ptr, ok := gt.(*types.Pointer); ok {
		if ep := namedPath(ptr.Elem()); ep == "time.Time" || ep == "time.Duration" {
			return g.timeValue(ep, pt, true)
		}
	}
	switch gu := gt.Underlying().(type) {
	case *types.Basic:
		pu, ok := pt.Underlying().(*types.Basic)
		if !ok {
			g.skip = fmt.Sprintf("MISMATCH: %s: kinds differ: %s / %s", strings.Join(g.path, "."), gt, pt)
			return "nil", "nil"
		}
		switch {
		case gu.Kind() == types.String:
			if pu.Kind() != types.String {
				g.skip = fmt.Sprintf("MISMATCH: %s: kinds differ: %s / %s", strings.Join(g.path, "."), gt, pt)
				return "nil", "nil"
			}
			// short on most paths; on the path that selects "long" every string and byte string of the message
			// is longer than 127 bytes, so that every length prefix around it needs a second varint byte
			lit := fmt.Sprintf("c20S(%s, long)", strconv.Quote(fmt.Sprintf("s%d", g.n+1)))
			g.n++
			g.hasStr = true
			return fmt.Sprintf("%s(%s)", g.typeStr(gt), lit), fmt.Sprintf("%s(%s)", g.typeStr(pt), lit)
		case gu.Kind() == types.Bool:
			v := g.fresh("b")
			g.decls = append(g.decls, fmt.Sprintf("%s := true\n\tif sel == %d {\n\t\t%s = verifBool(%q)\n\t}", v, g.leaves, v, v))
			g.leaves++
			return fmt.Sprintf("%s(%s)", g.typeStr(gt), v), fmt.Sprintf("%s(%s)", g.typeStr(pt), v)
		case gu.Info()&types.IsInteger != 0:
			if pu.Info()&types.IsInteger == 0 || gu.Kind() != pu.Kind() {
				g.skip = fmt.Sprintf("MISMATCH: %s: integer kinds differ: %s / %s", strings.Join(g.path, "."), gt, pt)
				return "nil", "nil"
			}
			v := g.fresh("n")
			_, isEnum := gt.(*types.Named)
			def := 300 + g.n
			leaf := func(goType, symExpr string, extra ...string) {
				d := fmt.Sprintf("%s := %s(%d)\n\tif sel == %d {\n\t\t%s = %s", v, goType, def, g.leaves, v, symExpr)
				for _, x := range extra {
					d += "\n\t\t" + x
				}
				d += "\n\t}"
				g.decls = append(g.decls, d)
				g.leaves++
			}
			switch {
			case isEnum: // enum: a few valid numbers
				def = 1
				leaf("int32", fmt.Sprintf("int32(verifChoice(%q, 3))", v))
			case gu.Kind() == types.Int64:
				leaf("int64", fmt.Sprintf("verifInt64(%q)", v))
			case gu.Kind() == types.Uint64:
				leaf("uint64", fmt.Sprintf("verifUint64(%q)", v))
			case gu.Kind() == types.Uint32:
				leaf("uint32", fmt.Sprintf("verifUint32(%q)", v))
			case gu.Kind() == types.Int32:
				leaf("int32", fmt.Sprintf("int32(verifInt64(%q))", v), fmt.Sprintf("verifAssume(int64(%s) == verifInt64(%q))", v, v))
			default:
				g.skip = "integer kind " + gu.String()
				return "nil", "nil"
			}
			return fmt.Sprintf("%s(%s)", g.typeStr(gt), v), fmt.Sprintf("%s(%s)", g.typeStr(pt), v)
		}
		g.skip = "basic kind " + gu.String()
		return "nil", "nil"
	case *types.Slice:
		ps, ok := pt.Underlying().(*types.Slice)
		if !ok {
			// casttype of bytes to a string-like type on the gogo side etc.
			g.skip = fmt.Sprintf("MISMATCH: %s: repeated/bytes in the modules family vs %s", strings.Join(g.path, "."), pt)
			return "nil", "nil"
		}
		if b, ok := gu.Elem().Underlying().(*types.Basic); ok && b.Kind() == types.Uint8 {
			lit := fmt.Sprintf("c20B([]byte{1, 2, %d}, long)", 3+g.n%200)
			g.n++
			g.hasStr = true
			return fmt.Sprintf("%s(%s)", g.typeStr(gt), lit), fmt.Sprintf("%s(%s)", g.typeStr(pt), lit)
		}
		var ge, pe []string
		for k := 0; k < 2; k++ {
			a, b := g.value(gu.Elem(), ps.Elem())
			ge, pe = append(ge, a), append(pe, b)
		}
		return fmt.Sprintf("%s{%s}", g.typeStr(gt), strings.Join(ge, ", ")), fmt.Sprintf("%s{%s}", g.typeStr(pt), strings.Join(pe, ", "))
	case *types.Pointer:
		pp, ok := pt.Underlying().(*types.Pointer)
		if !ok {
			g.skip = fmt.Sprintf("MISMATCH: %s: message in the modules family vs %s", strings.Join(g.path, "."), pt)
			return "nil", "nil"
		}
		a, b := g.structLit(gu.Elem(), pp.Elem())
		return "&" + a, "&" + b
	case *types.Struct:
		pp, ok := pt.Underlying().(*types.Pointer)
		if !ok {
			g.skip = fmt.Sprintf("MISMATCH: %s: message in the modules family vs %s", strings.Join(g.path, "."), pt)
			return "nil", "nil"
		}
		a, b := g.structLit(gt, pp.Elem())
		return a, "&" + b
	case *types.Map:
		// one entry (with two or more the modules family writes them in Go map order unless the file asks
		// for stable marshalling - entry order is outside the claim); string keys and string values may be
		// empty: an entry always carries both its key and its value field, default or not
		pm, ok := pt.Underlying().(*types.Map)
		if !ok {
			g.skip = fmt.Sprintf("MISMATCH: %s: map in the modules family vs %s", strings.Join(g.path, "."), pt)
			return "nil", "nil"
		}
		entry := func(gt, pt types.Type) (string, string) {
			gb, ok1 := gt.Underlying().(*types.Basic)
			pb, ok2 := pt.Underlying().(*types.Basic)
			if ok1 && ok2 && gb.Kind() == types.String && pb.Kind() == types.String {
				v := g.fresh("ms")
				g.decls = append(g.decls, fmt.Sprintf("%s := %q\n\tif sel == %d {\n\t\t%s = \"\"\n\t}", v, v, g.leaves, v))
				g.leaves++
				return fmt.Sprintf("%s(%s)", g.typeStr(gt), v), fmt.Sprintf("%s(%s)", g.typeStr(pt), v)
			}
			return g.value(gt, pt)
		}
		gk, pk := entry(gu.Key(), pm.Key())
		gv, pv := entry(gu.Elem(), pm.Elem())
		return fmt.Sprintf("%s{%s: %s}", g.typeStr(gt), gk, gv), fmt.Sprintf("%s{%s: %s}", g.typeStr(pt), pk, pv)
	}
	g.skip = fmt.Sprintf("unsupported gogo field type %s", gt)
	return "nil", "nil"
}

// timeValue: a time.Time / time.Duration of the modules family (stdtime / stdduration) against the api
// family's *timestamppb.Timestamp / *durationpb.Duration; seconds and nanoseconds are symbolic leaves
// within the range protobuf timestamps can carry.
func (g *gen) timeValue(gp string, pt types.Type, pointer bool) (string, string) {
	want := "google.golang.org/protobuf/types/known/timestamppb.Timestamp"
	if gp == "time.Duration" {
		want = "google.golang.org/protobuf/types/known/durationpb.Duration"
	}
	pp, ok := pt.(*types.Pointer)
	if !ok || namedPath(pp.Elem()) != want {
		g.skip = fmt.Sprintf("MISMATCH: %s: %s in the modules family vs %s", strings.Join(g.path, "."), gp, pt)
		return "nil", "nil"
	}
	tm := g.imp("time")
	if gp == "time.Time" {
		sv, nv := g.fresh("ts"), g.fresh("tn")
		g.decls = append(g.decls, fmt.Sprintf("%s := int64(%d)\n\tif sel == %d {\n\t\t%s = verifInt64(%q)\n\t\tverifAssume(%s >= -62135596800 && %s <= 253402300799)\n\t}", sv, 1700000000+g.n, g.leaves, sv, sv, sv, sv))
		g.leaves++
		g.decls = append(g.decls, fmt.Sprintf("%s := int64(%d)\n\tif sel == %d {\n\t\t%s = verifInt64(%q)\n\t\tverifAssume(%s >= 0 && %s < 1000000000)\n\t}", nv, 5+g.n, g.leaves, nv, nv, nv, nv))
		g.leaves++
		ge := fmt.Sprintf("%s.Unix(%s, %s).UTC()", tm, sv, nv)
		if pointer {
			tv := g.fresh("tp")
			g.decls = append(g.decls, fmt.Sprintf("%s := %s", tv, ge))
			ge = "&" + tv
		}
		return ge, fmt.Sprintf("&%s.Timestamp{Seconds: %s, Nanos: int32(%s)}", g.imp("google.golang.org/protobuf/types/known/timestamppb"), sv, nv)
	}
	// a duration is built from whole seconds and a nanosecond remainder of the same sign (the only form
	// the wire format carries), within +-2^33 seconds (a time.Duration holds +-2^63 ns, about +-2^33.1 s)
	sv, nv, dv := g.fresh("ds"), g.fresh("dn"), g.fresh("du")
	g.decls = append(g.decls, fmt.Sprintf("%s := int64(%d)\n\tif sel == %d {\n\t\t%s = verifInt64(%q)\n\t\tverifAssume(%s > -(1<<33) && %s < 1<<33)\n\t}", sv, 3600+g.n, g.leaves, sv, sv, sv, sv))
	g.leaves++
	g.decls = append(g.decls, fmt.Sprintf("%s := int64(0)\n\tif sel == %d {\n\t\t%s = verifInt64(%q)\n\t\tverifAssume(%s > -1000000000 && %s < 1000000000 && (%s >= 0 || %s <= 0) && (%s <= 0 || %s >= 0))\n\t}", nv, g.leaves, nv, nv, nv, nv, sv, nv, sv, nv))
	g.leaves++
	g.decls = append(g.decls, fmt.Sprintf("%s := %s*1000000000 + %s", dv, sv, nv))
	ge := fmt.Sprintf("%s.Duration(%s)", tm, dv)
	if pointer {
		tv := g.fresh("dp")
		g.decls = append(g.decls, fmt.Sprintf("%s := %s", tv, ge))
		ge = "&" + tv
	}
	return ge, fmt.Sprintf("&%s.Duration{Seconds: %s, Nanos: int32(%s)}", g.imp("google.golang.org/protobuf/types/known/durationpb"), sv, nv)
}

func (g *gen) structLit(gt, pt types.Type) (string, string) {
	if p := namedPath(gt); p == "github.com/cosmos/cosmos-sdk/codec/types.Any" || strings.HasSuffix(p, ".Any") {
		g.skip = "Any"
		return "nil", "nil"
	}
	gs, ok1 := gt.Underlying().(*types.Struct)
	ps, ok2 := pt.Underlying().(*types.Struct)
	if !ok1 || !ok2 {
		g.skip = fmt.Sprintf("not structs: %s / %s", gt, pt)
		return "nil", "nil"
	}
	pf := map[int]*types.Var{}
	for i := 0; i < ps.NumFields(); i++ {
		if isOneof(ps.Tag(i)) {
			g.skip = "oneof"
			return "nil", "nil"
		}
		if n, ok := fieldNum(ps.Tag(i)); ok {
			pf[n] = ps.Field(i)
		}
	}
	var ga, pa []string
	seen := 0
	for i := 0; i < gs.NumFields(); i++ {
		if isOneof(gs.Tag(i)) {
			g.skip = "oneof"
			return "nil", "nil"
		}
		n, ok := fieldNum(gs.Tag(i))
		if !ok {
			continue
		}
		f, ok := pf[n]
		if !ok {
			g.skip = fmt.Sprintf("MISMATCH: %s: field number %d (%s) of %s has no counterpart in %s", strings.Join(g.path, "."), n, gs.Field(i).Name(), gt, pt)
			return "nil", "nil"
		}
		seen++
		top := len(g.path) == 2
		g.path = append(g.path, gs.Field(i).Name())
		a, b := g.value(gs.Field(i).Type(), f.Type())
		g.path = g.path[:len(g.path)-1]
		if top && g.skip == "" {
			// a top-level field that has a default (empty) value which neither family writes: on the "tail" paths
			// every such field above a chosen field number is left empty, so that each field in turn is the last
			// one on the wire (a decoder's end-of-buffer checks are per field)
			zeroable := false
			switch u := gs.Field(i).Type().Underlying().(type) {
			case *types.Basic, *types.Slice, *types.Pointer, *types.Map:
				zeroable = true
				_ = u
			}
			if np := namedPath(gs.Field(i).Type()); np == "time.Duration" || np == "time.Time" {
				zeroable = false // non-nullable stdduration / stdtime fields: gogoproto writes them even when zero
			}
			if zeroable {
				a = fmt.Sprintf("c20If(tail == 0 || %d <= tail, %s)", n, a)
				b = fmt.Sprintf("c20If(tail == 0 || %d <= tail, %s)", n, b)
			}
			g.topNums = append(g.topNums, n)
		}
		ga = append(ga, gs.Field(i).Name()+": "+a)
		pa = append(pa, f.Name()+": "+b)
	}
	if seen != len(pf) {
		g.skip = fmt.Sprintf("MISMATCH: %s: %s has %d protobuf fields, %s has %d", strings.Join(g.path, "."), gt, seen, pt, len(pf))
		return "nil", "nil"
	}
	return fmt.Sprintf("%s{%s}", g.typeStr(gt), strings.Join(ga, ", ")), fmt.Sprintf("%s{%s}", g.typeStr(pt), strings.Join(pa, ", "))
}

func isPulsarMessage(t *types.Named) bool {
	s, ok := t.Underlying().(*types.Struct)
	if !ok {
		return false
	}
	for i := 0; i < s.NumFields(); i++ {
		if s.Field(i).Name() == "state" && strings.HasSuffix(s.Field(i).Type().String(), "protoimpl.MessageState") {
			return true
		}
	}
	return false
}

func main() {
	dir := flag.String("dir", "/repo/e2e", "module directory whose go.mod replaces api and modules with the local trees")
	out := flag.String("out", "", "output Go file")
	pkgname := flag.String("pkg", "zzverifc20", "package name of the generated file")
	flag.Parse()
	var paths []string
	for _, p := range pairs {
		paths = append(paths, p.gogo, p.api)
	}
	cfg := &packages.Config{Mode: packages.NeedName | packages.NeedTypes | packages.NeedImports | packages.NeedDeps, Dir: *dir,
		Env: append(os.Environ(), "GOFLAGS=-mod=readonly", "GOPROXY=off", "GOSUMDB=off", "GOTOOLCHAIN=local")}
	pkgs, err := packages.Load(cfg, paths...)
	if err != nil {
		fmt.Fprintln(os.Stderr, "load:", err)
		os.Exit(2)
	}
	byPath := map[string]*packages.Package{}
	for _, p := range pkgs {
		if len(p.Errors) > 0 {
			fmt.Fprintln(os.Stderr, "load error:", p.Errors[0])
			os.Exit(2)
		}
		byPath[p.PkgPath] = p
	}
	g := &gen{imports: map[string]string{}}
	var body strings.Builder
	var skipped, missing []string
	total := 0
	for _, pr := range pairs {
		gp, ap := byPath[pr.gogo], byPath[pr.api]
		if gp == nil || ap == nil {
			fmt.Fprintln(os.Stderr, "package not loaded:", pr.gogo, pr.api)
			os.Exit(2)
		}
		names := ap.Types.Scope().Names()
		sort.Strings(names)
		for _, name := range names {
			tn, ok := ap.Types.Scope().Lookup(name).(*types.TypeName)
			if !ok {
				continue
			}
			named, ok := tn.Type().(*types.Named)
			if !ok || !isPulsarMessage(named) || strings.HasPrefix(name, "fastReflection_") {
				continue
			}
			total++
			gobj, _ := gp.Types.Scope().Lookup(name).(*types.TypeName)
			if gobj == nil {
				missing = append(missing, pr.alias+"."+name)
				continue
			}
			g.decls, g.skip, g.n, g.depth, g.path, g.leaves, g.hasStr, g.topNums = nil, "", 0, 0, []string{pr.alias, name}, 0, false, nil
			ga, pa := g.structLit(gobj.Type(), named)
			if g.skip != "" {
				skipped = append(skipped, fmt.Sprintf("%s.%s: %s", pr.alias, name, g.skip))
				continue
			}
			fn := fmt.Sprintf("VerifC20_%s_%s", pr.alias, name)
			fmt.Fprintf(&body, "func %s() {\n\tverifExpect(\"compared\")\n", fn)
			// one numeric / boolean leaf is symbolic per path, the others keep a fixed value
			nsel := g.leaves
			if g.hasStr {
				nsel++
			}
			// tail paths: one per top-level field number except the largest
			sort.Ints(g.topNums)
			var tails []string
			for k := 0; k+1 < len(g.topNums); k++ {
				tails = append(tails, strconv.Itoa(g.topNums[k]))
			}
			base := nsel
			nsel += len(tails) + 1 // ... and one plain path: fixed numbers, short strings, every field present
			if nsel > 0 {
				fmt.Fprintf(&body, "\tsel := verifChoice(\"symbolicLeaf\", %d)\n", nsel)
			} else {
				fmt.Fprintf(&body, "\tsel := 0\n")
			}
			if g.hasStr {
				fmt.Fprintf(&body, "\tlong := sel == %d\n", g.leaves)
			}
			fmt.Fprintf(&body, "\ttail := 0\n")
			if len(tails) > 0 {
				fmt.Fprintf(&body, "\tif sel >= %d && sel < %d {\n\t\ttail = []int{%s}[sel-%d]\n\t}\n", base, base+len(tails), strings.Join(tails, ", "), base)
			}
			fmt.Fprintf(&body, "\t_, _ = tail, sel\n")
			for _, d := range g.decls {
				fmt.Fprintf(&body, "\t%s\n", d)
			}
			fmt.Fprintf(&body, "\tgv := &%s\n\tpv := &%s\n", ga, pa)
			fmt.Fprintf(&body, "\tc20Compare(gv, pv, func() c20Gogo { return new(%s) }, func() c20Pulsar { return new(%s) })\n}\n\n", g.typeStr(gobj.Type()), g.typeStr(named))
		}
	}
	// the front end's own findings: a message without counterpart, or fields that cannot be matched by number
	var mismatches []string
	for _, sk := range skipped {
		if strings.Contains(sk, "MISMATCH:") {
			mismatches = append(mismatches, sk)
		}
	}
	fmt.Fprintf(&body, "func VerifC20_Structure() {\n\tverifExpect(\"matched\")\n\tverifCover(\"matched\")\n")
	fmt.Fprintf(&body, "\tverifAssert(len(c20Missing) == 0, \"every message of the api family exists in the modules family\")\n")
	fmt.Fprintf(&body, "\tfor _, m := range c20Mismatches {\n\t\tc20ReportMismatch(m)\n\t}\n}\n\n")
	bodyText := body.String()
	var src strings.Builder
	fmt.Fprintf(&src, "// Code generated by c20gen from /repo's current protobuf code. DO NOT EDIT.\npackage %s\n\nimport (\n", *pkgname)
	var imps []string
	for p, a := range g.imports {
		if strings.Contains(bodyText, a+".") {
			imps = append(imps, fmt.Sprintf("\t%s %q", a, p))
		}
	}
	sort.Strings(imps)
	src.WriteString(strings.Join(imps, "\n"))
	src.WriteString("\n)\n\n")
	src.WriteString(bodyText)
	sort.Strings(skipped)
	fmt.Fprintf(&src, "// message types in both families: %d; mirrored: %d; skipped: %d; without gogo counterpart: %d\n", total, total-len(skipped)-len(missing), len(skipped), len(missing))
	fmt.Fprintf(&src, "var c20Skipped = []string{\n")
	for _, s := range skipped {
		fmt.Fprintf(&src, "\t%q,\n", s)
	}
	src.WriteString("}\n\nvar c20Mismatches = []string{\n")
	for _, m := range mismatches {
		fmt.Fprintf(&src, "\t%q,\n", m)
	}
	src.WriteString("}\n\nvar c20Missing = []string{\n")
	for _, s := range missing {
		fmt.Fprintf(&src, "\t%q,\n", s)
	}
	src.WriteString("}\n")
	if *out == "" {
		fmt.Print(src.String())
		return
	}
	if err := os.WriteFile(*out, []byte(src.String()), 0o644); err != nil {
		fmt.Fprintln(os.Stderr, err)
		os.Exit(2)
	}
	fmt.Fprintf(os.Stderr, "c20gen: %d message types, %d mirrored, %d skipped, %d without counterpart\n", total, total-len(skipped)-len(missing), len(skipped), len(missing))
}
