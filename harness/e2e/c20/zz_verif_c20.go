package e2e

// C20 support: the differential comparison used by every generated harness (zz_verif_c20_gen.go is
// produced by engine/cmd/c20gen from /repo's current protobuf code on every run).

import (
	"bytes"

	"google.golang.org/protobuf/proto"
)

type c20Gogo interface {
	Marshal() ([]byte, error)
	Unmarshal([]byte) error
}

type c20Pulsar interface{ proto.Message }

type c20Texter interface{ Marshal() ([]byte, error) }

// c20Text: the protobuf string form of a custom scalar (math.Int, math.LegacyDec)
func c20Text(v c20Texter) string {
	b, err := v.Marshal()
	if err != nil {
		verifFail("custom scalar does not marshal")
	}
	return string(b)
}

func c20PMarshal(m proto.Message) ([]byte, error) {
	return proto.MarshalOptions{AllowPartial: true}.Marshal(m)
}

func c20PUnmarshal(b []byte, m proto.Message) error {
	return proto.UnmarshalOptions{AllowPartial: true, Merge: true}.Unmarshal(b, m)
}

// c20Compare: the same value built in both families encodes to the same bytes; the bytes of either
// decode in the other and re-encode to the same bytes.
func c20Compare(gv c20Gogo, pv c20Pulsar, newG func() c20Gogo, newP func() c20Pulsar) {
	b1, err1 := gv.Marshal()
	b2, err2 := c20PMarshal(pv)
	verifAssert(err1 == nil && err2 == nil, "both families encode the value")
	verifCover("compared")
	verifAssert(len(b1) == len(b2), "both families produce encodings of the same length")
	verifAssert(bytes.Equal(b1, b2), "both families produce the same bytes")
	// api bytes -> modules family -> bytes
	g2 := newG()
	verifAssert(g2.Unmarshal(b2) == nil, "the modules family decodes the api family's bytes")
	b3, err3 := g2.Marshal()
	verifAssert(err3 == nil && bytes.Equal(b3, b2), "decoding the api bytes in the modules family and re-encoding gives the same bytes")
	// modules bytes -> api family -> bytes
	p2 := newP()
	verifAssert(c20PUnmarshal(b1, p2) == nil, "the api family decodes the modules family's bytes")
	b4, err4 := c20PMarshal(p2)
	verifAssert(err4 == nil && bytes.Equal(b4, b1), "decoding the modules bytes in the api family and re-encoding gives the same bytes")
}

// c20ReportMismatch: a message whose fields cannot be mirrored across the two families (the generator could
// not build the same value in both).  The one listed case: proto/irismod/coinswap/coinswap.proto declares
// Params.fee as cosmos.base.v1beta1.Coin with the gogoproto customtype LegacyDec, so the modules family
// encodes decimal text where the api family expects a nested Coin message.
func c20ReportMismatch(m string) {
	known := len(m) > 0 && (c20Has(m, "coinswap.Params.Fee:") || c20Has(m, ".Params.Fee:") && c20Has(m, "coinswap."))
	verifAssertKnown(false, "every field has the same protobuf type in both families: "+m, "C20-coinswap-fee-type", known)
}

func c20Has(s, sub string) bool { return bytes.Contains([]byte(s), []byte(sub)) }

// Reference wire format of the two well-known types the messages embed (google.protobuf.Timestamp and
// Duration: field 1 seconds int64, field 2 nanos int32, both varints, defaults omitted).  The engine
// redirects protobuf-go's table-driven (unsafe) encoder for these two types here; natively the real
// library runs.
func verifWKTMarshal(seconds int64, nanos int32) []byte {
	var b []byte
	if seconds != 0 {
		b = c20Varint(append(b, 0x08), uint64(seconds))
	}
	if nanos != 0 {
		b = c20Varint(append(b, 0x10), uint64(int64(nanos)))
	}
	return b
}

func c20Varint(b []byte, v uint64) []byte {
	for v >= 0x80 {
		b = append(b, byte(v&0x7f|0x80))
		v >>= 7
	}
	return append(b, byte(v))
}

func verifWKTUnmarshal(b []byte) (seconds int64, nanos int32, ok bool) {
	for len(b) > 0 {
		tag := b[0]
		b = b[1:]
		if tag != 0x08 && tag != 0x10 {
			return 0, 0, false // other fields do not occur in what either family writes
		}
		var v uint64
		shift, done := uint(0), false
		for k := 0; k < 10 && k < len(b); k++ {
			c := b[k]
			v |= uint64(c&0x7f) << shift
			shift += 7
			if c < 0x80 {
				b, done = b[k+1:], true
				break
			}
		}
		if !done {
			return 0, 0, false
		}
		if tag == 0x08 {
			seconds = int64(v)
		} else {
			nanos = int32(v)
		}
	}
	return seconds, nanos, true
}

// c20S / c20B: the string / byte-string leaves of a generated value: short, or - on the path that selects
// "long" - 131+ bytes, beyond the one-byte range of a protobuf length prefix.
func c20S(s string, long bool) string {
	if long {
		return s + "-0123456789abcdef0123456789abcdef0123456789abcdef0123456789abcdef0123456789abcdef0123456789abcdef0123456789abcdef0123456789abcdef"
	}
	return s
}

func c20B(b []byte, long bool) []byte {
	if long {
		out := append([]byte{}, b...)
		for i := 0; i < 130; i++ {
			out = append(out, byte(i))
		}
		return out
	}
	return b
}

// c20If: a field's value, or - on a tail path, for the fields above the chosen field number - its empty value.
func c20If[T any](keep bool, v T) T {
	if keep {
		return v
	}
	var zero T
	return zero
}
