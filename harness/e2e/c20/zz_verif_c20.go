package zzverifc20

import (
	"bytes"
	"fmt"

	"google.golang.org/protobuf/proto"

	api "mods.irisnet.org/api/irismod/coinswap"
	"mods.irisnet.org/modules/coinswap/types"
)

func VerifC20_Probe() {
	deadline, buy := verifInt64("deadline"), verifBool("buy")
	g := &types.MsgSwapOrder{Deadline: deadline, IsBuyOrder: buy}
	p := &api.MsgSwapOrder{Deadline: deadline, IsBuyOrder: buy}
	b1, err1 := g.Marshal()
	b2, err2 := proto.MarshalOptions{AllowPartial: true}.Marshal(p)
	verifAssert(err1 == nil && err2 == nil, "both families marshal")
	verifPrint(fmt.Sprintf("len1=%d len2=%d", len(b1), len(b2)))
	verifAssert(len(b1) == len(b2), "same length")
	verifAssert(bytes.Equal(b1, b2), "same bytes")
}
