package keeper

import (
	"bytes"
	"encoding/hex"

	"mods.irisnet.org/modules/record/types"
)

// C19: two successive creations (possibly byte-identical, same creator, same or different tx) get
// different ids; each record reads back exactly as submitted, before and after the other creation;
// the per-chain counter advances by one per record.
func VerifC19_TwoCreations() {
	verifExpect("identical-contents", "different-contents")
	e := newVEnv(types.StoreKey, 10)
	k := NewKeeper(e.cdc, e.key)
	creator := vAddr(1)
	c0 := verifUint32("counter")
	verifAssume(c0 < 0xfffffffe) // uint32 wrap after 4*10^9 records is outside the claim
	if c0 != 0 || verifChoice("counterStored", 2) == 1 {
		k.SetIntraTxCounter(e.ctx, c0)
	} else {
		verifAssume(c0 == 0)
	}
	contentA := []types.Content{{Digest: "digest-a", DigestAlgo: "sha256", URI: "uri", Meta: "meta"}}
	switch verifChoice("firstShape", 4) {
	case 3: // fields with leading / trailing white space and mixed case: stored and returned byte for byte
		contentA = []types.Content{{Digest: "Digest-A\n", DigestAlgo: " SHA256", URI: "uri\t", Meta: " meta "}, {Digest: " digest-a", DigestAlgo: "sha256", URI: "", Meta: ""},
			{Digest: "0D8736D5AbCdEf", DigestAlgo: "SHA256", URI: "HTTP://Example/A", Meta: "0xDEADBEEF"}, // well-formed hex in upper and mixed case
			// fields that happen to be well-formed documents of some notation with insignificant white space
			// (JSON, a URL with an encodable character, base64 padding): stored byte for byte
			{Digest: "ZGlnZXN0LWE= ", DigestAlgo: "sha256", URI: "https://example.org/a b?x=1&y=%7E", Meta: "{\"name\": \"annual report\",\n \"tags\": [\"2024\", \"audited\"] }"}}
	case 1: // the same digest published at a second location
		contentA = append(contentA, types.Content{Digest: "digest-a", DigestAlgo: "sha256", URI: "mirror", Meta: "meta"})
	case 2: // a byte-identical entry repeated, and a different one
		contentA = append(contentA, contentA[0], types.Content{Digest: "digest-c", DigestAlgo: "sha256", URI: "uri", Meta: "meta"})
	}
	contentB := []types.Content{{Digest: "digest-b", DigestAlgo: "sha256", URI: "uri", Meta: "meta"}}
	second := contentA
	same := verifChoice("sameContents", 2) == 0
	if !same {
		second = contentB
	}
	tx1, tx2 := []byte("tx-one"), []byte("tx-one")
	if verifChoice("sameTx", 2) == 1 {
		tx2 = []byte("tx-two")
	}
	srv := NewMsgServerImpl(k)
	// the messages carry copies: what the handler does to its input must not touch the reference the read-back is compared with
	msg1 := &types.MsgCreateRecord{Contents: append([]types.Content{}, contentA...), Creator: creator.String()}
	msg2 := &types.MsgCreateRecord{Contents: append([]types.Content{}, second...), Creator: creator.String()}
	verifAssume(msg1.ValidateBasic() == nil && msg2.ValidateBasic() == nil)
	r1, err1 := srv.CreateRecord(e.ctx.WithTxBytes(tx1), msg1)
	verifAssert(err1 == nil, "record creation succeeds")
	id1, _ := hex.DecodeString(r1.Id)
	got1, found1 := k.GetRecord(e.ctx, id1)
	verifAssert(found1 && verifDeepEqual(got1.Contents, contentA) && got1.Creator == creator.String(), "record reads back exactly as submitted")
	verifAssert(k.GetIntraTxCounter(e.ctx) == c0+1, "counter advances by one")
	r2, err2 := srv.CreateRecord(e.ctx.WithTxBytes(tx2), msg2)
	verifAssert(err2 == nil, "second creation succeeds")
	id2, _ := hex.DecodeString(r2.Id)
	if same {
		verifCover("identical-contents")
	} else {
		verifCover("different-contents")
	}
	verifAssert(!bytes.Equal(id1, id2), "two creations never receive the same id")
	got1b, found1b := k.GetRecord(e.ctx, id1)
	verifAssert(found1b && got1b.TxHash == got1.TxHash && verifDeepEqual(got1b.Contents, contentA) && got1b.Creator == creator.String(), "the first record is unchanged by the second creation")
	got2, found2 := k.GetRecord(e.ctx, id2)
	verifAssert(found2 && verifDeepEqual(got2.Contents, second) && got2.Creator == creator.String(), "second record reads back exactly as submitted")
	verifAssert(k.GetIntraTxCounter(e.ctx) == c0+2, "counter advances by one per record")
	// the module's public read path: the query service, under the ids the creators were given
	for i, id := range []string{r1.Id, r2.Id} {
		want := []*types.Record{&got1, &got2}[i]
		resp, qerr := k.Record(e.ctx, &types.QueryRecordRequest{RecordId: id})
		verifAssert(qerr == nil && resp != nil && resp.Record != nil && verifDeepEqual(*resp.Record, *want), "the query service returns each record under the id its creator was given")
	}
}
