package record

import (
	"encoding/hex"

	"mods.irisnet.org/modules/record/keeper"
	"mods.irisnet.org/modules/record/types"
)

// C12 record: records created through real messages can be read back by the same id after
// export -> import.
func VerifC12_Record() {
	verifExpect("roundtrip")
	e := newVEnv(types.StoreKey, 10)
	k := keeper.NewKeeper(e.cdc, e.key)
	creator := vAddr(1)
	srv := keeper.NewMsgServerImpl(k)
	n := verifChoice("records", 2) + 1
	var ids [][]byte
	for i := 0; i < n; i++ {
		msg := &types.MsgCreateRecord{Contents: []types.Content{{Digest: []string{"digest-a", "digest-b"}[i], DigestAlgo: "sha256", URI: "u", Meta: "m"}}, Creator: creator.String()}
		r, err := srv.CreateRecord(e.ctx.WithTxBytes([]byte{byte(i)}), msg)
		verifAssume(err == nil)
		id, _ := hex.DecodeString(r.Id)
		ids = append(ids, id)
	}
	g := ExportGenesis(e.ctx, k)
	verifAssert(types.ValidateGenesis(*g) == nil, "the exported genesis passes the module's own validation")
	e2 := newVEnv(types.StoreKey, 10)
	k2 := keeper.NewKeeper(e2.cdc, e2.key)
	panicked, what := verifCatch(func() { InitGenesis(e2.ctx, k2, *g) })
	if panicked {
		verifPrint(what)
	}
	verifAssert(!panicked, "the exported genesis imports without panic")
	verifCover("roundtrip")
	for _, id := range ids {
		r1, ok1 := k.GetRecord(e.ctx, id)
		r2, ok2 := k2.GetRecord(e2.ctx, id)
		verifAssertKnown(ok1 && ok2 && verifDeepEqual(r1, r2), "a record is still found under its id after re-import", "C12-record-ids", true)
	}
}
