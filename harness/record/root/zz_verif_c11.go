package record

import (
	"mods.irisnet.org/modules/record/keeper"
	"mods.irisnet.org/modules/record/types"
)

// C11 (what a node did besides the committed history leaves no trace): two replicas apply the same committed
// history - one record, then another - from the same stored counter. Between the two creations the second
// replica alone goes through something that is not part of the history: a transaction that created a record
// and was then rolled back, a creation executed on a branch of the state that is never written back (what
// CheckTx and simulations do), or a process restart (a new keeper over the same stores). Both replicas must
// hand out the same ids and end with the same store, key for key.
func VerifC11_RecordOffChainDisturbance() {
	verifExpect("rolled-back", "discarded-branch", "restart", "undisturbed")
	creator := vAddr(1)
	c0 := verifUint32("counter")
	verifAssume(c0 < 0xfffffff0)
	stored := c0 != 0 || verifChoice("counterStored", 2) == 1
	contents := func(tag string) []types.Content {
		return []types.Content{{Digest: "digest-" + tag, DigestAlgo: "sha256", URI: "uri", Meta: "meta"}}
	}
	same := verifChoice("sameContents", 2) == 0
	secondTag := "a"
	if !same {
		secondTag = "b"
	}
	disturbance := verifChoice("disturbance", 4)
	run := func(disturbed bool) (*vEnv, string, string) {
		e := newVEnv(types.StoreKey, 10)
		k := keeper.NewKeeper(e.cdc, e.key)
		if stored {
			k.SetIntraTxCounter(e.ctx, c0)
		}
		srv := keeper.NewMsgServerImpl(k)
		r1, err := srv.CreateRecord(e.ctx.WithTxBytes([]byte("tx-one")), &types.MsgCreateRecord{Contents: contents("a"), Creator: creator.String()})
		if err != nil {
			verifFail("record creation refused")
		}
		if disturbed {
			switch disturbance {
			case 1:
				// a transaction creates a record and fails afterwards: everything it wrote is rolled back
				_, _ = e.verifDeliver(func() error {
					if _, err := srv.CreateRecord(e.ctx.WithTxBytes([]byte("tx-failed")), &types.MsgCreateRecord{Contents: contents("x"), Creator: creator.String()}); err != nil {
						return err
					}
					return types.ErrUnknownRecord
				})
				verifCover("rolled-back")
			case 2:
				// the creation runs on a branch of the state that is never written back
				cctx, _ := e.ctx.CacheContext()
				if _, err := srv.CreateRecord(cctx.WithTxBytes([]byte("tx-checked")), &types.MsgCreateRecord{Contents: contents("x"), Creator: creator.String()}); err != nil {
					verifFail("record creation refused on a branch")
				}
				verifCover("discarded-branch")
			case 3:
				// the process restarts: a new keeper over the same stores
				k = keeper.NewKeeper(e.cdc, e.key)
				srv = keeper.NewMsgServerImpl(k)
				verifCover("restart")
			default:
				verifCover("undisturbed")
			}
		}
		r2, err := srv.CreateRecord(e.ctx.WithTxBytes([]byte("tx-two")), &types.MsgCreateRecord{Contents: contents(secondTag), Creator: creator.String()})
		if err != nil {
			verifFail("second record creation refused")
		}
		return e, r1.Id, r2.Id
	}
	ea, a1, a2 := run(false)
	eb, b1, b2 := run(true)
	verifAssert(a1 == b1, "both replicas give the first record the same id")
	verifAssert(a2 == b2, "the id of the next record depends on the committed history only")
	eq := verifFingerprint([]*vEnv{ea}).equal(verifFingerprint([]*vEnv{eb}))
	verifAssert(eq, "both replicas end with the same store, key for key")
	verifAssert(a1 != a2, "the two records have different ids")
}
