package record

import (
	"bytes"
	"encoding/hex"

	"mods.irisnet.org/modules/record/keeper"
	"mods.irisnet.org/modules/record/types"
)

// C19 across a block boundary: the module's own EndBlock/BeginBlock hooks run between two creations
// (byte-identical or not, arbitrary stored counter); the ids still differ and the first record is intact.
func VerifC19_AcrossBlocks() {
	verifExpect("identical-contents", "different-contents")
	e := newVEnv(types.StoreKey, 10)
	k := keeper.NewKeeper(e.cdc, e.key)
	am := NewAppModule(e.cdc, k, nil, nil) // account/bank keepers are used by the simulation code only
	creator := vAddr(1)
	c0 := verifUint32("counter")
	verifAssume(c0 < 0xfffffffe)
	if c0 != 0 || verifChoice("counterStored", 2) == 1 {
		k.SetIntraTxCounter(e.ctx, c0)
	}
	contentA := []types.Content{{Digest: "digest-a", DigestAlgo: "sha256", URI: "uri", Meta: "meta"}}
	contentB := []types.Content{{Digest: "digest-b", DigestAlgo: "sha256", URI: "uri", Meta: "meta"}}
	second := contentA
	same := verifChoice("sameContents", 2) == 0
	if !same {
		second = contentB
	}
	srv := keeper.NewMsgServerImpl(k)
	tx := []byte("tx-one")
	if err := am.BeginBlock(e.ctx); err != nil {
		verifFail("BeginBlock failed")
	}
	r1, err1 := srv.CreateRecord(e.ctx.WithTxBytes(tx), &types.MsgCreateRecord{Contents: append([]types.Content{}, contentA...), Creator: creator.String()})
	verifAssert(err1 == nil, "record creation succeeds")
	id1, _ := hex.DecodeString(r1.Id)
	got1, _ := k.GetRecord(e.ctx, id1)
	blocks := verifChoice("blocks", 3) // 0: same block, 1: next block, 2: two blocks later
	ctx := e.ctx
	for b := 0; b < blocks; b++ {
		if err := am.EndBlock(ctx); err != nil {
			verifFail("EndBlock failed")
		}
		ctx = ctx.WithBlockHeight(ctx.BlockHeight() + 1)
		if err := am.BeginBlock(ctx); err != nil {
			verifFail("BeginBlock failed")
		}
	}
	if verifChoice("restartFromGenesis", 2) == 1 {
		// the chain is exported and restarted from that genesis between the two creations
		g := ExportGenesis(ctx, k)
		e2 := newVEnv(types.StoreKey, ctx.BlockHeight())
		k = keeper.NewKeeper(e2.cdc, e2.key)
		InitGenesis(e2.ctx, k, *g)
		srv = keeper.NewMsgServerImpl(k)
		ctx = e2.ctx
		// ids of imported records follow the import order (listed finding C12-record-ids); here one record
		it := k.RecordsIterator(ctx)
		verifAssume(it.Valid())
		id1 = append([]byte{}, it.Key()[len(types.RecordKey):]...)
		it.Close()
		got1, _ = k.GetRecord(ctx, id1)
	}
	r2, err2 := srv.CreateRecord(ctx.WithTxBytes(tx), &types.MsgCreateRecord{Contents: append([]types.Content{}, second...), Creator: creator.String()})
	verifAssert(err2 == nil, "second creation succeeds")
	id2, _ := hex.DecodeString(r2.Id)
	if same {
		verifCover("identical-contents")
	} else {
		verifCover("different-contents")
	}
	verifAssert(!bytes.Equal(id1, id2), "two creations never receive the same id (across blocks)")
	got1b, found := k.GetRecord(ctx, id1)
	verifAssert(found && verifDeepEqual(got1, got1b), "the first record is unchanged by a later creation")
	got2, found2 := k.GetRecord(ctx, id2)
	verifAssert(found2 && got2.Contents[0] == second[0] && got2.Creator == creator.String(), "second record reads back as submitted")
}
