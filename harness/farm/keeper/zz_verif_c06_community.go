package keeper

import (
	"context"
	"math/big"

	sdkmath "cosmossdk.io/math"
	sdk "github.com/cosmos/cosmos-sdk/types"
	distrtypes "github.com/cosmos/cosmos-sdk/x/distribution/types"
	v1 "github.com/cosmos/cosmos-sdk/x/gov/types/v1"

	"mods.irisnet.org/modules/farm/types"
)

// fmDistr: the distribution keeper as the farm module sees it - the fee pool record
type fmDistr struct{ pool *distrtypes.FeePool }

func (d fmDistr) GetFeePool(ctx context.Context) (distrtypes.FeePool, error) { return *d.pool, nil }
func (d fmDistr) SetFeePool(ctx context.Context, p distrtypes.FeePool) error { *d.pool = p; return nil }

// fmGov: the gov keeper as the proposal hooks see it - the final status of one proposal
type fmGov struct {
	types.GovKeeper
	status v1.ProposalStatus
}

func (g fmGov) GetProposal(ctx context.Context, id uint64) (v1.Proposal, error) {
	return v1.Proposal{Id: id, Status: g.status}, nil
}

// C06 "the remaining budget is returned to the creator (or community pool) exactly once": the life of a pool
// funded from the community pool, step by step, with the community pool's two books - the coins in the
// distribution module account and the fee-pool record - moving together:
//
//	op 0  funds applied for are escrowed when the proposal is submitted (escrowFromFeePool)
//	op 1  the proposal ends: passed - the escrow record is dropped (the funds went into the pool, op 2);
//	      rejected, failed or short of its deposit - the self-bond returns to the proposer and the applied
//	      funds to the community pool, once
//	op 2  the passed proposal creates the pool from the escrowed funds, owned by the community pool
//	op 3  the pool ends: what is left of the budget returns to the community pool (coins and record)
func VerifC06_CommunityPool() {
	verifExpect("escrowed", "refunded", "created", "ended", "refused")
	const h = int64(20)
	e := newFmEnv(h)
	zero, one, w := big.NewInt(0), big.NewInt(1), verifPow2(60)
	e.bank.modules[types.EscrowCollector] = nil
	community := vModuleAddr(fmCommunity)
	escrow := vModuleAddr(types.EscrowCollector)
	poolDec := verifDec("communityPoolRecord", zero, verifMul(verifPow2(62), verifPow10(18)))
	fp := &distrtypes.FeePool{CommunityPool: sdk.DecCoins{}}
	if poolDec.IsPositive() {
		fp.CommunityPool = sdk.DecCoins{sdk.DecCoin{Denom: fmReward, Amount: poolDec}}
	}
	gov := fmGov{status: []v1.ProposalStatus{v1.StatusPassed, v1.StatusRejected, v1.StatusFailed}[verifChoice("proposalStatus", 3)]}
	e.k = NewKeeper(e.cdc, e.key, e.bank, e.acc, fmDistr{fp}, gov, fmCoinswap{}, fmFeeCollector, fmCommunity, vAddr(9).String())
	if err := e.k.SetParams(e.ctx, types.DefaultParams()); err != nil {
		verifFail("default params rejected")
	}
	// the distribution module account holds at least the integer part of the community pool
	e.bank.fund(community, fmReward, poolDec.TruncateInt().Add(verifIntIn("otherDistributionFunds", zero, w)))
	applied, bond := verifIntIn("fundApplied", one, w), verifIntIn("fundSelfBond", zero, w)
	proposer := e.a
	rec := func() *big.Int { return fp.CommunityPool.AmountOf(fmReward).BigInt() } // 18-decimal raw
	e18 := verifPow10(18)
	bal := func(a sdk.AccAddress) *big.Int { return e.bal(a, fmReward) }
	ctx := e.at(h)
	switch verifChoice("op", 4) {
	case 0:
		c0, x0, r0 := bal(community), bal(escrow), rec()
		err, _ := e.verifDeliver(func() error {
			return e.k.escrowFromFeePool(ctx, sdk.NewCoins(sdk.Coin{Denom: fmReward, Amount: applied}))
		})
		if err != nil {
			verifCover("refused")
			*fp = distrtypes.FeePool{CommunityPool: fp.CommunityPool} // (the record is only written on success)
			verifAssert(bal(community).Cmp(c0) == 0 && bal(escrow).Cmp(x0) == 0 && rec().Cmp(r0) == 0, "a refused escrow changes nothing")
			verifAssert(verifMul(applied.BigInt(), e18).Cmp(r0) > 0, "funds the community pool holds can be applied for")
			return
		}
		verifCover("escrowed")
		verifAssert(verifSub(c0, bal(community)).Cmp(applied.BigInt()) == 0 && verifSub(bal(escrow), x0).Cmp(applied.BigInt()) == 0, "exactly the applied funds move from the distribution account into the proposal escrow")
		verifAssert(verifSub(r0, rec()).Cmp(verifMul(applied.BigInt(), e18)) == 0, "the community pool record falls by exactly the applied funds")
	case 1:
		info := types.EscrowInfo{Proposer: proposer.String(), FundApplied: sdk.NewCoins(sdk.Coin{Denom: fmReward, Amount: applied}), ProposalId: 7}
		if bond.IsPositive() {
			info.FundSelfBond = sdk.NewCoins(sdk.Coin{Denom: fmReward, Amount: bond})
		}
		e.k.SetEscrowInfo(ctx, info)
		e.bank.fund(escrow, fmReward, applied.Add(bond).Add(verifIntIn("otherEscrows", zero, w)))
		c0, x0, p0, r0 := bal(community), bal(escrow), bal(proposer), rec()
		hook := NewGovHook(e.k)
		short := verifChoice("failedMinDeposit", 2) == 1
		if short {
			hook.AfterProposalFailedMinDeposit(ctx, 7)
		} else {
			hook.AfterProposalVotingPeriodEnded(ctx, 7)
		}
		_, still := e.k.GetEscrowInfo(ctx, 7)
		verifAssert(!still, "the escrow record of a finished proposal is dropped")
		if !short && gov.status == v1.StatusPassed {
			verifCover("created")
			verifAssert(bal(community).Cmp(c0) == 0 && bal(escrow).Cmp(x0) == 0 && bal(proposer).Cmp(p0) == 0 && rec().Cmp(r0) == 0, "a passed proposal's escrow is not refunded (it funds the pool)")
		} else {
			verifCover("refunded")
			verifAssert(verifSub(bal(proposer), p0).Cmp(bond.BigInt()) == 0, "the self-bond returns to the proposer")
			verifAssert(verifSub(bal(community), c0).Cmp(applied.BigInt()) == 0 && verifSub(rec(), r0).Cmp(verifMul(applied.BigInt(), e18)) == 0, "the applied funds return to the community pool: coins and record")
			verifAssert(verifSub(x0, bal(escrow)).Cmp(verifAdd(applied.BigInt(), bond.BigInt())) == 0, "the proposal escrow gives up exactly this proposal's funds")
		}
		// a second notification for the same proposal pays nothing again
		c1, x1, p1, r1 := bal(community), bal(escrow), bal(proposer), rec()
		hook.AfterProposalVotingPeriodEnded(ctx, 7)
		hook.AfterProposalFailedMinDeposit(ctx, 7)
		verifAssert(bal(community).Cmp(c1) == 0 && bal(escrow).Cmp(x1) == 0 && bal(proposer).Cmp(p1) == 0 && rec().Cmp(r1) == 0, "the escrow of a proposal is refunded at most once")
	case 2:
		rpb := verifIntIn("rpb", one, w)
		e.bank.fund(escrow, fmReward, applied.Add(bond).Add(verifIntIn("otherEscrows", zero, w)))
		total := applied.Add(bond)
		p := &types.CommunityPoolCreateFarmProposal{Title: "t", Description: "d", PoolDescription: "pool", LptDenom: fmLpt,
			RewardPerBlock: sdk.NewCoins(sdk.Coin{Denom: fmReward, Amount: rpb}), FundApplied: sdk.NewCoins(sdk.Coin{Denom: fmReward, Amount: applied})}
		if bond.IsPositive() {
			p.FundSelfBond = sdk.NewCoins(sdk.Coin{Denom: fmReward, Amount: bond})
		}
		x0, m0 := bal(escrow), e.mod(fmReward)
		err, _ := e.verifDeliver(func() error { return e.k.HandleCreateFarmProposal(ctx, p) })
		if err != nil {
			verifCover("refused")
			verifAssert(bal(escrow).Cmp(x0) == 0 && e.mod(fmReward).Cmp(m0) == 0, "a failed pool creation leaves the proposal escrow intact (it is refunded by the proposal hook)")
			return
		}
		verifCover("created")
		verifAssert(verifSub(x0, bal(escrow)).Cmp(total.BigInt()) == 0 && verifSub(e.mod(fmReward), m0).Cmp(total.BigInt()) == 0, "exactly the escrowed funds become the pool's budget in the farm escrow")
		var pool types.FarmPool
		n := 0
		e.k.IteratorAllPools(ctx, func(q types.FarmPool) { pool = q; n++ })
		rules := e.k.GetRewardRules(ctx, pool.Id)
		verifAssert(n == 1 && pool.Creator == community.String() && !pool.Editable && pool.StartHeight == h, "the pool belongs to the community pool, cannot be edited or destroyed, and starts now")
		verifAssert(len(rules) == 1 && rules[0].TotalReward.Equal(total) && rules[0].RemainingReward.Equal(total) && rules[0].RewardPerBlock.Equal(rpb), "the whole escrow is the budget, nothing released yet")
		verifAssert(total.BigInt().Cmp(verifMul(rpb.BigInt(), big.NewInt(pool.EndHeight-pool.StartHeight))) >= 0 && e.store().Has(types.KeyActiveFarmPool(pool.EndHeight, pool.Id)), "F5/F4 the budget pays every block to the end height, where the pool is queued")
	case 3:
		rpb := verifIntIn("rpb", one, w)
		remaining := verifIntIn("remaining", zero, w)
		locked := verifIntIn("locked", zero, w)
		gap := int64(verifChoice("gap", 3))
		verifAssume(remaining.BigInt().Cmp(verifMul(rpb.BigInt(), big.NewInt(gap))) >= 0) // F5
		st := fmState{locked: locked, total: remaining.Add(sdkmath.NewInt(9)), remaining: remaining, rpb: rpb, rps: sdkmath.LegacyZeroDec(), start: 5, last: h - gap, end: h}
		pool := e.seedPool(st)
		pool.Creator, pool.Editable = community.String(), false
		e.k.SetPool(e.ctx, pool)
		e.bank.fund(vModuleAddr(types.ModuleName), fmLpt, locked)
		e.bank.fund(vModuleAddr(types.ModuleName), fmReward, remaining)
		c0, m0, r0, col0 := bal(community), e.mod(fmReward), rec(), e.collector()
		_, err := e.k.Refund(ctx, pool)
		released := big.NewInt(0)
		if gap > 0 && locked.IsPositive() {
			released = verifMul(rpb.BigInt(), big.NewInt(gap))
		}
		left := verifSub(remaining.BigInt(), released)
		after, _ := e.k.GetPool(ctx, pool.Id)
		verifAssert(after.EndHeight == h && !e.store().Has(types.KeyActiveFarmPool(h, pool.Id)) && e.k.GetRewardRules(ctx, pool.Id)[0].RemainingReward.IsZero(), "the pool is ended, dequeued and keeps no budget")
		verifAssert(verifSub(e.collector(), col0).Cmp(released) == 0, "the last blocks are released to the farmers first")
		if left.Sign() > 0 {
			verifCover("ended")
			verifAssert(err == nil, "returning what is left to the community pool does not fail")
			verifAssert(verifSub(bal(community), c0).Cmp(left) == 0 && verifSub(m0, e.mod(fmReward)).Cmp(remaining.BigInt()) == 0, "exactly what is left of the budget goes to the distribution account")
			verifAssert(verifSub(rec(), r0).Cmp(verifMul(left, e18)) == 0, "the community pool record grows by exactly the same amount")
		} else {
			verifCover("refused")
			verifAssert(bal(community).Cmp(c0) == 0 && rec().Cmp(r0) == 0, "nothing left: nothing returned")
		}
	}
}
