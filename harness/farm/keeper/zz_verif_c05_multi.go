package keeper

import (
	"math/big"

	sdkmath "cosmossdk.io/math"
	sdk "github.com/cosmos/cosmos-sdk/types"

	"mods.irisnet.org/modules/farm/types"
)

// Two reward denominations.  The property quantifies over 1..max reward denominations "with different
// exhaustion heights": every rule of a pool has its own budget, rate, accumulator and debt entry, and
// every identity of the one-denomination steps has to hold per rule, independently of the other rule.
const fmReward2 = "uiris" // sorts after "stake": rules are stored and iterated in denomination order

type fmRule struct {
	denom                       string
	total, remaining, rpb, debt sdkmath.Int
	rps                         sdkmath.LegacyDec
}

func (e *fmEnv) seedPool2(locked sdkmath.Int, start, last, end int64, rules []fmRule) types.FarmPool {
	e.poolID = "farm-1"
	e.k.SetSequence(e.ctx, 1)
	pool := types.FarmPool{Id: e.poolID, Creator: e.creator.String(), Description: "p", StartHeight: start, EndHeight: end,
		LastHeightDistrRewards: last, Editable: true, TotalLptLocked: sdk.Coin{Denom: fmLpt, Amount: locked}}
	e.k.SetPool(e.ctx, pool)
	for _, r := range rules {
		e.k.SetRewardRule(e.ctx, e.poolID, types.RewardRule{Reward: r.denom, TotalReward: r.total, RemainingReward: r.remaining, RewardPerBlock: r.rpb, RewardPerShare: r.rps})
	}
	e.k.EnqueueActivePool(e.ctx, e.poolID, end)
	return pool
}

func fmSymRules(w *big.Int, withDebt bool, lockedA sdkmath.Int) []fmRule {
	zero, one := big.NewInt(0), big.NewInt(1)
	var rules []fmRule
	for i, d := range []string{fmReward, fmReward2} {
		n := []string{"1", "2"}[i]
		r := fmRule{denom: d, total: verifIntIn("total"+n, one, w), remaining: verifIntIn("remaining"+n, zero, w), rpb: verifIntIn("rpb"+n, one, w),
			rps: verifDec("rps"+n, zero, verifMul(verifPow2(48), verifPow10(18))), debt: sdkmath.ZeroInt()}
		verifAssume(r.remaining.BigInt().Cmp(r.total.BigInt()) <= 0)
		if withDebt {
			r.debt = verifIntIn("debtA"+n, zero, verifPow2(100))
			// F8: debt <= floor(rps*locked)
			verifAssume(verifMul(r.debt.BigInt(), verifPow10(18)).Cmp(verifMul(r.rps.BigInt(), lockedA.BigInt())) <= 0)
		}
		rules = append(rules, r)
	}
	return rules
}

func verifFarmStep2(op int) {
	verifExpect("done", "refused")
	phase := verifChoice("phase", 2) // mid-life, or the very block of the end height
	h := []int64{20, 40}[phase]
	e := newFmEnv(h)
	e.bank.supply[fmReward2] = sdkmath.ZeroInt()
	zero, one := big.NewInt(0), big.NewInt(1)
	w := verifPow2(48)
	gaps := 2 // quick: 0 or 1 blocks since the last distribution; thorough: 0..2
	if verifTier() == 1 {
		gaps = 3
	}
	gap := int64(verifChoice("gap", gaps))
	lockedA := verifIntIn("lockedA", zero, w)
	rest := verifIntIn("lockedOthers", zero, w)
	hasA := lockedA.BigInt().Sign() > 0
	rules := fmSymRules(w, true, lockedA)
	locked := lockedA.Add(rest)
	e.seedPool2(locked, 5, h-gap, 40, rules)
	if hasA {
		var debts sdk.Coins
		for _, r := range rules {
			debts = debts.Add(sdk.Coin{Denom: r.denom, Amount: r.debt})
		}
		e.k.SetFarmInfo(e.ctx, types.FarmInfo{PoolId: e.poolID, Address: e.a.String(), Locked: lockedA, RewardDebt: debts})
	}
	e.bank.fund(vModuleAddr(types.ModuleName), fmLpt, locked)
	for i, r := range rules {
		e.bank.fund(vModuleAddr(types.ModuleName), r.denom, r.remaining)
		e.bank.fund(vModuleAddr(types.RewardCollector), r.denom, verifIntIn([]string{"collector1", "collector2"}[i], zero, verifPow2(101)))
	}
	e.bank.fund(e.a, fmLpt, verifIntIn("walletA", zero, w))
	amt := verifIntIn("amt", one, w)
	ctx := e.at(h)
	type snap struct{ mod, col, wal *big.Int }
	take := func() (s []snap, modL, walL *big.Int) {
		for _, r := range rules {
			s = append(s, snap{e.mod(r.denom), e.bal(vModuleAddr(types.RewardCollector), r.denom), e.bal(e.a, r.denom)})
		}
		return s, e.mod(fmLpt), e.bal(e.a, fmLpt)
	}
	s0, modL0, wl0 := take()
	var err error
	switch op {
	case 0:
		err, _ = e.verifDeliver(func() error { _, err := e.k.Stake(ctx, e.poolID, sdk.Coin{Denom: fmLpt, Amount: amt}, e.a); return err })
	case 1:
		err, _ = e.verifDeliver(func() error {
			_, err := e.k.Unstake(ctx, e.poolID, sdk.Coin{Denom: fmLpt, Amount: amt}, e.a)
			return err
		})
	case 2:
		err, _ = e.verifDeliver(func() error { _, err := e.k.Harvest(ctx, e.poolID, e.a); return err })
	}
	pool, _ := e.k.GetPool(ctx, e.poolID)
	stored := e.k.GetRewardRules(ctx, e.poolID)
	info, exists := e.k.GetFarmInfo(ctx, e.poolID, e.a.String())
	s1, modL1, wl1 := take()
	verifAssert(len(stored) == 2 && stored[0].Reward == fmReward && stored[1].Reward == fmReward2, "the pool keeps both reward rules")
	if err != nil {
		verifCover("refused")
		for i, r := range rules {
			verifAssert(s1[i].mod.Cmp(s0[i].mod) == 0 && s1[i].col.Cmp(s0[i].col) == 0 && s1[i].wal.Cmp(s0[i].wal) == 0, "refused operation moves nothing ("+r.denom+")")
			verifAssert(stored[i].RemainingReward.Equal(r.remaining) && stored[i].RewardPerShare.Equal(r.rps), "refused operation leaves the rule unchanged ("+r.denom+")")
		}
		verifAssert(modL1.Cmp(modL0) == 0 && wl1.Cmp(wl0) == 0 && pool.TotalLptLocked.Amount.Equal(locked), "refused operation leaves the principal unchanged")
		if op == 1 {
			ok := amt.BigInt().Cmp(lockedA.BigInt()) <= 0
			for i, r := range rules {
				budgetOK := r.remaining.BigInt().Cmp(verifMul(r.rpb.BigInt(), big.NewInt(gap))) >= 0
				collectorOK := verifMul(s0[i].col, verifPow10(18)).Cmp(verifAdd(verifMul(r.rps.BigInt(), lockedA.BigInt()), verifPow10(18))) >= 0
				ok = ok && budgetOK && collectorOK
			}
			verifAssert(!ok, "a withdrawal up to the recorded stake never fails (two reward denominations)")
		}
		return
	}
	verifCover("done")
	delta := big.NewInt(0)
	switch op {
	case 0:
		delta = amt.BigInt()
	case 1:
		delta = new(big.Int).Neg(amt.BigInt())
	}
	lockedA1 := big.NewInt(0)
	if exists {
		lockedA1 = info.Locked.BigInt()
	}
	verifAssert(verifSub(pool.TotalLptLocked.Amount.BigInt(), locked.BigInt()).Cmp(delta) == 0, "F1 pool total moves by exactly the amount")
	verifAssert(verifSub(lockedA1, lockedA.BigInt()).Cmp(delta) == 0, "F1 farmer record moves by exactly the amount")
	verifAssert(verifSub(modL1, modL0).Cmp(delta) == 0 && verifSub(wl0, wl1).Cmp(delta) == 0, "F2 escrow and wallet move by exactly the principal")
	verifAssert(exists == (lockedA1.Sign() > 0), "F7 farmer record exists iff something is locked")
	e18 := verifPow10(18)
	for i, r := range rules {
		tag := " (" + r.denom + ")"
		released := big.NewInt(0)
		if gap > 0 && locked.BigInt().Sign() > 0 {
			released = verifMul(r.rpb.BigInt(), big.NewInt(gap))
		}
		rule := stored[i]
		verifAssert(verifSub(r.remaining.BigInt(), rule.RemainingReward.BigInt()).Cmp(released) == 0, "released = rewardPerBlock*(h-last) iff staked and h>last"+tag)
		verifAssert(rule.TotalReward.Equal(r.total) && rule.RewardPerBlock.Equal(r.rpb), "budget and rate unchanged"+tag)
		verifAssert(verifSub(s0[i].mod, s1[i].mod).Cmp(released) == 0, "farm escrow releases exactly the released amount"+tag)
		paid := verifSub(s1[i].wal, s0[i].wal)
		verifAssert(verifSub(s1[i].col, s0[i].col).Cmp(verifSub(released, paid)) == 0, "collector gains released minus paid"+tag)
		verifAssert(paid.Sign() >= 0, "rewards are never negative"+tag)
		rps1 := rule.RewardPerShare.BigInt()
		inc := verifSub(rps1, r.rps.BigInt())
		verifAssert(verifMul(inc, locked.BigInt()).Cmp(verifMul(released, e18)) <= 0, "accumulator never overstates the released rewards"+tag)
		verifAssert(verifMul(verifAdd(inc, one), locked.BigInt()).Cmp(verifMul(released, e18)) > 0 || released.Sign() == 0, "accumulator loses less than 1e-18 per share"+tag)
		if released.Sign() == 0 {
			verifAssert(inc.Sign() == 0, "accumulator unchanged when nothing is released"+tag)
		}
		if hasA {
			pending := verifAdd(paid, r.debt.BigInt())
			verifAssert(verifMul(pending, e18).Cmp(verifMul(rps1, lockedA.BigInt())) <= 0 && verifMul(verifAdd(pending, one), e18).Cmp(verifMul(rps1, lockedA.BigInt())) > 0, "paid = floor(rps*locked) - debt"+tag)
		} else {
			verifAssert(paid.Sign() == 0, "a new farmer is paid nothing"+tag)
		}
		if exists {
			nd := info.RewardDebt.AmountOf(r.denom).BigInt()
			verifAssert(verifMul(nd, e18).Cmp(verifMul(rps1, lockedA1)) <= 0 && verifMul(verifAdd(nd, one), e18).Cmp(verifMul(rps1, lockedA1)) > 0, "F8 new debt = floor(rps*locked')"+tag)
		}
	}
	verifAssert(pool.LastHeightDistrRewards == h, "last distribution height advances to now")
}

func VerifC05_StakeStep2()   { verifFarmStep2(0) }
func VerifC05_UnstakeStep2() { verifFarmStep2(1) }
func VerifC06_HarvestStep2() { verifFarmStep2(2) }

// AdjustPool with two reward rules, mid-life or in the very block of the end height: appended reward and
// new rate may name either rule or both.  Per rule: elapsed blocks settle at the old rate, total and
// remaining grow by exactly the appended amount, and afterwards the remaining reward of EVERY rule
// covers every block until the (one) new end height at the rule's new rate.
func VerifC06_AdjustStep2() {
	verifExpect("done", "refused")
	start, end := int64(5), int64(40)
	when := verifChoice("when", 3) // mid-life, the block of the end height, before the start height
	h := []int64{20, 40, 20}[when]
	e := newFmEnv(h)
	e.bank.supply[fmReward2] = sdkmath.ZeroInt()
	zero, one := big.NewInt(0), big.NewInt(1)
	w := verifPow2(40)
	gap := int64(verifChoice("gap", 3))
	last := h - gap
	payFrom := last
	locked := verifIntIn("locked", zero, w)
	rules := fmSymRules(w, false, sdkmath.ZeroInt())
	if when == 2 {
		start, end, last, payFrom = 30, 50, 0, 30
		verifAssume(locked.IsZero() && gap == 0)
	}
	for _, r := range rules {
		// F5
		verifAssume(r.remaining.BigInt().Cmp(verifMul(r.rpb.BigInt(), big.NewInt(end-payFrom))) >= 0)
		if when == 2 {
			verifAssume(r.remaining.Equal(r.total) && r.rps.IsZero())
		}
	}
	e.seedPool2(locked, start, last, end, rules)
	e.bank.fund(vModuleAddr(types.ModuleName), fmLpt, locked)
	var reward, rate sdk.Coins
	appendAmt := []sdkmath.Int{sdkmath.ZeroInt(), sdkmath.ZeroInt()}
	newRpb := []sdkmath.Int{rules[0].rpb, rules[1].rpb}
	for i, r := range rules {
		n := []string{"1", "2"}[i]
		e.bank.fund(vModuleAddr(types.ModuleName), r.denom, r.remaining)
		e.bank.fund(e.creator, r.denom, verifIntIn("creatorWallet"+n, zero, verifPow2(42)))
		if verifChoice("doAppend"+n, 2) == 1 {
			appendAmt[i] = verifIntIn("append"+n, one, w)
			reward = reward.Add(sdk.Coin{Denom: r.denom, Amount: appendAmt[i]})
		}
		if verifChoice("doRate"+n, 2) == 1 {
			newRpb[i] = verifIntIn("newRpb"+n, one, w)
			rate = rate.Add(sdk.Coin{Denom: r.denom, Amount: newRpb[i]})
		}
	}
	verifAssume(reward != nil || rate != nil)
	ctx := e.at(h)
	col0 := []*big.Int{e.bal(vModuleAddr(types.RewardCollector), fmReward), e.bal(vModuleAddr(types.RewardCollector), fmReward2)}
	mod0 := []*big.Int{e.mod(fmReward), e.mod(fmReward2)}
	err, _ := e.verifDeliver(func() error { return e.k.AdjustPool(ctx, e.poolID, reward, rate, e.creator) })
	pool, _ := e.k.GetPool(ctx, e.poolID)
	stored := e.k.GetRewardRules(ctx, e.poolID)
	verifAssert(len(stored) == 2, "the pool keeps both reward rules")
	if err != nil {
		verifCover("refused")
		for i, r := range rules {
			verifAssert(stored[i].RemainingReward.Equal(r.remaining) && stored[i].RewardPerBlock.Equal(r.rpb) && stored[i].TotalReward.Equal(r.total) &&
				e.mod(r.denom).Cmp(mod0[i]) == 0, "a refused adjustment changes nothing ("+r.denom+")")
		}
		verifAssert(pool.EndHeight == end && pool.LastHeightDistrRewards == last, "a refused adjustment leaves the schedule as it was")
		return
	}
	verifCover("done")
	for i, r := range rules {
		tag := " (" + r.denom + ")"
		released := big.NewInt(0)
		if gap > 0 && locked.IsPositive() {
			released = verifMul(r.rpb.BigInt(), big.NewInt(gap))
		}
		verifAssert(verifSub(e.bal(vModuleAddr(types.RewardCollector), r.denom), col0[i]).Cmp(released) == 0, "elapsed blocks are released at the rate configured for them"+tag)
		verifAssert(stored[i].RemainingReward.BigInt().Cmp(verifAdd(verifSub(r.remaining.BigInt(), released), appendAmt[i].BigInt())) == 0, "remaining = old remaining - released + appended"+tag)
		verifAssert(stored[i].TotalReward.BigInt().Cmp(verifAdd(r.total.BigInt(), appendAmt[i].BigInt())) == 0, "total = old total + appended"+tag)
		verifAssert(verifSub(e.mod(r.denom), mod0[i]).Cmp(verifSub(appendAmt[i].BigInt(), released)) == 0, "farm escrow holds exactly the remaining reward"+tag)
		verifAssert(stored[i].RewardPerBlock.Equal(newRpb[i]), "the new rate is recorded, the other rule's rate is kept"+tag)
		from := h
		if start > h {
			from = start
		}
		verifAssert(stored[i].RemainingReward.BigInt().Cmp(verifMul(newRpb[i].BigInt(), big.NewInt(0).SetInt64(pool.EndHeight-from))) >= 0, "F5 the remaining reward covers every block until the new end height"+tag)
	}
	verifAssert(pool.LastHeightDistrRewards == h && pool.EndHeight >= h && pool.EndHeight >= pool.StartHeight && pool.StartHeight == start, "the pool is settled up to now, does not end in the past and keeps its start height")
	st2 := e.store()
	verifAssert(st2.Has(types.KeyActiveFarmPool(pool.EndHeight, e.poolID)) && (pool.EndHeight == end || !st2.Has(types.KeyActiveFarmPool(end, e.poolID))), "F4 the pool is queued exactly at its end height")
}

// Creation with two reward rules: the pool ends when the FIRST budget is exhausted; every rule's budget
// pays every block up to that height in full; both budgets are escrowed.
func VerifC06_CreateStep2() {
	verifExpect("created", "refused")
	const h = int64(10)
	e := newFmEnv(h)
	e.bank.supply[fmReward2] = sdkmath.ZeroInt()
	zero, one := big.NewInt(0), big.NewInt(1)
	w := verifPow2(60)
	tot := []sdkmath.Int{verifIntIn("total1", one, w), verifIntIn("total2", one, w)}
	rpb := []sdkmath.Int{verifIntIn("rpb1", one, w), verifIntIn("rpb2", one, w)}
	dn := []string{fmReward, fmReward2}
	e.bank.fund(e.creator, fmReward, verifIntIn("wallet1", zero, verifPow2(62)))
	e.bank.fund(e.creator, fmReward2, verifIntIn("wallet2", zero, verifPow2(62)))
	fee := e.k.GetParams(e.ctx).PoolCreationFee
	w0 := []*big.Int{e.bal(e.creator, dn[0]), e.bal(e.creator, dn[1])}
	m0 := []*big.Int{e.mod(dn[0]), e.mod(dn[1])}
	msg := &types.MsgCreatePool{Description: "pool", LptDenom: fmLpt, StartHeight: h,
		RewardPerBlock: sdk.NewCoins(sdk.Coin{Denom: dn[0], Amount: rpb[0]}, sdk.Coin{Denom: dn[1], Amount: rpb[1]}),
		TotalReward:    sdk.NewCoins(sdk.Coin{Denom: dn[0], Amount: tot[0]}, sdk.Coin{Denom: dn[1], Amount: tot[1]}), Editable: true, Creator: e.creator.String()}
	verifAssume(msg.ValidateBasic() == nil)
	err, _ := e.verifDeliver(func() error { _, err := NewMsgServerImpl(e.k).CreatePool(e.at(h), msg); return err })
	if err != nil {
		verifCover("refused")
		for i := range dn {
			verifAssert(e.bal(e.creator, dn[i]).Cmp(w0[i]) == 0 && e.mod(dn[i]).Cmp(m0[i]) == 0, "a refused creation moves nothing")
		}
		return
	}
	verifCover("created")
	var pool types.FarmPool
	e.k.IteratorAllPools(e.at(h), func(p types.FarmPool) { pool = p })
	rules := e.k.GetRewardRules(e.at(h), pool.Id)
	verifAssert(len(rules) == 2, "one rule per reward denomination")
	blocks := big.NewInt(pool.EndHeight - pool.StartHeight)
	tight := false
	for i := range dn {
		verifAssert(rules[i].Reward == dn[i] && rules[i].TotalReward.Equal(tot[i]) && rules[i].RemainingReward.Equal(tot[i]) && rules[i].RewardPerBlock.Equal(rpb[i]) && rules[i].RewardPerShare.IsZero(), "a new pool starts with its whole budget remaining and nothing released ("+dn[i]+")")
		expFee := big.NewInt(0)
		if fee.Denom == dn[i] {
			expFee = fee.Amount.BigInt()
		}
		verifAssert(verifSub(w0[i], e.bal(e.creator, dn[i])).Cmp(verifAdd(tot[i].BigInt(), expFee)) == 0 && verifSub(e.mod(dn[i]), m0[i]).Cmp(tot[i].BigInt()) == 0, "the creator pays exactly the budget plus the creation fee ("+dn[i]+")")
		verifAssert(tot[i].BigInt().Cmp(verifMul(rpb[i].BigInt(), blocks)) >= 0, "F5 the budget pays every block up to the end height in full ("+dn[i]+")")
		if tot[i].BigInt().Cmp(verifMul(rpb[i].BigInt(), verifAdd(blocks, one))) < 0 {
			tight = true
		}
	}
	verifAssert(tight, "the pool ends exactly when the first budget cannot pay another full block")
	verifAssert(e.store().Has(types.KeyActiveFarmPool(pool.EndHeight, pool.Id)), "F4 a new pool is queued exactly at its end height")
}
