package keeper

import (
	"math/big"

	sdkmath "cosmossdk.io/math"
	sdk "github.com/cosmos/cosmos-sdk/types"

	"mods.irisnet.org/modules/farm/types"
)

// Inductive step for stake / unstake / harvest from an arbitrary pool state (one reward denom):
//
//	C05: pool total and farmer record move by exactly the amount; escrow moves by exactly the amount;
//	     the farmer's wallet moves by exactly the amount (principal) plus the reward figure.
//	C06: released = rewardPerBlock*(h-last) iff somebody is staked and h > last, else 0;
//	     remaining falls by released, the collector gains released minus what is paid;
//	     paid = floor(rps'*locked) - debt; new debt = floor(rps'*locked').
func verifFarmStep(op int) {
	verifExpect("done", "refused")
	// the operation runs in the middle of the pool's life or in the very block of its end height (the
	// end-block handler of that block has not run yet: the pool is still queued and fully active)
	// ... or after the pool has ended (end-block handler ran at 40: queue entry gone, budget refunded)
	// ... or before the pool's start height (start in the future: nobody can be staked yet)
	phase := verifChoice("phase", 4)
	h := []int64{20, 40, 45, 3}[phase]
	afterEnd := phase == 2
	beforeStart := phase == 3
	e := newFmEnv(h)
	zero, one := big.NewInt(0), big.NewInt(1)
	w := verifPow2(64)
	if verifTier() == 1 {
		w = verifPow2(100)
	}
	gap := int64(verifChoice("gap", 3)) // blocks since the last distribution: 0,1,2
	lockedA := verifIntIn("lockedA", zero, w)
	rest := verifIntIn("lockedOthers", zero, w)
	total := verifIntIn("total", one, w)
	remaining := verifIntIn("remaining", zero, w)
	verifAssume(remaining.BigInt().Cmp(total.BigInt()) <= 0)
	rpb := verifIntIn("rpb", one, w)
	rps := verifDec("rps", zero, verifMul(verifPow2(64), verifPow10(18)))
	debt := verifIntIn("debtA", zero, verifPow2(130))
	hasA := lockedA.BigInt().Sign() > 0
	// F8: debt <= floor(rps*locked)
	verifAssume(verifMul(debt.BigInt(), verifPow10(18)).Cmp(verifMul(rps.BigInt(), lockedA.BigInt())) <= 0)
	st := fmState{locked: lockedA.Add(rest), total: total, remaining: remaining, rpb: rpb, rps: rps, start: 5, last: h - gap, end: 40}
	if afterEnd {
		st.last = 40
		verifAssume(remaining.IsZero() && gap == 0)
	}
	if beforeStart {
		verifAssume(lockedA.IsZero() && rest.IsZero() && gap == 0 && remaining.Equal(total) && rps.IsZero())
		st.last = 0
	}
	e.seedPool(st)
	if afterEnd {
		e.k.DequeueActivePool(e.ctx, e.poolID, 40) // F4: an ended pool has no queue entry
	}
	if hasA {
		e.setFarmer(e.a, lockedA, debt)
	}
	// escrow: module holds locked principal + remaining reward; collector holds a free amount
	e.bank.fund(vModuleAddr(types.ModuleName), fmLpt, st.locked)
	e.bank.fund(vModuleAddr(types.ModuleName), fmReward, remaining)
	e.bank.fund(vModuleAddr(types.RewardCollector), fmReward, verifIntIn("collector", zero, verifPow2(131)))
	e.bank.fund(e.a, fmLpt, verifIntIn("walletA", zero, w))
	amt := verifIntIn("amt", one, w)
	ctx := e.at(h)
	modL0, modR0, col0 := e.mod(fmLpt), e.mod(fmReward), e.collector()
	wl0, wr0 := e.bal(e.a, fmLpt), e.bal(e.a, fmReward)
	var err error
	switch op {
	case 0:
		err, _ = e.verifDeliver(func() error { _, err := e.k.Stake(ctx, e.poolID, sdk.Coin{Denom: fmLpt, Amount: amt}, e.a); return err })
	case 1:
		err, _ = e.verifDeliver(func() error {
			_, err := e.k.Unstake(ctx, e.poolID, sdk.Coin{Denom: fmLpt, Amount: amt}, e.a)
			return err
		})
	case 2:
		err, _ = e.verifDeliver(func() error { _, err := e.k.Harvest(ctx, e.poolID, e.a); return err })
	}
	pool, _ := e.k.GetPool(ctx, e.poolID)
	rule := e.k.GetRewardRules(ctx, e.poolID)[0]
	info, exists := e.k.GetFarmInfo(ctx, e.poolID, e.a.String())
	modL1, modR1, col1 := e.mod(fmLpt), e.mod(fmReward), e.collector()
	wl1, wr1 := e.bal(e.a, fmLpt), e.bal(e.a, fmReward)
	if err != nil {
		verifCover("refused")
		verifAssert(modL1.Cmp(modL0) == 0 && modR1.Cmp(modR0) == 0 && col1.Cmp(col0) == 0 && wl1.Cmp(wl0) == 0 && wr1.Cmp(wr0) == 0, "refused operation moves nothing")
		verifAssert(pool.TotalLptLocked.Amount.BigInt().Cmp(st.locked.BigInt()) == 0 && rule.RemainingReward.BigInt().Cmp(remaining.BigInt()) == 0, "refused operation leaves the pool unchanged")
		if op == 1 {
			// C05: a withdrawal up to the recorded stake never fails - as long as the budget covers the
			// elapsed blocks (F5) and the collector covers the claim (the listed finding is about that)
			releasedIfAny := verifMul(rpb.BigInt(), big.NewInt(gap))
			budgetOK := remaining.BigInt().Cmp(releasedIfAny) >= 0
			collectorOK := verifMul(col0, verifPow10(18)).Cmp(verifAdd(verifMul(rps.BigInt(), lockedA.BigInt()), verifPow10(18))) >= 0
			verifAssert(!(amt.BigInt().Cmp(lockedA.BigInt()) <= 0 && budgetOK && collectorOK), "a withdrawal up to the recorded stake never fails")
		}
		return
	}
	verifCover("done")
	verifAssert(!beforeStart, "before the pool's start height nobody stakes, withdraws or harvests")
	delta := big.NewInt(0)
	switch op {
	case 0:
		delta = amt.BigInt()
	case 1:
		delta = new(big.Int).Neg(amt.BigInt())
	}
	lockedA1 := big.NewInt(0)
	if exists {
		lockedA1 = info.Locked.BigInt()
	}
	// C05 principal accounting (exact)
	verifAssert(verifSub(pool.TotalLptLocked.Amount.BigInt(), st.locked.BigInt()).Cmp(delta) == 0, "F1 pool total moves by exactly the amount")
	verifAssert(verifSub(lockedA1, lockedA.BigInt()).Cmp(delta) == 0, "F1 farmer record moves by exactly the amount")
	verifAssert(verifSub(modL1, modL0).Cmp(delta) == 0, "F2 escrow moves by exactly the amount")
	verifAssert(verifSub(wl0, wl1).Cmp(delta) == 0, "farmer's wallet moves by exactly the principal")
	verifAssert(exists == (lockedA1.Sign() > 0), "F7 farmer record exists iff something is locked")
	// C06 release rule and budget
	released := big.NewInt(0)
	if gap > 0 && st.locked.BigInt().Sign() > 0 && !afterEnd {
		released = verifMul(rpb.BigInt(), big.NewInt(gap))
	}
	if afterEnd {
		verifAssert(op == 1, "after the pool has ended only withdrawals are accepted")
	}
	verifAssert(verifSub(remaining.BigInt(), rule.RemainingReward.BigInt()).Cmp(released) == 0, "released = rewardPerBlock*(h-last) iff staked and h>last")
	verifAssert(rule.TotalReward.BigInt().Cmp(total.BigInt()) == 0, "total reward unchanged")
	verifAssert(verifSub(modR0, modR1).Cmp(released) == 0, "farm escrow releases exactly the released amount")
	paid := verifSub(wr1, wr0)
	verifAssert(verifSub(col1, col0).Cmp(verifSub(released, paid)) == 0, "collector gains released minus paid")
	verifAssert(paid.Sign() >= 0, "rewards are never negative")
	// paid = floor(rps' * locked) - debt  (cross-multiplied bounds of the floor)
	rps1 := rule.RewardPerShare.BigInt()
	e18 := verifPow10(18)
	// the per-share accumulator grows by the 18-decimal TRUNCATION of released/locked: it never
	// overstates what was released (otherwise the farmers' truncated claims can exceed the collector)
	inc := verifSub(rps1, rps.BigInt())
	verifAssert(verifMul(inc, st.locked.BigInt()).Cmp(verifMul(released, e18)) <= 0, "accumulator never overstates the released rewards")
	verifAssert(verifMul(verifAdd(inc, one), st.locked.BigInt()).Cmp(verifMul(released, e18)) > 0 || released.Sign() == 0, "accumulator loses less than 1e-18 per share")
	if released.Sign() == 0 {
		verifAssert(inc.Sign() == 0, "accumulator unchanged when nothing is released")
	}
	if hasA {
		pending := verifAdd(paid, debt.BigInt()) // = floor(rps1*lockedA/1e18)
		verifAssert(verifMul(pending, e18).Cmp(verifMul(rps1, lockedA.BigInt())) <= 0 && verifMul(verifAdd(pending, one), e18).Cmp(verifMul(rps1, lockedA.BigInt())) > 0, "paid = floor(rps*locked) - debt")
	} else {
		verifAssert(paid.Sign() == 0, "a new farmer is paid nothing")
	}
	if exists {
		nd := info.RewardDebt.AmountOf(fmReward).BigInt()
		verifAssert(verifMul(nd, e18).Cmp(verifMul(rps1, lockedA1)) <= 0 && verifMul(verifAdd(nd, one), e18).Cmp(verifMul(rps1, lockedA1)) > 0, "F8 new debt = floor(rps*locked')")
	}
	verifAssert(afterEnd || pool.LastHeightDistrRewards == h, "last distribution height advances to now")
}

func VerifC05_StakeStep()   { verifFarmStep(0) }
func VerifC05_UnstakeStep() { verifFarmStep(1) }
func VerifC06_HarvestStep() { verifFarmStep(2) }

// Bounded history from pool creation: A stakes, B stakes, A stakes more (symbolic amounts, reward per
// block, gaps), then both withdraw everything: every full withdrawal must succeed and return the principal.
func VerifC05_History() {
	verifExpect("all-withdrawn")
	e := newFmEnv(10)
	one := big.NewInt(1)
	w := verifPow2(16)
	// quick: reward per block ranges over {1,2,3} by case split; thorough: free in [1,2^16]
	var rpb sdkmath.Int
	if verifTier() == 1 {
		rpb = verifIntIn("rpb", one, w)
	} else {
		rpb = sdkmath.NewInt(int64(verifChoice("rpb", 3)) + 1)
	}
	total := verifIntIn("total", one, verifPow2(40))
	e.bank.fund(e.creator, fmReward, total)
	e.bank.fund(e.creator, fmReward, sdkmath.NewInt(5000)) // creation fee under default params
	h := int64(10)
	pool, err := e.k.CreatePool(e.at(h), "pool", fmLpt, h, sdk.NewCoins(sdk.Coin{Denom: fmReward, Amount: rpb}), sdk.NewCoins(sdk.Coin{Denom: fmReward, Amount: total}), true, e.creator)
	verifAssume(err == nil)
	e.poolID = pool.Id
	verifAssume(pool.EndHeight >= h+12)
	// stakes range over {1,2,3} by case split (reward-per-share divisions stay linear)
	stakeAmt := func(n string) sdkmath.Int {
		return sdkmath.NewInt(int64(verifChoice(n, 3)) + 1)
	}
	sA1, sB, sA2 := stakeAmt("stakeA1"), stakeAmt("stakeB"), stakeAmt("stakeA2")
	e.bank.fund(e.a, fmLpt, sA1.Add(sA2))
	e.bank.fund(e.b, fmLpt, sB)
	gaps := func(n string) int64 { return int64(verifChoice(n, 3)) + 1 }
	stake := func(who sdk.AccAddress, amt sdkmath.Int) {
		err, _ := e.verifDeliver(func() error {
			_, err := e.k.Stake(e.at(h), e.poolID, sdk.Coin{Denom: fmLpt, Amount: amt}, who)
			return err
		})
		verifAssert(err == nil, "stake within a running pool succeeds")
	}
	stake(e.a, sA1)
	h += gaps("g1")
	stake(e.b, sB)
	h += gaps("g2")
	stake(e.a, sA2)
	h += gaps("g3")
	// epilogue: full withdrawal
	wa0, wb0 := e.bal(e.a, fmLpt), e.bal(e.b, fmLpt)
	// A listed known finding (C05-collector-shortfall): the reward collector can be short by
	// rounding dust (at most one unit per interaction).  Class predicate: the withdrawal fails,
	// but the very same withdrawal succeeds once the collector is topped up by that dust.
	withdraw := func(who sdk.AccAddress, amt sdkmath.Int, label string) {
		try := func() error {
			err, _ := e.verifDeliver(func() error {
				_, err := e.k.Unstake(e.at(h), e.poolID, sdk.Coin{Denom: fmLpt, Amount: amt}, who)
				return err
			})
			return err
		}
		err := try()
		dustOnly := false
		if err != nil {
			e.bank.fund(vModuleAddr(types.RewardCollector), fmReward, sdkmath.NewInt(5))
			dustOnly = try() == nil
		}
		verifAssertKnown(err == nil, label, "C05-collector-shortfall", dustOnly)
		verifAssume(err == nil)
	}
	withdraw(e.a, sA1.Add(sA2), "full withdrawal never fails (first farmer)")
	withdraw(e.b, sB, "full withdrawal never fails (last farmer)")
	verifCover("all-withdrawn")
	verifAssert(verifSub(e.bal(e.a, fmLpt), wa0).Cmp(sA1.Add(sA2).BigInt()) == 0, "first farmer gets the whole principal back")
	verifAssert(verifSub(e.bal(e.b, fmLpt), wb0).Cmp(sB.BigInt()) == 0, "last farmer gets the whole principal back")
	verifAssert(e.mod(fmLpt).Sign() == 0, "no principal left in escrow")
	p, _ := e.k.GetPool(e.at(h), e.poolID)
	verifAssert(p.TotalLptLocked.Amount.IsZero(), "pool total back to zero")
}

// C06 adjust: changing the reward rate (and/or appending reward) first settles the elapsed blocks at the
// OLD rate, keeps total = remaining + released, and re-schedules the end height so that the remaining
// reward still covers every block until the (new) end.
func VerifC06_AdjustStep() {
	verifExpect("done", "refused")
	// mid-life, in the very block of the end height, or before the pool has started (nobody can be staked
	// yet, nothing has been released, the budget has to pay the blocks from the START height on)
	when := verifChoice("when", 3)
	h := []int64{20, 40, 20}[when]
	e := newFmEnv(h)
	zero, one := big.NewInt(0), big.NewInt(1)
	w := verifPow2(40)
	gap := int64(verifChoice("gap", 3))
	locked := verifIntIn("locked", zero, w)
	rpb := verifIntIn("rpb", one, w)
	remaining := verifIntIn("remaining", one, verifPow2(60))
	released0 := verifIntIn("releasedBefore", zero, w)
	total := remaining.Add(released0)
	start, end := int64(5), int64(40)
	last := h - gap
	payFrom := last // the first block the remaining budget still has to pay
	if when == 2 {
		start, end, last, payFrom = 30, 50, 0, 30
		verifAssume(locked.IsZero() && released0.IsZero() && gap == 0)
	}
	// F5: the remaining reward covers every block until the end height at the current rate
	verifAssume(remaining.BigInt().Cmp(verifMul(rpb.BigInt(), big.NewInt(end-payFrom))) >= 0)
	rps := verifDec("rps", zero, verifMul(verifPow2(40), verifPow10(18)))
	if when == 2 {
		verifAssume(rps.IsZero())
	}
	st := fmState{locked: locked, total: total, remaining: remaining, rpb: rpb, rps: rps, start: start, last: last, end: end}
	e.seedPool(st)
	e.bank.fund(vModuleAddr(types.ModuleName), fmLpt, locked)
	e.bank.fund(vModuleAddr(types.ModuleName), fmReward, remaining)
	appendAmt := verifIntIn("append", zero, w)
	newRpb := verifIntIn("newRpb", one, w)
	e.bank.fund(e.creator, fmReward, verifIntIn("creatorWallet", zero, verifPow2(42)))
	var reward, rate sdk.Coins
	if verifChoice("doAppend", 2) == 1 {
		verifAssume(appendAmt.IsPositive())
		reward = sdk.NewCoins(sdk.Coin{Denom: fmReward, Amount: appendAmt})
	} else {
		verifAssume(appendAmt.IsZero())
	}
	if verifChoice("doRate", 2) == 1 {
		rate = sdk.NewCoins(sdk.Coin{Denom: fmReward, Amount: newRpb})
	}
	verifAssume(reward != nil || rate != nil)
	actor := e.creator
	if verifChoice("actor", 2) == 1 {
		actor = e.a
	}
	ctx := e.at(h)
	col0, mod0 := e.collector(), e.mod(fmReward)
	err, _ := e.verifDeliver(func() error { return e.k.AdjustPool(ctx, e.poolID, reward, rate, actor) })
	pool, _ := e.k.GetPool(ctx, e.poolID)
	rule := e.k.GetRewardRules(ctx, e.poolID)[0]
	if err != nil {
		verifCover("refused")
		verifAssert(rule.RemainingReward.Equal(remaining) && rule.RewardPerBlock.Equal(rpb) && pool.EndHeight == end && e.collector().Cmp(col0) == 0, "a refused adjustment changes nothing")
		return
	}
	verifCover("done")
	verifAssert(actor.Equals(e.creator), "only the pool creator adjusts a pool")
	released := big.NewInt(0)
	if gap > 0 && locked.IsPositive() {
		released = verifMul(rpb.BigInt(), big.NewInt(gap)) // at the OLD rate
	}
	verifAssert(verifSub(e.collector(), col0).Cmp(released) == 0, "elapsed blocks are released at the rate configured for them")
	expRemaining := verifAdd(verifSub(remaining.BigInt(), released), appendAmt.BigInt())
	verifAssert(rule.RemainingReward.BigInt().Cmp(expRemaining) == 0, "remaining = old remaining - released + appended")
	verifAssert(rule.TotalReward.BigInt().Cmp(verifAdd(total.BigInt(), appendAmt.BigInt())) == 0, "total = old total + appended")
	verifAssert(verifSub(e.mod(fmReward), mod0).Cmp(verifSub(appendAmt.BigInt(), released)) == 0, "farm escrow holds exactly the remaining reward")
	wantRate := rpb
	if rate != nil {
		wantRate = newRpb
	}
	verifAssert(rule.RewardPerBlock.Equal(wantRate), "the new rate is recorded")
	verifAssert(pool.LastHeightDistrRewards == h, "the pool is settled up to now")
	verifAssert(pool.EndHeight >= h && pool.EndHeight >= pool.StartHeight && pool.StartHeight == start, "the end height never lies in the past; the start height is kept")
	// F5 re-established: remaining covers every block until the new end at the new rate
	from := h
	if start > h {
		from = start
	}
	verifAssert(rule.RemainingReward.BigInt().Cmp(verifMul(wantRate.BigInt(), big.NewInt(0).SetInt64(pool.EndHeight-from))) >= 0, "F5 the remaining reward covers every block until the new end height")
	st2 := e.store()
	verifAssert(st2.Has(types.KeyActiveFarmPool(pool.EndHeight, e.poolID)) && (pool.EndHeight == end || !st2.Has(types.KeyActiveFarmPool(end, e.poolID))), "F4 the pool is queued exactly at its end height")
}

// C06/C13 destroy: the creator destroys an editable pool that has not ended, at any height up to its end
// height.  The elapsed blocks are released first, the whole remaining budget goes back to the creator
// exactly once, the pool is ended NOW and leaves the end-height queue entirely (so the end-block handler
// never processes it again); anybody else, a non-editable or an already ended pool is refused without
// effect; stakes are untouched.
func VerifC06_DestroyStep() {
	verifExpect("destroyed", "refused")
	e := newFmEnv(10)
	zero, one := big.NewInt(0), big.NewInt(1)
	w := verifPow2(40)
	end := int64(40)
	h := int64(20 + 10*verifChoice("when", 4)) // 20, 30 before the end; 40 at the end height; 50 after it
	gap := int64(verifChoice("gap", 3))
	last := h - gap
	if last > end {
		last = end
	}
	locked := verifIntIn("locked", zero, w)
	rpb := verifIntIn("rpb", one, w)
	remaining := verifIntIn("remaining", zero, verifPow2(60))
	released0 := verifIntIn("releasedBefore", zero, w)
	total := remaining.Add(released0)
	ended := verifChoice("alreadyEnded", 2) == 1 // the pool was ended (destroyed or expired) earlier
	if ended {
		end = last
		verifAssume(remaining.IsZero())
	} else {
		verifAssume(h <= 40 || true)
		// F5: the remaining reward covers every block until the end height at the current rate
		verifAssume(remaining.BigInt().Cmp(verifMul(rpb.BigInt(), big.NewInt(end-last))) >= 0)
	}
	rps := verifDec("rps", zero, verifMul(verifPow2(40), verifPow10(18)))
	st := fmState{locked: locked, total: total, remaining: remaining, rpb: rpb, rps: rps, start: 5, last: last, end: end}
	pool0 := e.seedPool(st)
	if ended {
		e.k.DequeueActivePool(e.ctx, e.poolID, end) // F4: an ended pool has no queue entry
	}
	if verifChoice("editable", 2) == 0 {
		pool0.Editable = false
		e.k.SetPool(e.ctx, pool0)
	}
	e.bank.fund(vModuleAddr(types.ModuleName), fmLpt, locked)
	e.bank.fund(vModuleAddr(types.ModuleName), fmReward, remaining)
	actor := e.creator
	if verifChoice("actor", 2) == 1 {
		actor = e.a
	}
	ctx := e.at(h)
	col0, modR0, modL0, cr0 := e.collector(), e.mod(fmReward), e.mod(fmLpt), e.bal(e.creator, fmReward)
	err, _ := e.verifDeliver(func() error {
		_, err := NewMsgServerImpl(e.k).DestroyPool(ctx, &types.MsgDestroyPool{PoolId: e.poolID, Creator: actor.String()})
		return err
	})
	pool, _ := e.k.GetPool(ctx, e.poolID)
	rule := e.k.GetRewardRules(ctx, e.poolID)[0]
	queuedAnywhere := false
	it := e.store().Iterator(nil, nil)
	for ; it.Valid(); it.Next() {
		for _, hh := range []int64{last, 20, 30, 40, 50, end} {
			if string(it.Key()) == string(types.KeyActiveFarmPool(hh, e.poolID)) {
				queuedAnywhere = true
			}
		}
	}
	it.Close()
	if err != nil {
		verifCover("refused")
		verifAssert(rule.RemainingReward.Equal(remaining) && pool.EndHeight == end && pool.LastHeightDistrRewards == last &&
			e.collector().Cmp(col0) == 0 && e.mod(fmReward).Cmp(modR0) == 0 && e.bal(e.creator, fmReward).Cmp(cr0) == 0, "a refused destroy changes nothing")
		verifAssert(queuedAnywhere == !ended, "a refused destroy leaves the queue entry as it was")
		verifAssert(!(actor.Equals(e.creator) && pool0.Editable && !ended && h < end && remaining.IsPositive()), "the creator can destroy an editable running pool that still has a budget")
		return
	}
	verifCover("destroyed")
	verifAssert(actor.Equals(e.creator), "only the pool creator destroys a pool")
	verifAssert(pool0.Editable, "only an editable pool can be destroyed")
	verifAssert(!ended && h <= end, "a pool that has ended cannot be destroyed again (its budget is returned exactly once)")
	released := big.NewInt(0)
	if h > last && locked.IsPositive() {
		released = verifMul(rpb.BigInt(), big.NewInt(h-last))
	}
	refund := verifSub(remaining.BigInt(), released)
	verifAssert(verifSub(e.collector(), col0).Cmp(released) == 0, "the elapsed blocks are released before the pool is destroyed")
	verifAssert(verifSub(e.bal(e.creator, fmReward), cr0).Cmp(refund) == 0, "the creator gets back exactly the remaining budget")
	verifAssert(verifSub(modR0, e.mod(fmReward)).Cmp(remaining.BigInt()) == 0, "the farm escrow gives up the whole remaining budget")
	verifAssert(rule.RemainingReward.IsZero() && rule.TotalReward.Equal(total), "budget = released + refunded; nothing remains")
	verifAssert(e.mod(fmLpt).Cmp(modL0) == 0 && pool.TotalLptLocked.Amount.Equal(locked), "stakes are untouched by a destroy")
	verifAssert(pool.EndHeight == h && pool.LastHeightDistrRewards == h, "the pool ends now")
	verifAssert(!queuedAnywhere, "F4 a destroyed pool leaves the end-height queue (it is never processed again)")
}

// C05/C06 creation: a pool created through the message server takes the whole budget (and the creation
// fee) from the creator into the farm escrow, starts with nothing released, is queued exactly at its end
// height, and its end height is the last block the budget can pay in full: budget >= rate * (end - start)
// (otherwise farmers' operations fail near the end) and budget < rate * (end - start + 1).
func VerifC06_CreateStep() {
	verifExpect("created", "refused")
	const h = int64(10)
	e := newFmEnv(h)
	zero, one := big.NewInt(0), big.NewInt(1)
	w := verifPow2(60)
	total := verifIntIn("total", one, w)
	rpb := verifIntIn("rpb", one, w)
	start := h + int64(verifChoice("startLater", 2))*7
	e.bank.fund(e.creator, fmReward, verifIntIn("wallet", zero, verifPow2(62)))
	fee := e.k.GetParams(e.ctx).PoolCreationFee
	w0, m0 := e.bal(e.creator, fmReward), e.mod(fmReward)
	msg := &types.MsgCreatePool{Description: "pool", LptDenom: fmLpt, StartHeight: start, RewardPerBlock: sdk.NewCoins(sdk.Coin{Denom: fmReward, Amount: rpb}),
		TotalReward: sdk.NewCoins(sdk.Coin{Denom: fmReward, Amount: total}), Editable: verifBool("editable"), Creator: e.creator.String()}
	verifAssume(msg.ValidateBasic() == nil)
	err, _ := e.verifDeliver(func() error { _, err := NewMsgServerImpl(e.k).CreatePool(e.at(h), msg); return err })
	w1, m1 := e.bal(e.creator, fmReward), e.mod(fmReward)
	if err != nil {
		verifCover("refused")
		verifAssert(w1.Cmp(w0) == 0 && m1.Cmp(m0) == 0, "a refused creation moves nothing")
		return
	}
	verifCover("created")
	var pool types.FarmPool
	e.k.IteratorAllPools(e.at(h), func(p types.FarmPool) { pool = p })
	rules := e.k.GetRewardRules(e.at(h), pool.Id)
	verifAssert(len(rules) == 1 && rules[0].TotalReward.Equal(total) && rules[0].RemainingReward.Equal(total) && rules[0].RewardPerBlock.Equal(rpb) && rules[0].RewardPerShare.IsZero(), "a new pool starts with its whole budget remaining and nothing released")
	expFee := big.NewInt(0)
	if fee.Denom == fmReward {
		expFee = fee.Amount.BigInt()
	}
	verifAssert(verifSub(w0, w1).Cmp(verifAdd(total.BigInt(), expFee)) == 0 && verifSub(m1, m0).Cmp(total.BigInt()) == 0, "the creator pays exactly the budget (into the farm escrow) plus the creation fee")
	blocks := big.NewInt(pool.EndHeight - pool.StartHeight)
	verifAssert(pool.StartHeight == start && pool.EndHeight >= start, "the pool runs from its start height")
	verifAssert(total.BigInt().Cmp(verifMul(rpb.BigInt(), blocks)) >= 0, "F5 the budget pays every block up to the end height in full")
	verifAssert(total.BigInt().Cmp(verifMul(rpb.BigInt(), verifAdd(blocks, one))) < 0, "the pool does not end while a full block's reward is still in the budget")
	verifAssert(e.store().Has(types.KeyActiveFarmPool(pool.EndHeight, pool.Id)), "F4 a new pool is queued exactly at its end height")
	verifAssert(pool.TotalLptLocked.Amount.IsZero() && pool.Creator == e.creator.String(), "a new pool has no stake and belongs to its creator")
}
