package keeper

import (
	"math/big"

	sdkmath "cosmossdk.io/math"
	sdk "github.com/cosmos/cosmos-sdk/types"

	"mods.irisnet.org/modules/farm/types"
)

// C06 the end of a pool with TWO reward denominations - by its creator (destroy) or by reaching its end height
// (the refund the end-block handler performs): the elapsed blocks are released first, then every
// denomination's unreleased budget goes back to the creator, whatever the other denomination's budget is -
// one of them may be used up exactly (remaining 0 after the last release) while the other is not.
func VerifC06_EndOfPool2() {
	verifExpect("destroyed", "expired")
	zero, one := big.NewInt(0), big.NewInt(1)
	w := verifPow2(40)
	end := int64(40)
	byCreator := verifChoice("by", 2) == 0
	h := end
	if byCreator {
		h = 30
	}
	e := newFmEnv(h)
	e.bank.supply[fmReward2] = sdkmath.ZeroInt()
	gap := int64(verifChoice("gap", 3))
	last := h - gap
	locked := verifIntIn("locked", zero, w)
	var rules []fmRule
	for i, d := range []string{fmReward, fmReward2} {
		n := []string{"1", "2"}[i]
		r := fmRule{denom: d, rpb: verifIntIn("rpb"+n, one, w), remaining: verifIntIn("remaining"+n, zero, verifPow2(60)),
			rps: verifDec("rps"+n, zero, verifMul(verifPow2(40), verifPow10(18))), debt: sdkmath.ZeroInt()}
		r.total = r.remaining.Add(verifIntIn("releasedBefore"+n, zero, w))
		// F5: the remaining reward covers every block until the end height at the current rate - possibly exactly
		verifAssume(r.remaining.BigInt().Cmp(verifMul(r.rpb.BigInt(), big.NewInt(end-last))) >= 0)
		rules = append(rules, r)
	}
	e.seedPool2(locked, 5, last, end, rules)
	mod := vModuleAddr(types.ModuleName)
	e.bank.fund(mod, fmLpt, locked)
	for _, r := range rules {
		e.bank.fund(mod, r.denom, r.remaining)
	}
	ctx := e.at(h)
	bal := func(a sdk.AccAddress, d string) *big.Int { return e.bank.get(a, d).BigInt() }
	col := vModuleAddr(types.RewardCollector)
	var cr0, col0, mod0 []*big.Int
	for _, r := range rules {
		cr0, col0, mod0 = append(cr0, bal(e.creator, r.denom)), append(col0, bal(col, r.denom)), append(mod0, bal(mod, r.denom))
	}
	if byCreator {
		err, _ := e.verifDeliver(func() error {
			_, err := NewMsgServerImpl(e.k).DestroyPool(ctx, &types.MsgDestroyPool{PoolId: e.poolID, Creator: e.creator.String()})
			return err
		})
		if err != nil {
			// nothing at all left to give back is the only reason to refuse the creator
			refundable := false
			for _, r := range rules {
				rel := big.NewInt(0)
				if h > last && locked.IsPositive() {
					rel = verifMul(r.rpb.BigInt(), big.NewInt(h-last))
				}
				if verifSub(r.remaining.BigInt(), rel).Sign() > 0 {
					refundable = true
				}
			}
			verifAssert(!refundable, "the creator can destroy a running pool as long as some denomination still has an unreleased budget")
			return
		}
		verifCover("destroyed")
	} else {
		// the pool's end height: the keeper's refund, as the end-block handler calls it (its error is only logged)
		pool, _ := e.k.GetPool(ctx, e.poolID)
		_, _ = e.k.Refund(ctx, pool)
		verifCover("expired")
	}
	after := e.k.GetRewardRules(ctx, e.poolID)
	for i, r := range rules {
		released := big.NewInt(0)
		if h > last && locked.IsPositive() {
			released = verifMul(r.rpb.BigInt(), big.NewInt(h-last))
		}
		refund := verifSub(r.remaining.BigInt(), released)
		verifAssert(verifSub(bal(col, r.denom), col0[i]).Cmp(released) == 0, "the elapsed blocks are released before the pool ends ("+r.denom+")")
		verifAssert(verifSub(bal(e.creator, r.denom), cr0[i]).Cmp(refund) == 0, "the creator gets back exactly the unreleased budget of every denomination ("+r.denom+")")
		verifAssert(verifSub(mod0[i], bal(mod, r.denom)).Cmp(r.remaining.BigInt()) == 0, "the farm escrow gives up the whole remaining budget ("+r.denom+")")
		verifAssert(after[i].RemainingReward.IsZero() && after[i].TotalReward.Equal(r.total), "budget = released + refunded; nothing remains ("+r.denom+")")
	}
	pool, _ := e.k.GetPool(ctx, e.poolID)
	verifAssert(pool.EndHeight == h && !e.store().Has(types.KeyActiveFarmPool(end, e.poolID)) && !e.store().Has(types.KeyActiveFarmPool(h, e.poolID)), "the pool has ended and left the end-height queue")
}
