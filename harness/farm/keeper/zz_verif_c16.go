package keeper

import (
	"math/big"

	sdk "github.com/cosmos/cosmos-sdk/types"

	"mods.irisnet.org/modules/farm/types"
)

func fmAnyParams() types.Params {
	return types.Params{PoolCreationFee: sdk.Coin{Denom: verifDenomAny("pcfDenom", fmReward), Amount: verifIntAny("pcf")}, MaxRewardCategories: verifUint32("maxCategories"), TaxRate: verifDecAny("tax")}
}

// C16 farm: authority only; rejected sets never stored.
func VerifC16_UpdateParams() {
	verifExpect("stored", "refused")
	e := newFmEnv(10)
	before := e.k.GetParams(e.ctx)
	p := fmAnyParams()
	rightAuthority := verifChoice("authority", 2) == 0
	auth := e.k.authority
	if !rightAuthority {
		auth = e.a.String()
	}
	var vErr error
	vPanicked, _ := verifCatch(func() { vErr = p.Validate() })
	err, _ := e.verifDeliver(func() error {
		_, err := NewMsgServerImpl(e.k).UpdateParams(e.ctx, &types.MsgUpdateParams{Authority: auth, Params: p})
		return err
	})
	after := e.k.GetParams(e.ctx)
	if err != nil {
		verifCover("refused")
		verifAssert(after.TaxRate.Equal(before.TaxRate) && after.PoolCreationFee.IsEqual(before.PoolCreationFee), "refused update leaves params unchanged")
		return
	}
	verifCover("stored")
	verifAssert(rightAuthority, "only the configured authority changes params")
	verifAssert(!vPanicked && vErr == nil, "a parameter set rejected by validation is never stored")
}

// C16 farm consumers: pool creation (fee handling) under every validated parameter set never panics.
func VerifC16_Consumers() {
	verifExpect("ok")
	e := newFmEnv(10)
	p := fmAnyParams()
	var vErr error
	vPanicked, _ := verifCatch(func() { vErr = p.Validate() })
	verifAssume(!vPanicked && vErr == nil)
	if err := e.k.SetParams(e.ctx, p); err != nil {
		verifFail("validated params rejected")
	}
	one := big.NewInt(1)
	e.bank.fund(e.creator, fmReward, verifIntIn("wallet", big.NewInt(0), verifPow2(80)))
	e.bank.fund(e.creator, "uother", verifIntIn("walletOther", big.NewInt(0), verifPow2(80)))
	rpb := verifIntIn("rpb", one, verifPow2(30))
	total := verifIntIn("total", one, verifPow2(60))
	_, panicked := e.verifDeliver(func() error {
		_, err := e.k.CreatePool(e.at(10), "pool", fmLpt, 12, sdk.NewCoins(sdk.Coin{Denom: fmReward, Amount: rpb}), sdk.NewCoins(sdk.Coin{Denom: fmReward, Amount: total}), true, e.creator)
		return err
	})
	verifCover("ok")
	absent := p.TaxRate.IsNil()
	inRange := !absent && !p.TaxRate.IsNegative() && p.TaxRate.LTE(verifDecFromRaw(verifPow10(18)))
	verifAssertKnown(!panicked, "validated params never make pool creation panic", "C16-farm-taxrate", !inRange)
}
