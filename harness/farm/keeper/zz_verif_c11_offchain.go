package keeper

import (
	sdkmath "cosmossdk.io/math"
	sdk "github.com/cosmos/cosmos-sdk/types"

)

// C11 off-chain disturbances, farm (verifOffChain, harness/rt): a pool is created and a farmer stakes; the
// side work creates another pool (pool ids come from a stored sequence), stakes and harvests; afterwards a
// second pool is created, the farmers stake, harvest and withdraw in later blocks.
func VerifC11_FarmOffChainDisturbance() {
	verifOffChain(func() vReplica {
		e := newFmEnv(10)
		rpb, total := sdkmath.NewInt(3), sdkmath.NewInt(300)
		e.bank.fund(e.creator, fmReward, sdkmath.NewInt(100000))
		e.bank.fund(e.b, fmReward, sdkmath.NewInt(100000))
		e.bank.fund(e.a, fmLpt, sdkmath.NewInt(1000))
		e.bank.fund(e.b, fmLpt, sdkmath.NewInt(1000))
		create := func(ctx sdk.Context, who sdk.AccAddress) (string, error) {
			pool, err := e.k.CreatePool(ctx, "pool", fmLpt, ctx.BlockHeight(), sdk.NewCoins(sdk.Coin{Denom: fmReward, Amount: rpb}), sdk.NewCoins(sdk.Coin{Denom: fmReward, Amount: total}), true, who)
			if err != nil {
				return "", err
			}
			return pool.Id, nil
		}
		lpt := func(n int64) sdk.Coin { return sdk.Coin{Denom: fmLpt, Amount: sdkmath.NewInt(n)} }
		var r vReplica
		r.env = e.vEnv
		r.first = func() {
			id, err := create(e.ctx, e.creator)
			if err != nil {
				verifFail("pool refused: " + err.Error())
			}
			e.poolID = id
			if _, err := e.k.Stake(e.ctx, id, lpt(7), e.a); err != nil {
				verifFail("stake refused")
			}
		}
		r.side = func(ctx sdk.Context) error {
			ctx = ctx.WithBlockHeight(ctx.BlockHeight() + 1)
			id, err := create(ctx, e.b)
			if err != nil {
				return err
			}
			if _, err := e.k.Stake(ctx, id, lpt(5), e.b); err != nil {
				return err
			}
			_, err = e.k.Harvest(ctx, e.poolID, e.a)
			return err
		}
		r.restart = func() {
			e.k = NewKeeper(e.cdc, e.key, e.bank, e.acc, nil, nil, fmCoinswap{}, fmFeeCollector, fmCommunity, vAddr(9).String())
		}
		r.second = func(ctx sdk.Context) []bool {
			id2, e0 := create(ctx, e.b)
			_, e1 := e.k.Stake(ctx, e.poolID, lpt(4), e.b)
			ctx2 := ctx.WithBlockHeight(ctx.BlockHeight() + 2)
			_, e2 := e.k.Stake(ctx2, id2, lpt(9), e.a)
			_, e3 := e.k.Harvest(ctx2, e.poolID, e.a)
			ctx3 := ctx.WithBlockHeight(ctx.BlockHeight() + 5)
			_, e4 := e.k.Unstake(ctx3, e.poolID, lpt(7), e.a)
			_, e5 := e.k.Unstake(ctx3, id2, lpt(9), e.a)
			return []bool{e0 != nil, e1 != nil, e2 != nil, e3 != nil, e4 != nil, e5 != nil}
		}
		return r
	})
}
