package keeper

import (
	"math/big"

	sdkmath "cosmossdk.io/math"
	sdk "github.com/cosmos/cosmos-sdk/types"
	authtypes "github.com/cosmos/cosmos-sdk/x/auth/types"

	"mods.irisnet.org/modules/farm/types"
)

const (
	fmFeeCollector = "fee_collector"
	fmCommunity    = "distribution"
	fmLpt          = "lpt-1"
	fmReward       = "stake"
)

type fmEnv struct {
	*vEnv
	k             Keeper
	creator, a, b sdk.AccAddress
	poolID        string
}

func newFmEnv(height int64) *fmEnv {
	e := &fmEnv{vEnv: newVEnv(types.StoreKey, height, fmLpt, fmReward)}
	e.bank.modules[types.ModuleName] = []string{authtypes.Burner}
	e.bank.modules[types.RewardCollector] = nil
	e.bank.modules[fmFeeCollector] = nil
	e.bank.modules[fmCommunity] = nil
	e.creator, e.a, e.b = vAddr(1), vAddr(2), vAddr(3)
	e.k = NewKeeper(e.cdc, e.key, e.bank, e.acc, nil, nil, fmCoinswap{}, fmFeeCollector, fmCommunity, vAddr(9).String()) // the app's own constructor
	if err := e.k.SetParams(e.ctx, types.DefaultParams()); err != nil {
		verifFail("default params rejected")
	}
	return e
}

func (e *fmEnv) at(height int64) sdk.Context { return e.ctx.WithBlockHeight(height) }

// seedPoolState writes an arbitrary (invariant-satisfying) pool with one reward rule directly.
type fmState struct {
	locked, total, remaining, rpb sdkmath.Int
	rps                           sdkmath.LegacyDec
	start, last, end              int64
}

func (e *fmEnv) seedPool(s fmState) types.FarmPool {
	e.poolID = "farm-1"
	e.k.SetSequence(e.ctx, 1)
	pool := types.FarmPool{Id: e.poolID, Creator: e.creator.String(), Description: "p", StartHeight: s.start, EndHeight: s.end,
		LastHeightDistrRewards: s.last, Editable: true, TotalLptLocked: sdk.Coin{Denom: fmLpt, Amount: s.locked}}
	e.k.SetPool(e.ctx, pool)
	e.k.SetRewardRule(e.ctx, e.poolID, types.RewardRule{Reward: fmReward, TotalReward: s.total, RemainingReward: s.remaining, RewardPerBlock: s.rpb, RewardPerShare: s.rps})
	e.k.EnqueueActivePool(e.ctx, e.poolID, s.end)
	return pool
}

func (e *fmEnv) setFarmer(addr sdk.AccAddress, locked, debt sdkmath.Int) {
	e.k.SetFarmInfo(e.ctx, types.FarmInfo{PoolId: e.poolID, Address: addr.String(), Locked: locked, RewardDebt: sdk.NewCoins(sdk.Coin{Denom: fmReward, Amount: debt})})
}

func (e *fmEnv) bal(addr sdk.AccAddress, denom string) *big.Int {
	return e.bank.get(addr, denom).BigInt()
}
func (e *fmEnv) mod(denom string) *big.Int { return e.bal(vModuleAddr(types.ModuleName), denom) }
func (e *fmEnv) collector() *big.Int       { return e.bal(vModuleAddr(types.RewardCollector), fmReward) }

// fmCoinswap: the farm module's view of coinswap: every liquidity-token denomination names a pool
type fmCoinswap struct{}

func (fmCoinswap) ValidatePool(ctx sdk.Context, lptDenom string) error { return nil }
