package farm

import (
	sdk "github.com/cosmos/cosmos-sdk/types"

	"mods.irisnet.org/modules/farm/types"
)

// C16 "a parameter set that the module's own validation rejects is never stored ... by genesis": an otherwise
// default genesis whose parameters are arbitrary (absent, negative, huge figures; ill-formed denominations) is
// imported; either the import refuses it (error or panic), or what is stored afterwards is the given set and
// passes the module's validation.
func VerifC16_Genesis() {
	verifExpect("imported", "refused")
	e, k := c12FarmEnv(10)
	g := types.DefaultGenesisState()
	g.Params.PoolCreationFee = sdk.Coin{Denom: verifDenomAny("feeDenom", "stake"), Amount: verifIntAny("feeAmount")}
	g.Params.TaxRate = verifDecAny("taxRate")
	var vErr error
	vPanicked, _ := verifCatch(func() { vErr = g.Params.Validate() })
	panicked, what := verifCatch(func() { InitGenesis(e.ctx, k, *g) })
	if panicked {
		verifCover("refused")
		_ = what // (a genesis may be refused for reasons beyond the parameters: the cover label "imported" guards against vacuity)
		return
	}
	verifCover("imported")
	verifAssert(!vPanicked && vErr == nil, "a parameter set rejected by validation is never stored by genesis")
	verifAssert(verifDeepEqual(k.GetParams(e.ctx), g.Params), "the imported parameters are the ones in force")
}
