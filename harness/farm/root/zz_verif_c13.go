package farm

import (
	"math/big"

	sdkmath "cosmossdk.io/math"
	sdk "github.com/cosmos/cosmos-sdk/types"
	authtypes "github.com/cosmos/cosmos-sdk/x/auth/types"

	"mods.irisnet.org/modules/farm/keeper"
	"mods.irisnet.org/modules/farm/types"
)

// C13/C06: the end-block sweep at height h ends every pool queued at h: its remaining reward goes
// back to the creator exactly once, the queue entry disappears, later pools are untouched, no panic.
type c13Pool struct {
	id             string
	end            int64
	locked, remain sdkmath.Int
	rpb            sdkmath.Int
	last           int64
}

const c13H = int64(30)

// c13FarmState: one or two pools due at the current height, one due later, arbitrary within the invariants.
func c13FarmState() (*vEnv, keeper.Keeper, sdk.AccAddress, []c13Pool) {
	const h = c13H
	const lpt, reward = "lpt-1", "stake"
	e := newVEnv(types.StoreKey, h, lpt, reward)
	e.bank.modules[types.ModuleName] = []string{authtypes.Burner}
	e.bank.modules[types.RewardCollector] = nil
	e.bank.modules["fee_collector"] = nil
	e.bank.modules["distribution"] = nil
	creator := vAddr(1)
	k := keeper.NewKeeper(e.cdc, e.key, e.bank, e.acc, nil, nil, nil, "fee_collector", "distribution", vAddr(9).String())
	if err := k.SetParams(e.ctx, types.DefaultParams()); err != nil {
		verifFail("default params rejected")
	}
	zero, one, w := big.NewInt(0), big.NewInt(1), verifAmt(64)
	type ps = c13Pool
	mk := func(n string, id string, end int64) ps {
		p := ps{id: id, end: end, locked: verifIntIn("locked"+n, zero, w), remain: verifIntIn("remaining"+n, zero, w), rpb: verifIntIn("rpb"+n, one, w)}
		p.last = end - int64(verifChoice("gap"+n, 3))
		if end != h {
			p.last = h - 1
		}
		// F5: enough reward left to pay every block until the end
		verifAssume(p.remain.BigInt().Cmp(verifMul(p.rpb.BigInt(), big.NewInt(p.end-p.last))) >= 0)
		return p
	}
	pools := []ps{mk("1", "farm-1", h)}
	if verifChoice("two", 2) == 1 {
		pools = append(pools, mk("2", "farm-2", h))
		if verifTier() == 1 && verifChoice("three", 2) == 1 {
			pools = append(pools, mk("4", "farm-4", h)) // thorough tier: up to three pools ending in this block
		}
	}
	pools = append(pools, mk("3", "farm-3", h+9))
	escL, escR := big.NewInt(0), big.NewInt(0)
	for _, p := range pools {
		pool := types.FarmPool{Id: p.id, Creator: creator.String(), Description: "p", StartHeight: 5, EndHeight: p.end, LastHeightDistrRewards: p.last,
			Editable: true, TotalLptLocked: sdk.Coin{Denom: lpt, Amount: p.locked}}
		k.SetPool(e.ctx, pool)
		total := p.remain.Add(sdkmath.NewInt(7))
		k.SetRewardRule(e.ctx, p.id, types.RewardRule{Reward: reward, TotalReward: total, RemainingReward: p.remain, RewardPerBlock: p.rpb,
			RewardPerShare: verifDec("rps"+p.id, zero, verifMul(verifAmt(64), verifPow10(18)))})
		k.EnqueueActivePool(e.ctx, p.id, p.end)
		escL, escR = verifAdd(escL, p.locked.BigInt()), verifAdd(escR, p.remain.BigInt())
	}
	e.bank.fund(vModuleAddr(types.ModuleName), lpt, sdkmath.NewIntFromBigInt(escL))
	e.bank.fund(vModuleAddr(types.ModuleName), reward, sdkmath.NewIntFromBigInt(escR)) // F2
	return e, k, creator, pools
}

func VerifC13_FarmEndBlock() {
	verifExpect("swept")
	const h = c13H
	const reward = "stake"
	e, k, creator, pools := c13FarmState()
	ctx := e.ctx.WithBlockHeight(h)
	c0 := e.bank.get(creator, reward).BigInt()
	panicked, what := verifCatch(func() { EndBlocker(ctx, k) })
	if panicked {
		verifPrint(what)
	}
	verifAssert(!panicked, "end-block never panics from an invariant state")
	verifCover("swept")
	st := e.store()
	refunded := big.NewInt(0)
	for _, p := range pools {
		pool, found := k.GetPool(ctx, p.id)
		verifAssert(found, "pool records are never dropped")
		rule := k.GetRewardRules(ctx, p.id)[0]
		queued := st.Has(types.KeyActiveFarmPool(p.end, p.id))
		if p.end == h {
			verifAssert(!queued, "no queue entry at the current height remains")
			released := big.NewInt(0)
			if p.locked.BigInt().Sign() > 0 && h > p.last {
				released = verifMul(p.rpb.BigInt(), big.NewInt(h-p.last))
			}
			left := verifSub(p.remain.BigInt(), released)
			if left.Sign() > 0 {
				verifAssert(rule.RemainingReward.IsZero(), "an ended pool keeps no remaining reward")
				verifAssert(k.Expired(ctx, pool), "an ended pool reads as expired")
				refunded = verifAdd(refunded, left)
			}
		} else {
			verifAssert(queued && rule.RemainingReward.Equal(p.remain) && pool.EndHeight == p.end, "pools due later are untouched")
		}
	}
	verifAssert(verifSub(e.bank.get(creator, reward).BigInt(), c0).Cmp(refunded) == 0, "creators get back exactly the remaining reward, once")
}
