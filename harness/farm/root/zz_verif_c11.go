package farm

// C11 (self-composition): the farm end-block sweep with one or two pools ending at this height, executed
// twice from the same state under symbolic map order and host clock: the same store, key for key, and the
// same balances.
func VerifC11_FarmEndBlock() {
	verifExpect("same")
	e, k, _, _ := c13FarmState()
	ctx := e.ctx.WithBlockHeight(c13H)
	same := e.verifSameTwice(func() { EndBlocker(ctx, k) })
	verifCover("same")
	verifAssert(same, "two executions of the same end-block on the same state end in the same state")
}
