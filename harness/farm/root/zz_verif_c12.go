package farm

import (
	"math/big"

	sdkmath "cosmossdk.io/math"
	sdk "github.com/cosmos/cosmos-sdk/types"
	authtypes "github.com/cosmos/cosmos-sdk/x/auth/types"

	"mods.irisnet.org/modules/farm/keeper"
	"mods.irisnet.org/modules/farm/types"
)

func c12FarmEnv(height int64) (*vEnv, keeper.Keeper) {
	e := newVEnv(types.StoreKey, height, "lpt-1", "stake")
	e.bank.modules[types.ModuleName] = []string{authtypes.Burner}
	e.bank.modules[types.RewardCollector] = nil
	e.bank.modules["fee_collector"] = nil
	e.bank.modules["distribution"] = nil
	k := keeper.NewKeeper(e.cdc, e.key, e.bank, e.acc, nil, nil, nil, "fee_collector", "distribution", vAddr(9).String())
	return e, k
}

// C12 farm: a state reached through real operations (create pool, stakes, optionally a harvest) is exported
// mid-life, in the block of the pool's end height, after the pool has ended, or after its creator destroyed it; it validates, imports without panic
// into a fresh store at the same height, every pool / stake / pending-reward query answers identically, the
// end-height queue is rebuilt, and a second export equals the first.
func VerifC12_Farm() {
	verifExpect("roundtrip", "ended", "destroyed")
	const h0 = int64(10)
	e, k := c12FarmEnv(h0)
	// a parameter set the authority has changed (every figure differs from the defaults): the export carries it
	par := types.DefaultParams()
	if verifChoice("changedParams", 2) == 1 {
		par.PoolCreationFee = sdk.NewInt64Coin("stake", 4321)
		par.MaxRewardCategories = 3
		par.TaxRate = sdkmath.LegacyNewDecWithPrec(25, 2)
	}
	if err := k.SetParams(e.ctx, par); err != nil {
		verifFail("valid params rejected")
	}
	creator, alice, bob := vAddr(1), vAddr(2), vAddr(3)
	one := big.NewInt(1)
	rpb := sdkmath.NewInt(int64(1 + verifChoice("rpb", 3)))
	blocks := int64(4 + verifChoice("blocks", 3)) // the pool lasts 4..6 blocks
	total := rpb.MulRaw(blocks)
	e.bank.fund(creator, "stake", total.Add(sdkmath.NewInt(5000)))
	at := func(h int64) sdk.Context { return e.ctx.WithBlockHeight(h) }
	pool, err := k.CreatePool(at(h0), "pool", "lpt-1", h0, sdk.NewCoins(sdk.Coin{Denom: "stake", Amount: rpb}), sdk.NewCoins(sdk.Coin{Denom: "stake", Amount: total}), true, creator)
	verifAssume(err == nil)
	sa := verifIntIn("stakeAlice", one, verifPow2(40))
	sb := verifIntIn("stakeBob", one, verifPow2(40))
	e.bank.fund(alice, "lpt-1", sa)
	e.bank.fund(bob, "lpt-1", sb)
	_, err = k.Stake(at(h0+1), pool.Id, sdk.Coin{Denom: "lpt-1", Amount: sa}, alice)
	verifAssume(err == nil)
	if verifChoice("second", 2) == 1 {
		_, err = k.Stake(at(h0+2), pool.Id, sdk.Coin{Denom: "lpt-1", Amount: sb}, bob)
		verifAssume(err == nil)
	}
	if verifChoice("harvest", 2) == 1 {
		_, err = k.Harvest(at(h0+3), pool.Id, alice)
		verifAssume(err == nil)
	}
	// exported in the middle of the pool's life, or in the very block of its end height (still active)
	p, _ := k.GetPool(at(h0), pool.Id)
	hx := h0 + 3
	switch verifChoice("exportWhen", 4) {
	case 1:
		hx = p.EndHeight
	case 2:
		// the pool has ended: the end-block handler of its end height has run (what is left goes back to the
		// creator, every rule's remaining reward becomes zero); ended pools stay in the store - farmers
		// withdraw from them later
		EndBlocker(at(p.EndHeight), k)
		hx = p.EndHeight + 1
		verifCover("ended")
	case 3:
		// the creator destroys the pool
		_, err = k.DestroyPool(at(hx), pool.Id, creator)
		verifAssume(err == nil)
		hx++
		verifCover("destroyed")
	}
	ctx := at(hx)
	g := ExportGenesis(ctx, k)
	verifAssert(types.ValidateGenesis(*g) == nil, "the exported genesis passes the module's own validation")
	e2, k2 := c12FarmEnv(hx)
	e2.bank.restore(e.bank.snapshot())
	panicked, what := verifCatch(func() { InitGenesis(e2.ctx, k2, *g) })
	if panicked {
		verifPrint(what)
	}
	verifAssert(!panicked, "the exported genesis imports without panic")
	verifCover("roundtrip")
	p1, _ := k.GetPool(ctx, pool.Id)
	p2, ok := k2.GetPool(e2.ctx, pool.Id)
	verifAssert(ok && verifDeepEqual(p1, p2), "the pool answers identically after re-import")
	verifAssert(verifDeepEqual(k.GetRewardRules(ctx, pool.Id), k2.GetRewardRules(e2.ctx, pool.Id)), "the reward rules answer identically after re-import")
	for _, who := range []sdk.AccAddress{alice, bob} {
		f1, ok1 := k.GetFarmInfo(ctx, pool.Id, who.String())
		f2, ok2 := k2.GetFarmInfo(e2.ctx, pool.Id, who.String())
		verifAssert(ok1 == ok2 && verifDeepEqual(f1, f2), "every stake answers identically after re-import")
	}
	verifAssert(e2.store().Has(types.KeyActiveFarmPool(p1.EndHeight, pool.Id)) == e.store().Has(types.KeyActiveFarmPool(p1.EndHeight, pool.Id)), "a running pool is queued for its end height after re-import (it will be ended by the end-block handler)")
	verifAssert(k2.GetSequence(e2.ctx) == k.GetSequence(ctx), "the pool sequence survives")
	verifAssert(verifDeepEqual(k2.GetParams(e2.ctx), par) && verifDeepEqual(g.Params, par), "the parameters in force survive export and import")
	g2 := ExportGenesis(e2.ctx, k2)
	verifAssert(verifDeepEqual(*g, *g2), "a second export equals the first")
}
