package types

import (
	"math/big"
)

// C18 (range): for every block time > 0, requester and optional oracle seed the number is a
// fraction num/den with 0 <= num < den and den | 10^20 (20 fractional digits).
// SHA-256 of the derived seed is an abstract hash with range [0,2^256).
func VerifC18_GetRand() {
	verifExpect("plain", "oracle")
	ts := verifInt64("blockTime")
	verifAssume(ts > 0) // a block time at the Unix epoch divides by zero; outside the claim
	blockHash := []byte("some-app-hash-of-the-previous-block")
	requester := []byte{1, 2, 3, 4, 5, 6, 7, 8, 9, 10, 11, 12, 13, 14, 15, 16, 17, 18, 19, 20}
	oracle := verifChoice("oracle", 2) == 1
	var seed []byte
	if oracle {
		seed = make([]byte, SeedBytesLength)
		seed[0] = 7
	}
	r := MakePRNG(blockHash, ts, requester, seed, oracle).GetRand()
	if oracle {
		verifCover("oracle")
	} else {
		verifCover("plain")
	}
	num, den := r.Num(), r.Denom()
	verifAssert(num.Sign() >= 0, "random number is not negative")
	verifAssert(num.Cmp(den) < 0, "random number is below 1")
	verifAssert(den.Sign() > 0, "denominator positive")
	p20 := verifPow10(RandPrec)
	verifAssert(new(big.Int).Mod(p20, den).Sign() == 0, "at most 20 fractional digits")
}

// c18Reference: the number the property specifies, written out independently of GetRand: with t the block time,
//
//	seed = t + H(appHash)/t + H(requester)/t [+ H(oracleSeed)/t]      (integer divisions, H = SHA-256 as a 256-bit number)
//	number = (H(bytes(seed)) mod 10^20) / 10^20
func c18Reference(appHash []byte, t int64, requester, oracleSeed []byte, oracle bool) *big.Rat {
	T := big.NewInt(t)
	h := func(b []byte) *big.Int { return new(big.Int).SetBytes(SHA256(b)) }
	sum := new(big.Int).Set(T)
	sum = new(big.Int).Add(sum, new(big.Int).Div(h(appHash), big.NewInt(t)))
	sum = new(big.Int).Add(sum, new(big.Int).Div(h(requester), big.NewInt(t)))
	if oracle {
		sum = new(big.Int).Add(sum, new(big.Int).Div(h(oracleSeed), big.NewInt(t)))
	}
	p20 := verifPow10(RandPrec)
	return new(big.Rat).SetFrac(new(big.Int).Mod(h(sum.Bytes()), p20), p20)
}

// C18 (derivation): the number is exactly the specified function of the previous block's app hash, the block
// time, the requester and - for oracle-seeded requests only - the oracle seed; every term is divided by the
// block time itself.  Concrete block times (the hash of the mixed seed is then a real SHA-256), both request
// kinds, two seeds, empty and non-empty app hash.
func VerifC18_Derivation() {
	verifExpect("plain", "oracle")
	t := []int64{1, 7, 1700000000, 1700000001, 1 << 40}[verifChoice("blockTime", 5)]
	var appHash []byte
	if verifChoice("emptyAppHash", 2) == 0 {
		appHash = []byte("some-app-hash-of-the-previous-block")
	}
	requester := []byte{1, 2, 3, 4, 5, 6, 7, 8, 9, 10, 11, 12, 13, 14, 15, 16, 17, 18, 19, byte(20 + verifChoice("requester", 2))}
	oracle := verifChoice("oracle", 2) == 1
	var seed []byte
	if oracle {
		seed = make([]byte, SeedBytesLength)
		seed[0], seed[31] = byte(7+verifChoice("seed", 2)), 0xfe
		verifCover("oracle")
	} else {
		verifCover("plain")
	}
	got := MakePRNG(appHash, t, requester, seed, oracle).GetRand()
	want := c18Reference(appHash, t, requester, seed, oracle)
	verifAssert(got.Num().Cmp(want.Num()) == 0 && got.Denom().Cmp(want.Denom()) == 0, "the number is the specified function of app hash, block time, requester and oracle seed")
	verifAssert(got.FloatString(RandPrec) == want.FloatString(RandPrec) && len(got.FloatString(RandPrec)) == 2+RandPrec, "its text has exactly 20 fractional digits")
	// the same inputs give the same number again; the generator does not disturb its inputs
	again := MakePRNG(appHash, t, requester, seed, oracle).GetRand()
	verifAssert(again.Num().Cmp(got.Num()) == 0 && again.Denom().Cmp(got.Denom()) == 0, "the same chain data give the same number")
}
