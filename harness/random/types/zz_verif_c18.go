package types

import (
	"math/big"
)

// C18 (range): for every block time > 0, requester and optional oracle seed the number is a
// fraction num/den with 0 <= num < den and den | 10^20 (20 fractional digits).
// SHA-256 of the derived seed is an abstract hash with range [0,2^256).
func VerifC18_GetRand() {
	verifExpect("plain", "oracle")
	ts := verifInt64("blockTime")
	verifAssume(ts > 0) // a block time at the Unix epoch divides by zero; outside the claim
	blockHash := []byte("some-app-hash-of-the-previous-block")
	requester := []byte{1, 2, 3, 4, 5, 6, 7, 8, 9, 10, 11, 12, 13, 14, 15, 16, 17, 18, 19, 20}
	oracle := verifChoice("oracle", 2) == 1
	var seed []byte
	if oracle {
		seed = make([]byte, SeedBytesLength)
		seed[0] = 7
	}
	r := MakePRNG(blockHash, ts, requester, seed, oracle).GetRand()
	if oracle {
		verifCover("oracle")
	} else {
		verifCover("plain")
	}
	num, den := r.Num(), r.Denom()
	verifAssert(num.Sign() >= 0, "random number is not negative")
	verifAssert(num.Cmp(den) < 0, "random number is below 1")
	verifAssert(den.Sign() > 0, "denominator positive")
	p20 := verifPow10(RandPrec)
	verifAssert(new(big.Int).Mod(p20, den).Sign() == 0, "at most 20 fractional digits")
}
