package random

import (
	"bytes"
	"time"

	storetypes "cosmossdk.io/store/types"
	tmbytes "github.com/cometbft/cometbft/libs/bytes"
	sdk "github.com/cosmos/cosmos-sdk/types"

	"mods.irisnet.org/modules/random/keeper"
	"mods.irisnet.org/modules/random/types"
	service "mods.irisnet.org/modules/service/exported"
	servicetypes "mods.irisnet.org/modules/service/types"
)

// vService: the random module's view of the service keeper; starting a context succeeds or
// fails nondeterministically.
type vService struct {
	types.ServiceKeeper
	startFails  bool
	started     []string
	bindings    *vStore  // the bindings of the random service, as the service module's iterator yields them
	chosen      []string // providers handed to CreateRequestContext
	contextGone bool
}

func (s *vService) RegisterResponseCallback(string, service.ResponseCallback) error { return nil }
func (s *vService) RegisterStateCallback(string, service.StateCallback) error       { return nil }
func (s *vService) StartRequestContext(ctx sdk.Context, id tmbytes.HexBytes, consumer sdk.AccAddress) error {
	if s.startFails {
		return servicetypes.ErrUnknownRequestContext
	}
	s.started = append(s.started, id.String())
	return nil
}
func (s *vService) ServiceBindingsIterator(ctx sdk.Context, name string) storetypes.Iterator {
	if s.bindings == nil {
		return nil
	}
	return s.bindings.Iterator(nil, nil)
}
func (s *vService) GetParams(ctx sdk.Context) servicetypes.Params {
	return servicetypes.DefaultParams()
}
func (s *vService) CreateRequestContext(ctx sdk.Context, serviceName string, providers []sdk.AccAddress, consumer sdk.AccAddress, input string,
	feeCap sdk.Coins, timeout int64, repeated bool, freq uint64, total int64, state service.RequestContextState, threshold uint32, module string) (tmbytes.HexBytes, error) {
	for _, p := range providers {
		s.chosen = append(s.chosen, p.String())
	}
	return tmbytes.HexBytes(bytes.Repeat([]byte{7}, 32)), nil
}

// C18/C13: a request made at height h0 with interval n sits under (h0+n, id); the begin-block of
// height h0+n+1 fulfils exactly the requests queued at h0+n, once, and removes them; requests at other
// heights are untouched; the stored number reads back by id; no panic for block time > 0.
func VerifC18_BeginBlock() {
	verifExpect("fulfilled")
	// the requests are made at an ordinary height - or in the chain's very first block (due at height 1 with interval 0)
	h0 := []int64{40, 1}[verifChoice("firstBlock", 2)]
	e := newVEnv(types.StoreKey, h0)
	svc := &vService{startFails: verifChoice("startFails", 2) == 1}
	k := keeper.NewKeeper(e.cdc, e.key, e.bank, svc)
	interval := uint64(verifChoice("interval", 3)) // 0,1,2
	alice, bob := vAddr(1), vAddr(2)
	// requesters whose request ids (hashes of height and requester) begin with the highest / the lowest byte
	// value: the ids at the two ends of every per-height key range of the pending queue
	edge := c18EdgeRequester(h0, []byte{0xff, 0x00}[verifChoice("edgeId", 2)])
	// two requests in the same block from distinct requesters, one later request by alice
	reqA, errA := k.RequestRandom(e.ctx.WithTxBytes([]byte("tx-a")), alice, interval, false, nil)
	reqB, errB := k.RequestRandom(e.ctx.WithTxBytes([]byte("tx-b")), bob, interval, false, nil)
	later := e.ctx.WithBlockHeight(h0 + 1).WithTxBytes([]byte("tx-c"))
	reqC, errC := k.RequestRandom(later, alice, interval, false, nil)
	reqE, errE := k.RequestRandom(e.ctx.WithTxBytes([]byte("tx-e")), edge, interval, false, nil)
	// alice also asked one block earlier, with an interval one block longer: two requests of ONE requester due
	// at the same height (ids differ: they hash the height of the request)
	var idD []byte
	twoOfAlice := h0 > 1 && verifChoice("sameRequesterSameDueHeight", 2) == 1
	if twoOfAlice {
		reqD, errD := k.RequestRandom(e.ctx.WithBlockHeight(h0-1).WithTxBytes([]byte("tx-d")), alice, interval+1, false, nil)
		verifAssert(errD == nil, "plain random requests are accepted")
		idD = types.GenerateRequestID(reqD)
	}
	verifAssert(errA == nil && errB == nil && errC == nil && errE == nil, "plain random requests are accepted")
	idE := types.GenerateRequestID(reqE)
	idA, idB, idC := types.GenerateRequestID(reqA), types.GenerateRequestID(reqB), types.GenerateRequestID(reqC)
	verifAssert(!bytes.Equal(idA, idB) && !bytes.Equal(idA, idC), "distinct (requester, height) pairs get distinct ids")
	// an oracle-seeded request due at the same height
	oracleCtxID := tmbytes.HexBytes(bytes.Repeat([]byte{9}, 32))
	reqO := types.NewRequest(h0, vAddr(3).String(), "aa", true, nil, oracleCtxID.String())
	idO := types.GenerateRequestID(reqO)
	k.EnqueueRandomRequest(e.ctx, h0+int64(interval), idO, reqO)
	st := e.store()
	due := h0 + int64(interval)
	verifAssert(st.Has(types.KeyRandomRequestQueue(due, idA)) && st.Has(types.KeyRandomRequestQueue(due, idB)) && st.Has(types.KeyRandomRequestQueue(due+1, idC)), "a request made at h with interval n is queued under h+n")
	now := verifInt64("blockTime")
	verifAssume(now > 0 && now < 1<<40)
	hdr := e.ctx.BlockHeader()
	hdr.Height, hdr.Time, hdr.AppHash = due+1, time.Unix(now, 0), []byte("app-hash")
	if verifChoice("emptyAppHash", 2) == 1 {
		hdr.AppHash = nil // e.g. the first block after genesis
	}
	// ... or a concrete block time at which alice's number ends in the digit 0 (one draw in ten does): the
	// stored text still has its 20 fractional digits
	endsInZero := verifChoice("numberEndsInZero", 2) == 1
	if endsInZero {
		now = c18TimeEndingInZero(hdr.AppHash, alice)
		hdr.Time = time.Unix(now, 0)
	}
	ctx := e.ctx.WithBlockHeader(hdr).WithHeaderHash([]byte("hash-of-the-fulfilling-block"))
	// nothing happens before the due block
	early := ctx.WithBlockHeight(due)
	if interval > 0 {
		BeginBlocker(early, k)
		_, errEarly := k.GetRandom(early, idA)
		verifAssert(errEarly != nil && st.Has(types.KeyRandomRequestQueue(due, idA)), "a request is not fulfilled before the block after h+n")
	}
	panicked, what := verifCatch(func() { BeginBlocker(ctx, k) })
	if panicked {
		verifPrint(what)
	}
	verifAssert(!panicked, "begin-block never panics for block time > 0")
	verifCover("fulfilled")
	ra, ea := k.GetRandom(ctx, idA)
	rb, eb := k.GetRandom(ctx, idB)
	_, ec := k.GetRandom(ctx, idC)
	re, ee := k.GetRandom(ctx, idE)
	verifAssert(ea == nil && eb == nil && ee == nil, "every request due is fulfilled in the block after h+n")
	if twoOfAlice {
		_, ed := k.GetRandom(ctx, idD)
		verifAssert(ed == nil && !st.Has(types.KeyRandomRequestQueue(due, idD)), "two requests of one requester due at the same height are both fulfilled and removed")
	}
	verifAssert(re.Value == types.MakePRNG(hdr.AppHash, now, edge, nil, false).GetRand().FloatString(types.RandPrec) && !st.Has(types.KeyRandomRequestQueue(due, idE)),
		"a request whose id lies at the end of the height's key range is fulfilled and removed like any other")
	// each number is derived from the block's app hash and time and from the request's OWN consumer
	expA := types.MakePRNG(hdr.AppHash, now, alice, nil, false).GetRand().FloatString(types.RandPrec)
	expB := types.MakePRNG(hdr.AppHash, now, bob, nil, false).GetRand().FloatString(types.RandPrec)
	verifAssert(ra.Value == expA && rb.Value == expB, "each request's number is derived from the block and from its own requester")
	if endsInZero {
		verifAssert(len(ra.Value) == 2+types.RandPrec && ra.Value[:2] == "0." && ra.Value[len(ra.Value)-1] == '0', "the number is stored with its 20 fractional digits, trailing zeros included")
	}
	verifAssert(ec != nil && st.Has(types.KeyRandomRequestQueue(due+1, idC)), "requests due later are untouched")
	verifAssert(!st.Has(types.KeyRandomRequestQueue(due, idA)) && !st.Has(types.KeyRandomRequestQueue(due, idB)) && !st.Has(types.KeyRandomRequestQueue(due, idO)), "fulfilled requests leave the pending queue")
	verifAssert(ra.Height == due && rb.Height == due && ra.RequestTxHash == reqA.TxHash && rb.RequestTxHash == reqB.TxHash, "result is stored under the request's id with its tx hash")
	// oracle branch: started context => moved to the oracle table; failure => dropped
	_, eo := k.GetOracleRandRequest(ctx, oracleCtxID)
	verifAssert((eo == nil) == !svc.startFails, "oracle request moves to the oracle table iff its service context started")
	// a second begin-block at the same height fulfils nothing again
	BeginBlocker(ctx, k)
	ra2, _ := k.GetRandom(ctx, idA)
	verifAssert(ra2.Value == ra.Value && ra2.Height == ra.Height, "a result can be read back unchanged")
}

// C11 (repeated runs in one process and a fresh process): the provider chosen for an oracle-seeded random
// request is a function of the block data and the requester only - executing the same request again on
// the same state, in the same process or in a new one, picks the same provider.
func verifProc_c11random() []int64 {
	e := newVEnv(types.StoreKey, 40)
	svc := &vService{bindings: &vStore{}}
	for i := byte(0); i < 5; i++ {
		b := servicetypes.ServiceBinding{ServiceName: types.ServiceName, Provider: vAddr(20 + i).String(), Available: true}
		svc.bindings.Set([]byte{i}, e.cdc.MustMarshal(&b))
	}
	k := keeper.NewKeeper(e.cdc, e.key, e.bank, svc)
	hdr := e.ctx.BlockHeader()
	hdr.Time, hdr.AppHash = time.Unix(1700000000, 0), []byte("app-hash")
	ctx := e.ctx.WithBlockHeader(hdr)
	var fp []int64
	for round := 0; round < 4; round++ {
		for _, who := range []sdk.AccAddress{vAddr(1), vAddr(2)} {
			svc.chosen = nil
			if _, err := k.RequestService(ctx, who, nil); err != nil {
				verifFail("oracle request refused")
			}
			for i := byte(0); i < 5; i++ {
				if len(svc.chosen) == 1 && svc.chosen[0] == vAddr(20+i).String() {
					fp = append(fp, int64(i))
				}
			}
		}
	}
	return fp
}

func init() { verifProcRegistry["c11random"] = verifProc_c11random }

func VerifC11_RandomProviderChoice() {
	verifExpect("compared")
	fp1 := verifProc_c11random()
	fp2 := verifInFreshProcess("c11random")
	verifCover("compared")
	verifAssert(len(fp1) == 8 && len(fp2) == 8, "every request picks exactly one provider")
	for i := 2; i < len(fp1); i++ {
		verifAssert(fp1[i] == fp1[i%2], "executing the same request again on the same state picks the same provider")
	}
	same := len(fp1) == len(fp2)
	for i := 0; same && i < len(fp1); i++ {
		same = fp1[i] == fp2[i]
	}
	verifAssert(same, "a restarted process picks the same providers")
}

func (s *vService) GetRequestContext(ctx sdk.Context, id tmbytes.HexBytes) (service.RequestContext, bool) {
	if s.contextGone {
		return service.RequestContext{}, false
	}
	return service.RequestContext{ServiceName: types.ServiceName, ModuleName: types.ModuleName}, true
}

// C18 (oracle-seeded requests): requested through the keeper (a paused service context is created for one
// of the bound providers), moved to the oracle table by the begin-block after h+n when its context starts,
// and fulfilled when - and only when - the seed response arrives: the number is derived from the app hash
// and time of the block that carries the response, the requester and the provider's seed, is stored under
// the request's id and the entry disappears from the oracle table.  A failed or timed-out service call
// (error, no outputs), a vanished context or a state-change notification drops the request without a
// number; a second callback (duplicate, or a response after the drop) changes nothing.
func VerifC18_OracleResponse() {
	verifExpect("fulfilled", "dropped")
	const h0 = int64(40)
	e := newVEnv(types.StoreKey, h0)
	svc := &vService{bindings: &vStore{}}
	b := servicetypes.ServiceBinding{ServiceName: types.ServiceName, Provider: vAddr(20).String(), Available: true}
	svc.bindings.Set([]byte{0}, e.cdc.MustMarshal(&b))
	k := keeper.NewKeeper(e.cdc, e.key, e.bank, svc)
	alice := vAddr(1)
	interval := uint64(verifChoice("interval", 2))
	hdr0 := e.ctx.BlockHeader()
	hdr0.Time, hdr0.AppHash = time.Unix(1700000000, 0), []byte("app-hash-0")
	req, err := k.RequestRandom(e.ctx.WithBlockHeader(hdr0).WithTxBytes([]byte("tx-o")), alice, interval, true, nil)
	verifAssert(err == nil, "an oracle-seeded request is accepted when a provider is bound")
	verifAssert(len(svc.chosen) == 1 && svc.chosen[0] == vAddr(20).String(), "the service context addresses a bound provider")
	ctxID := tmbytes.HexBytes(bytes.Repeat([]byte{7}, 32))
	verifAssert(req.Oracle && req.ServiceContextID == ctxID.String() && req.Consumer == alice.String() && req.Height == h0, "the request records its service context, requester and height")
	idO := types.GenerateRequestID(req)
	due := h0 + int64(interval)
	st := e.store()
	verifAssert(st.Has(types.KeyRandomRequestQueue(due, idO)), "an oracle-seeded request made at h with interval n is queued under h+n")
	// the block after h+n starts the context
	hdr1 := hdr0
	hdr1.Height, hdr1.Time = due+1, time.Unix(1700000100, 0)
	BeginBlocker(e.ctx.WithBlockHeader(hdr1), k)
	_, eo := k.GetOracleRandRequest(e.ctx, ctxID)
	verifAssert(eo == nil && !st.Has(types.KeyRandomRequestQueue(due, idO)) && len(svc.started) == 1 && svc.started[0] == ctxID.String(), "the block after h+n starts the service context and moves the request to the oracle table")
	_, er0 := k.GetRandom(e.ctx, idO)
	verifAssert(er0 != nil, "no number exists before the seed response arrives")
	// the block that carries the outcome of the service call
	now := verifInt64("blockTime")
	verifAssume(now > 0 && now < 1<<40)
	hdr2 := hdr0
	hdr2.Height, hdr2.Time, hdr2.AppHash = due+3, time.Unix(now, 0), []byte("app-hash-2")
	if verifChoice("emptyAppHash", 2) == 1 {
		hdr2.AppHash = nil
	}
	seedHex := []string{"00000000000000000000000000000000000000000000000000000000000000aa", "ffeeddccbbaa99887766554433221100ffeeddccbbaa99887766554433221100"}[verifChoice("seed", 2)]
	endsInZero := verifChoice("numberEndsInZero", 2) == 1
	if endsInZero {
		// a concrete block time at which the seeded number ends in the digit 0
		sd := make([]byte, 32)
		for i := 0; i < 32; i++ {
			sd[i] = c18hex(seedHex[2*i])<<4 | c18hex(seedHex[2*i+1])
		}
		now = 0
		for t := int64(1700000000); t < 1700000400 && now == 0; t++ {
			if v := types.MakePRNG(hdr2.AppHash, t, alice, sd, true).GetRand().FloatString(types.RandPrec); v[len(v)-1] == '0' {
				now = t
			}
		}
		if now == 0 {
			verifFail("no block time with a number ending in 0 found")
		}
		hdr2.Time = time.Unix(now, 0)
	}
	ctx := e.ctx.WithBlockHeader(hdr2).WithHeaderHash([]byte("hash-of-the-block"))
	good := `{"header":{},"body":{"seed":"` + seedHex + `"}}`
	other := `{"header":{},"body":{"seed":"1111111111111111111111111111111111111111111111111111111111111111"}}`
	outcome := verifChoice("outcome", 5)
	panicked, what := verifCatch(func() {
		switch outcome {
		case 0: // the provider answered
			k.HandlerResponse(ctx, ctxID, []string{good}, nil)
		case 1: // the call failed or timed out: threshold not met
			k.HandlerResponse(ctx, ctxID, nil, servicetypes.ErrInvalidResponse)
		case 2: // an answer arrived but the batch failed all the same
			k.HandlerResponse(ctx, ctxID, []string{good}, servicetypes.ErrInvalidResponse)
		case 3: // the context vanished
			svc.contextGone = true
			k.HandlerResponse(ctx, ctxID, []string{good}, nil)
		case 4: // the context was paused or completed before an answer: state-change notification
			k.HandlerStateChanged(ctx, ctxID, "insufficient balances")
		}
	})
	if panicked {
		verifPrint(what)
	}
	verifAssert(!panicked, "the callbacks never panic")
	rnd, er := k.GetRandom(ctx, idO)
	_, eo = k.GetOracleRandRequest(ctx, ctxID)
	verifAssert(eo != nil, "the request leaves the oracle table with the outcome of its service call")
	if outcome == 0 {
		verifCover("fulfilled")
		verifAssert(er == nil, "the request is fulfilled when the seed response arrives")
		seed := make([]byte, 32)
		for i := 0; i < 32; i++ {
			seed[i] = c18hex(seedHex[2*i])<<4 | c18hex(seedHex[2*i+1])
		}
		exp := types.MakePRNG(hdr2.AppHash, now, alice, seed, true).GetRand().FloatString(types.RandPrec)
		verifAssert(rnd.Value == exp, "the number is derived from the block's app hash and time, the requester and the oracle seed")
		verifAssert(rnd.Height == due+2 && rnd.RequestTxHash == req.TxHash, "the result is stored under the request's id with its tx hash")
		if endsInZero {
			verifAssert(len(rnd.Value) == 2+types.RandPrec && rnd.Value[:2] == "0." && rnd.Value[len(rnd.Value)-1] == '0', "the number is stored with its 20 fractional digits, trailing zeros included")
		}
	} else {
		verifCover("dropped")
		verifAssert(er != nil, "a failed, timed-out or abandoned service call yields no number")
	}
	// whatever arrives afterwards changes nothing
	svc.contextGone = false
	later := ctx.WithBlockHeight(due + 4)
	k.HandlerResponse(later, ctxID, []string{other}, nil)
	rnd2, er2 := k.GetRandom(later, idO)
	verifAssert((er2 == nil) == (er == nil) && rnd2.Value == rnd.Value && rnd2.Height == rnd.Height, "a request is fulfilled at most once; the result reads back unchanged")
}

func c18hex(c byte) byte {
	if c >= 'a' {
		return c - 'a' + 10
	}
	return c - '0'
}

// c18EdgeRequester searches (concretely) for a requester whose request id at the given height begins with the given byte.
func c18EdgeRequester(height int64, first byte) sdk.AccAddress {
	for a := 0; a < 256; a++ {
		for b := 0; b < 256; b++ {
			addr := make(sdk.AccAddress, 20)
			addr[0], addr[1], addr[19] = byte(a), byte(b), 0x5a
			if types.GenerateRequestID(types.Request{Height: height, Consumer: addr.String()})[0] == first {
				return addr
			}
		}
	}
	verifFail("no requester with the wanted id prefix found")
	return nil
}

// c18TimeEndingInZero searches (concretely) for a block time at which the requester's number ends in the digit 0.
func c18TimeEndingInZero(appHash []byte, who sdk.AccAddress) int64 {
	for t := int64(1700000000); t < 1700000400; t++ {
		v := types.MakePRNG(appHash, t, who, nil, false).GetRand().FloatString(types.RandPrec)
		if v[len(v)-1] == '0' {
			return t
		}
	}
	verifFail("no block time with a number ending in 0 found")
	return 0
}

// C18 "several requests falling due at the same height": SIXTY requests of distinct requesters due at one
// height (and three due one block later) - a long concrete history: the begin-block of the next block fulfils
// every one of them, each with the number derived for its own requester, and empties the height's queue;
// the later ones stay.
func VerifC18_ManyDue() {
	verifExpect("fulfilled")
	const h0, n = int64(40), 60
	e := newVEnv(types.StoreKey, h0)
	k := keeper.NewKeeper(e.cdc, e.key, e.bank, &vService{})
	addr := func(i int) sdk.AccAddress {
		a := make(sdk.AccAddress, 20)
		a[0], a[1], a[19] = byte(i), byte(i*7), 0x33
		return a
	}
	var ids [][]byte
	for i := 0; i < n+3; i++ {
		ctx := e.ctx.WithTxBytes([]byte{byte(i), 1})
		interval := uint64(2)
		if i >= n {
			interval = 3
		}
		req, err := k.RequestRandom(ctx, addr(i), interval, false, nil)
		verifAssert(err == nil, "plain random requests are accepted")
		ids = append(ids, types.GenerateRequestID(req))
	}
	now := int64(1700000000 + verifChoice("blockTime", 3))
	hdr := e.ctx.BlockHeader()
	hdr.Height, hdr.Time, hdr.AppHash = h0+3, time.Unix(now, 0), []byte("app-hash")
	ctx := e.ctx.WithBlockHeader(hdr)
	panicked, what := verifCatch(func() { BeginBlocker(ctx, k) })
	if panicked {
		verifPrint(what)
	}
	verifAssert(!panicked, "begin-block never panics")
	verifCover("fulfilled")
	st := e.store()
	done := 0
	for i := 0; i < n; i++ {
		r, err := k.GetRandom(ctx, ids[i])
		if err == nil && r.Value == types.MakePRNG(hdr.AppHash, now, addr(i), nil, false).GetRand().FloatString(types.RandPrec) && !st.Has(types.KeyRandomRequestQueue(h0+2, ids[i])) {
			done++
		}
	}
	verifAssert(done == n, "every one of the many requests due at one height is fulfilled in the next block and leaves the queue")
	for i := n; i < n+3; i++ {
		_, err := k.GetRandom(ctx, ids[i])
		verifAssert(err != nil && st.Has(types.KeyRandomRequestQueue(h0+3, ids[i])), "requests due later are untouched")
	}
}
