package random

import (
	"mods.irisnet.org/modules/random/keeper"
	"mods.irisnet.org/modules/random/types"
)

// C12 random: pending requests made through the keeper - several of them due at the same height - survive
// export -> import: the genesis validates, imports without panic, every pending request is queued under
// the same due height and id and reads back unchanged, and a second export equals the first.  With the
// module's prepare-for-zero-height step the due heights are rebased to the restart height, each request
// keeping its distance.
func VerifC12_Random() {
	verifExpect("roundtrip")
	// the export is taken at height h0+1: an ordinary height - or the chain's very first block (h0 = 0: every
	// request is made in block 1)
	h0 := []int64{40, 0}[verifChoice("exportInFirstBlock", 2)]
	e := newVEnv(types.StoreKey, h0)
	svc := &vService{}
	k := keeper.NewKeeper(e.cdc, e.key, e.bank, svc)
	alice, bob := vAddr(1), vAddr(2)
	type pend struct {
		due int64
		req types.Request
	}
	var all []pend
	add := func(height int64, who []byte, interval uint64, tx string) {
		ctx := e.ctx.WithBlockHeight(height).WithTxBytes([]byte(tx))
		req, err := k.RequestRandom(ctx, who, interval, false, nil)
		verifAssume(err == nil)
		all = append(all, pend{height + int64(interval), req})
	}
	i1 := uint64(1 + verifChoice("interval1", 3))
	first := h0
	third := alice
	if h0 == 0 {
		first, third = 1, vAddr(3) // (one request per requester and block: ids are derived from both)
	}
	add(first, alice, i1, "tx-a")
	add(first, bob, i1, "tx-b") // same block, same interval: due at the same height as alice's
	if verifChoice("third", 2) == 1 {
		add(h0+1, third, uint64(verifChoice("interval3", 3)), "tx-c") // may or may not coincide with the first two
	}
	now := e.ctx.WithBlockHeight(h0 + 1)
	prep := verifChoice("prepareForZeroHeight", 2) == 1
	if prep {
		PrepForZeroHeightGenesis(now, k)
	}
	g := ExportGenesis(now, k)
	verifAssert(types.ValidateGenesis(*g) == nil, "the exported genesis passes the module's own validation")
	e2 := newVEnv(types.StoreKey, 1)
	k2 := keeper.NewKeeper(e2.cdc, e2.key, e2.bank, svc)
	panicked, what := verifCatch(func() { InitGenesis(e2.ctx, k2, *g) })
	if panicked {
		verifPrint(what)
	}
	verifAssert(!panicked, "the exported genesis imports without panic")
	verifCover("roundtrip")
	st2 := e2.store()
	n2 := 0
	k2.IterateRandomRequestQueue(e2.ctx, func(int64, []byte, types.Request) bool { n2++; return false })
	verifAssert(n2 == len(all), "every pending request survives re-import, and nothing else appears")
	for _, p := range all {
		due := p.due
		if prep {
			due = p.due - (h0 + 1) + 1
		}
		id := types.GenerateRequestID(p.req)
		verifAssert(st2.Has(types.KeyRandomRequestQueue(due, id)), "a pending request is queued under its due height and id after re-import")
	}
	g2 := ExportGenesis(e2.ctx, k2)
	verifAssert(verifDeepEqual(*g, *g2), "a second export equals the first")
}
