package random

import (
	"time"

	sdk "github.com/cosmos/cosmos-sdk/types"

	"mods.irisnet.org/modules/random/keeper"
	"mods.irisnet.org/modules/random/types"
)

// C11 off-chain disturbances, random (verifOffChain, harness/rt): a number is requested; the side work
// requests further numbers and runs a begin-block; afterwards further numbers are requested and the
// begin-block of the due height derives them.
func VerifC11_RandomOffChainDisturbance() {
	verifOffChain(func() vReplica {
		const h0 = int64(40)
		e := newVEnv(types.StoreKey, h0)
		k := keeper.NewKeeper(e.cdc, e.key, e.bank, &vService{})
		a, b := vAddr(1), vAddr(2)
		begin := func(ctx sdk.Context, height int64) {
			hdr := ctx.BlockHeader()
			hdr.Height, hdr.Time, hdr.AppHash = height, time.Unix(1700000000+height, 0), []byte("app-hash")
			BeginBlocker(ctx.WithBlockHeader(hdr), k)
		}
		var r vReplica
		r.env = e
		r.first = func() {
			if _, err := k.RequestRandom(e.ctx.WithTxBytes([]byte{1}), a, 2, false, nil); err != nil {
				verifFail("request refused")
			}
		}
		r.side = func(ctx sdk.Context) error {
			if _, err := k.RequestRandom(ctx.WithTxBytes([]byte{2}), b, 2, false, nil); err != nil {
				return err
			}
			begin(ctx, h0+3)
			return nil
		}
		r.restart = func() { k = keeper.NewKeeper(e.cdc, e.key, e.bank, &vService{}) }
		r.second = func(ctx sdk.Context) []bool {
			_, e0 := k.RequestRandom(ctx.WithTxBytes([]byte{3}), b, 1, false, nil)
			_, e1 := k.RequestRandom(ctx.WithTxBytes([]byte{4}), a, 1, false, nil)
			begin(ctx, h0+3)
			left := 0
			it := k.IterateRandomRequestQueueByHeight(ctx, h0+2)
			for ; it.Valid(); it.Next() {
				left++
			}
			it.Close()
			return []bool{e0 != nil, e1 != nil, left != 0}
		}
		return r
	})
}
