package random

import (
	"time"

	"mods.irisnet.org/modules/random/keeper"
	"mods.irisnet.org/modules/random/types"
)

// C11 (self-composition): the random begin-block with two or three requests due in this block, executed
// twice from the same state under symbolic map order and host clock: the same store, key for key - the
// numbers depend on the block's app hash and time and on the requester only.
func VerifC11_RandomBeginBlock() {
	verifExpect("same")
	const h0 = int64(40)
	e := newVEnv(types.StoreKey, h0)
	k := keeper.NewKeeper(e.cdc, e.key, e.bank, &vService{})
	n := 2 + verifChoice("thirdRequest", 2)
	for i := 0; i < n; i++ {
		_, err := k.RequestRandom(e.ctx.WithTxBytes([]byte{'t', 'x', byte('a' + i)}), vAddr(byte(1+i)), 0, false, nil)
		verifAssert(err == nil, "plain random requests are accepted")
	}
	now := verifInt64("blockTime")
	verifAssume(now > 0 && now < 1<<40)
	hdr := e.ctx.BlockHeader()
	hdr.Height, hdr.Time, hdr.AppHash = h0+1, time.Unix(now, 0), []byte("app-hash")
	ctx := e.ctx.WithBlockHeader(hdr).WithHeaderHash([]byte("hash-of-the-fulfilling-block"))
	same := e.verifSameTwice(func() { BeginBlocker(ctx, k) })
	verifCover("same")
	verifAssert(same, "two executions of the same begin-block on the same state end in the same state")
}
