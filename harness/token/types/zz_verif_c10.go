package types

import (
	"math/big"
)

// C10 (fee-token swap arithmetic): LossLessSwap(offered, ratio, inScale, outScale) = (burned, minted)
//
//	A: 0 <= burned <= offered
//	B: minted*10^in*10^18 <= burned*ratioRaw*10^out     (never mints more than the burned amount is worth)
//	C: at ratio 1: burned*10^out == minted*10^in  and  offered-burned < 10^max(0,in-out)
func VerifC10_LossLessSwap() {
	verifExpect("converted")
	scales := []uint32{0, 6, 18}
	if verifTier() == 1 {
		scales = scales[:0]
		for s := uint32(0); s <= 18; s++ {
			scales = append(scales, s)
		}
	}
	in := scales[verifChoice("inScale", len(scales))]
	out := scales[verifChoice("outScale", len(scales))]
	zero, one := big.NewInt(0), big.NewInt(1)
	e18 := verifPow10(18)
	offered := verifIntIn("offered", zero, verifPow2(128))
	ratioOne := verifChoice("ratioIsOne", 2) == 1
	var ratioRaw *big.Int
	if ratioOne {
		ratioRaw = e18
	} else {
		ratioRaw = verifBig("ratio")
		verifAssume(ratioRaw.Cmp(one) >= 0 && ratioRaw.Cmp(verifMul(verifPow2(64), e18)) <= 0)
	}
	ratio := verifDecFromRaw(ratioRaw)
	var burned, minted *big.Int
	panicked, _ := verifCatch(func() {
		b, m := LossLessSwap(offered, ratio, in, out)
		burned, minted = b.BigInt(), m.BigInt()
	})
	if panicked {
		verifCover("overflow-panic")
		return
	}
	verifCover("converted")
	pin, pout := verifPow10(int64(in)), verifPow10(int64(out))
	verifAssertKnown(burned.Sign() >= 0 && minted.Sign() >= 0, "amounts are non-negative", "C10-lossless-ratio", !ratioOne)
	verifAssert(burned.Cmp(offered.BigInt()) <= 0, "A never burns more than was offered")
	verifAssertKnown(verifMul(minted, pin, e18).Cmp(verifMul(burned, ratioRaw, pout)) <= 0,
		"B never mints more than the burned amount is worth", "C10-lossless-ratio", !ratioOne)
	if ratioOne {
		verifAssert(verifMul(burned, pout).Cmp(verifMul(minted, pin)) == 0, "C exact at ratio 1")
		dust := big.NewInt(1)
		if in > out {
			dust = verifPow10(int64(in - out))
		}
		verifAssert(verifSub(offered.BigInt(), burned).Cmp(dust) < 0, "C only unconvertible dust stays with the sender")
	}
}
