package types

import (
	"math/big"

	sdkmath "cosmossdk.io/math"
)

// c10PinnedFormula is the conversion formula of the pinned tree, kept only to delimit the listed finding
// C10-lossless-ratio (see its use below).  It is NOT a specification.
func c10PinnedFormula(input sdkmath.Int, ratio sdkmath.LegacyDec, inputScale, outputScale uint32) (sdkmath.Int, sdkmath.Int) {
	inputDec := sdkmath.LegacyNewDecFromInt(input)
	scaleFactor := int64(inputScale) - int64(outputScale)
	var scaleMultipler, scaleReverseMultipler sdkmath.LegacyDec
	if scaleFactor >= 0 {
		scaleMultipler = sdkmath.LegacyNewDecWithPrec(1, scaleFactor)
		scaleReverseMultipler = sdkmath.LegacyNewDecFromInt(sdkmath.NewIntWithDecimal(1, int(scaleFactor)))
	} else {
		scaleMultipler = sdkmath.LegacyNewDecFromInt(sdkmath.NewIntWithDecimal(1, int(-scaleFactor)))
		scaleReverseMultipler = sdkmath.LegacyNewDecWithPrec(1, -scaleFactor)
	}
	outputDec := inputDec.Clone().Mul(scaleMultipler).Mul(ratio)
	outputInt := outputDec.Clone().TruncateDec()
	if !outputDec.Equal(outputInt) {
		outputFrac := outputDec.Clone().Sub(outputInt)
		inputFrac := outputFrac.Mul(scaleReverseMultipler)
		input = inputDec.Sub(inputFrac).TruncateInt()
	}
	return input, outputInt.TruncateInt()
}

func c10SamePinned(offered sdkmath.Int, ratio sdkmath.LegacyDec, in, out uint32, burned, minted *big.Int) bool {
	pb, pm := c10PinnedFormula(offered, ratio, in, out)
	return pb.Equal(sdkmath.NewIntFromBigInt(burned)) && pm.Equal(sdkmath.NewIntFromBigInt(minted))
}

// C10 (fee-token swap arithmetic): LossLessSwap(offered, ratio, inScale, outScale) = (burned, minted)
//
//	A: 0 <= burned <= offered
//	B: minted*10^in*10^18 <= burned*ratioRaw*10^out     (never mints more than the burned amount is worth)
//	C: at ratio 1: burned*10^out == minted*10^in  and  offered-burned < 10^max(0,in-out)
func VerifC10_LossLessSwap() {
	verifExpect("converted")
	scales := []uint32{0, 6, 18}
	if verifTier() == 1 {
		scales = scales[:0]
		for s := uint32(0); s <= 18; s++ {
			scales = append(scales, s)
		}
	}
	in := scales[verifChoice("inScale", len(scales))]
	out := scales[verifChoice("outScale", len(scales))]
	zero, one := big.NewInt(0), big.NewInt(1)
	e18 := verifPow10(18)
	amtW, ratioMax := verifPow2(128), verifMul(verifPow2(64), e18)
	offered := verifIntIn("offered", zero, amtW)
	ratioOne := verifChoice("ratioIsOne", 2) == 1
	var ratioRaw *big.Int
	if ratioOne {
		ratioRaw = e18
	} else {
		ratioRaw = verifBig("ratio")
		verifAssume(ratioRaw.Cmp(one) >= 0 && ratioRaw.Cmp(ratioMax) <= 0)
	}
	ratio := verifDecFromRaw(ratioRaw)
	var burned, minted *big.Int
	panicked, _ := verifCatch(func() {
		b, m := LossLessSwap(offered, ratio, in, out)
		burned, minted = b.BigInt(), m.BigInt()
	})
	if panicked {
		verifCover("overflow-panic")
		return
	}
	verifCover("converted")
	pin, pout := verifPow10(int64(in)), verifPow10(int64(out))
	verifAssertKnown(burned.Sign() >= 0 && minted.Sign() >= 0, "amounts are non-negative", "C10-lossless-ratio", !ratioOne && c10SamePinned(offered, ratio, in, out, burned, minted))
	verifAssert(burned.Cmp(offered.BigInt()) <= 0, "A never burns more than was offered")
	// Class of the listed finding C10-lossless-ratio: at a ratio other than 1 the result is the one the
	// formula of the pinned tree gives (c10PinnedFormula below: the give-back of unconverted input ignores
	// the ratio).  A result that violates B and differs from that is a different violation and is reported;
	// a repaired formula satisfies B and needs no class at all.
	pb, pm := c10PinnedFormula(offered, ratio, in, out)
	samePinned := pb.Equal(sdkmath.NewIntFromBigInt(burned)) && pm.Equal(sdkmath.NewIntFromBigInt(minted))
	verifAssertKnown(verifMul(minted, pin, e18).Cmp(verifMul(burned, ratioRaw, pout)) <= 0,
		"B never mints more than the burned amount is worth", "C10-lossless-ratio", !ratioOne && samePinned)
	if ratioOne {
		verifAssert(verifMul(burned, pout).Cmp(verifMul(minted, pin)) == 0, "C exact at ratio 1")
		dust := big.NewInt(1)
		if in > out {
			dust = verifPow10(int64(in - out))
		}
		verifAssert(verifSub(offered.BigInt(), burned).Cmp(dust) < 0, "C only unconvertible dust stays with the sender")
	}
}
