package token

import (
	sdk "github.com/cosmos/cosmos-sdk/types"

	v1 "mods.irisnet.org/modules/token/types/v1"
)

// C16 by genesis (token): the native token and arbitrary parameters.
func VerifC16_Genesis() {
	verifExpect("imported", "refused")
	e, k := c12TokenEnv()
	p := v1.DefaultParams()
	p.TokenTaxRate = verifDecAny("tokenTaxRate")
	p.MintTokenFeeRatio = verifDecAny("mintTokenFeeRatio")
	p.IssueTokenBaseFee = sdk.Coin{Denom: verifDenomAny("feeDenom", p.IssueTokenBaseFee.Denom), Amount: verifIntAny("feeAmount")}
	g := v1.NewGenesisState(p, []v1.Token{v1.GetNativeToken()})
	var vErr error
	vPanicked, _ := verifCatch(func() { vErr = p.Validate() })
	panicked, what := verifCatch(func() { InitGenesis(e.ctx, k, g) })
	if panicked {
		verifCover("refused")
		_ = what // (a genesis may be refused for reasons beyond the parameters: the cover label "imported" guards against vacuity)
		return
	}
	verifCover("imported")
	verifAssert(!vPanicked && vErr == nil, "a parameter set rejected by validation is never stored by genesis")
	verifAssert(verifDeepEqual(k.GetParams(e.ctx), p), "the imported parameters are the ones in force")
}
