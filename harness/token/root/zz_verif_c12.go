package token

import (
	"context"
	"math/big"

	sdkmath "cosmossdk.io/math"
	sdk "github.com/cosmos/cosmos-sdk/types"
	authtypes "github.com/cosmos/cosmos-sdk/x/auth/types"
	banktypes "github.com/cosmos/cosmos-sdk/x/bank/types"

	"mods.irisnet.org/modules/token/keeper"
	"mods.irisnet.org/modules/token/types"
	v1 "mods.irisnet.org/modules/token/types/v1"
)

type c12Bank struct {
	*vBank
	meta map[string]banktypes.Metadata
}

func (b c12Bank) SetDenomMetaData(ctx context.Context, m banktypes.Metadata) { b.meta[m.Base] = m }
func (b c12Bank) GetDenomMetaData(ctx context.Context, denom string) (banktypes.Metadata, bool) {
	m, ok := b.meta[denom]
	return m, ok
}

type c12Account struct{ *vAccount }

func (a c12Account) GetSequence(ctx context.Context, addr sdk.AccAddress) (uint64, error) {
	return 0, nil
}

func c12TokenEnv() (*vEnv, keeper.Keeper) {
	e := newVEnv(types.StoreKey, 10)
	e.bank.modules[types.ModuleName] = []string{authtypes.Minter, authtypes.Burner}
	e.bank.modules["fee_collector"] = nil
	k := keeper.NewKeeper(e.cdc, e.key, c12Bank{e.bank, map[string]banktypes.Metadata{}}, c12Account{e.acc}, nil, nil, "fee_collector", vAddr(9).String())
	return e, k
}

// C12 token: the native token plus one or two user tokens issued through the keeper with symbolic supplies,
// then a symbolic history of owner operations (mint, burn, lower or raise the cap, rename, switch
// mintability, hand over ownership).  The export validates, imports without panic into a fresh store, every
// token / owner / burned-amount / params query answers identically and a second export equals the first.
func VerifC12_Token() {
	verifExpect("roundtrip", "burned", "capLowered")
	e, k := c12TokenEnv()
	par := v1.DefaultParams()
	if verifChoice("changedParams", 2) == 1 {
		// a parameter set the authority has changed (every figure differs from the defaults)
		par.TokenTaxRate = sdkmath.LegacyNewDecWithPrec(15, 2)
		par.MintTokenFeeRatio = sdkmath.LegacyNewDecWithPrec(35, 2)
		par.IssueTokenBaseFee = sdk.NewInt64Coin(par.IssueTokenBaseFee.Denom, 77777)
		par.EnableErc20 = !par.EnableErc20
		par.Beacon = "0x00000000000000000000000000000000000000be"
	}
	if err := k.SetParams(e.ctx, par); err != nil {
		verifFail("valid params rejected: " + err.Error())
	}
	if err := k.AddToken(e.ctx, v1.GetNativeToken(), false); err != nil {
		verifFail("native token rejected")
	}
	owner, other := vAddr(1), vAddr(2)
	scale := []uint32{0, 6, 18}[verifChoice("scale", 3)]
	prec := verifPow10(int64(scale))
	initial := verifUint64("initial")
	max := verifUint64("max")
	verifAssume(initial <= max && initial <= types.MaximumInitSupply)
	mintable := verifBool("mintable")
	err := k.IssueToken(e.ctx, "kitty", "Kitty Token", "kit", scale, initial, max, mintable, owner)
	verifAssert(err == nil, "a valid token is issued")
	symbols := []string{"kitty"}
	if verifChoice("second", 2) == 1 {
		err = k.IssueToken(e.ctx, "doggy", "Doggy Token", "dog", 3, 5, 10, false, other)
		verifAssert(err == nil, "a second valid token is issued")
		symbols = append(symbols, "doggy")
	}
	burned, below := false, false
	switch verifChoice("history", 5) {
	case 1: // mint
		amt := verifIntIn("mint", big.NewInt(1), verifPow2(96))
		err = k.MintToken(e.ctx, sdk.Coin{Denom: "kit", Amount: amt}, owner, owner)
		verifAssume(err == nil)
	case 2: // burn, then possibly lower the cap to what is left
		amt := verifIntIn("burn", big.NewInt(1), verifMul(new(big.Int).SetUint64(initial), prec))
		err = k.BurnToken(e.ctx, sdk.Coin{Denom: "kit", Amount: amt}, owner)
		verifAssume(err == nil)
		burned = true
		if verifChoice("editAfterBurn", 2) == 1 {
			newMax := verifUint64("newMax")
			verifAssume(newMax >= 1)
			err = k.EditToken(e.ctx, "kitty", v1.DoNotModify, newMax, types.Nil, owner)
			verifAssume(err == nil)
			below = newMax < max
		}
	case 3: // rename, switch mintability
		err = k.EditToken(e.ctx, "kitty", "Renamed Token", 0, []types.Bool{types.True, types.False}[verifChoice("setMintable", 2)], owner)
		verifAssume(err == nil)
	case 4: // hand over
		err = k.TransferTokenOwner(e.ctx, "kitty", owner, other)
		verifAssume(err == nil)
	}
	g := ExportGenesis(e.ctx, k)
	if burned {
		verifCover("burned")
	}
	if below {
		verifCover("capLowered")
	}
	verr := v1.ValidateGenesis(*g)
	if verr != nil {
		verifPrint(verr.Error())
	}
	verifAssert(verr == nil, "the exported genesis passes the module's own validation")
	e2, k2 := c12TokenEnv()
	e2.bank.restore(e.bank.snapshot())
	panicked, what := verifCatch(func() { InitGenesis(e2.ctx, k2, *g) })
	if panicked {
		verifPrint(what)
	}
	verifAssert(!panicked, "the exported genesis imports without panic")
	verifCover("roundtrip")
	for _, s := range append(symbols, v1.GetNativeToken().Symbol) {
		t1, err1 := k.GetToken(e.ctx, s)
		t2, err2 := k2.GetToken(e2.ctx, s)
		verifAssert(err1 == nil && err2 == nil && verifDeepEqual(t1, t2), "every token answers identically after re-import")
	}
	for _, mu := range []string{"kit", "dog"} {
		t1, err1 := k.GetToken(e.ctx, mu)
		t2, err2 := k2.GetToken(e2.ctx, mu)
		verifAssert((err1 == nil) == (err2 == nil) && (err1 != nil || verifDeepEqual(t1, t2)), "every token is found by its min unit after re-import")
		b1, berr1 := k.GetBurnCoin(e.ctx, mu)
		b2, berr2 := k2.GetBurnCoin(e2.ctx, mu)
		verifAssert((berr1 == nil) == (berr2 == nil) && (berr1 != nil || b1.Amount.Equal(b2.Amount)), "the burned total answers identically after re-import")
	}
	for _, who := range []sdk.AccAddress{owner, other} {
		verifAssert(verifDeepEqual(k.GetTokens(e.ctx, who), k2.GetTokens(e2.ctx, who)), "the tokens-by-owner query answers identically after re-import")
	}
	verifAssert(verifDeepEqual(k.GetParams(e.ctx), k2.GetParams(e2.ctx)) && verifDeepEqual(k2.GetParams(e2.ctx), par), "the params in force answer identically after re-import")
	g2 := ExportGenesis(e2.ctx, k2)
	verifAssert(verifDeepEqual(*g, *g2), "a second export equals the first")
}
