package keeper

import (
	"math/big"

	sdkmath "cosmossdk.io/math"
	sdk "github.com/cosmos/cosmos-sdk/types"

	"mods.irisnet.org/modules/token/types"
	v1 "mods.irisnet.org/modules/token/types/v1"
)

// C10 fee-token swap through the message server at ratio 1: the sender loses exactly what is
// burned, the receiver gains exactly what is minted, burned*10^out == minted*10^in, the dust
// stays with the sender, a failing swap changes nothing.
func VerifC10_SwapFeeToken() {
	verifExpect("swapped", "refused")
	e := newTkEnv(false)
	in, out := tkScale("inScale"), tkScale("outScale")
	a := e.seedToken("aaa", "amin", in, 0, types.MaximumMaxSupply, true, e.owner, verifIntIn("heldA", big.NewInt(0), verifPow2(100)), e.stranger)
	b := e.seedToken("bbb", "bmin", out, 0, types.MaximumMaxSupply, true, e.owner, verifIntIn("supB", big.NewInt(0), verifPow2(100)), e.other)
	e.k.registry[a.MinUnit] = v1.SwapParams{MinUnit: b.MinUnit, Ratio: sdkmath.LegacyOneDec()}
	offered := verifIntIn("offered", big.NewInt(1), verifPow2(100))
	recvSelf := verifChoice("receiver", 2) == 0
	receiver, recvStr := e.stranger, ""
	if !recvSelf {
		receiver, recvStr = e.other, e.other.String()
	}
	msg := &v1.MsgSwapFeeToken{FeePaid: sdk.Coin{Denom: a.MinUnit, Amount: offered}, Receiver: recvStr, Sender: e.stranger.String()}
	verifAssume(msg.ValidateBasic() == nil)
	sa0, sb0 := e.bank.supplyOf(a.MinUnit).BigInt(), e.bank.supplyOf(b.MinUnit).BigInt()
	ha0, rb0 := e.bank.get(e.stranger, a.MinUnit).BigInt(), e.bank.get(receiver, b.MinUnit).BigInt()
	err, _ := e.verifDeliver(func() error { _, err := NewMsgServerImpl(e.k).SwapFeeToken(e.ctx, msg); return err })
	sa1, sb1 := e.bank.supplyOf(a.MinUnit).BigInt(), e.bank.supplyOf(b.MinUnit).BigInt()
	ha1, rb1 := e.bank.get(e.stranger, a.MinUnit).BigInt(), e.bank.get(receiver, b.MinUnit).BigInt()
	if err != nil {
		verifCover("refused")
		verifAssert(sa1.Cmp(sa0) == 0 && sb1.Cmp(sb0) == 0 && ha1.Cmp(ha0) == 0 && rb1.Cmp(rb0) == 0, "failed swap changes neither side")
		return
	}
	verifCover("swapped")
	burned, minted := verifSub(ha0, ha1), verifSub(rb1, rb0)
	verifAssert(verifSub(sa0, sa1).Cmp(burned) == 0, "burned supply equals what the sender lost")
	verifAssert(verifSub(sb1, sb0).Cmp(minted) == 0, "minted supply equals what the receiver gained")
	verifAssert(burned.Sign() >= 0 && burned.Cmp(offered.BigInt()) <= 0, "never burns more than was offered")
	verifAssert(verifMul(burned, verifPow10(int64(out))).Cmp(verifMul(minted, verifPow10(int64(in)))) == 0, "exact at ratio 1")
	dust := big.NewInt(1)
	if in > out {
		dust = verifPow10(int64(in - out))
	}
	verifAssert(verifSub(offered.BigInt(), burned).Cmp(dust) < 0, "only unconvertible dust stays with the sender")
	verifAssert(e.bank.get(vModuleAddr(types.ModuleName), a.MinUnit).Sign() == 0 && e.bank.get(vModuleAddr(types.ModuleName), b.MinUnit).Sign() == 0, "nothing left in the module account")
	// the configured ratio is a setting, not a scratch value: the next swap through the same entry sees it unchanged
	verifAssert(e.k.registry[a.MinUnit].Ratio.Equal(sdkmath.LegacyOneDec()) && e.k.registry[a.MinUnit].MinUnit == b.MinUnit, "a swap leaves the configured ratio as it was")
}
