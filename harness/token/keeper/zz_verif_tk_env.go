package keeper

import (
	"context"
	"math/big"

	sdkmath "cosmossdk.io/math"
	sdk "github.com/cosmos/cosmos-sdk/types"
	authtypes "github.com/cosmos/cosmos-sdk/x/auth/types"
	banktypes "github.com/cosmos/cosmos-sdk/x/bank/types"

	"mods.irisnet.org/modules/token/types"
	v1 "mods.irisnet.org/modules/token/types/v1"
)

const tkFeeCollector = "fee_collector"

type tkBank struct {
	*vBank
	meta map[string]banktypes.Metadata
}

func (b tkBank) SetDenomMetaData(ctx context.Context, m banktypes.Metadata) { b.meta[m.Base] = m }
func (b tkBank) GetDenomMetaData(ctx context.Context, denom string) (banktypes.Metadata, bool) {
	m, ok := b.meta[denom]
	return m, ok
}

type tkAccount struct{ *vAccount }

func (a tkAccount) GetSequence(ctx context.Context, addr sdk.AccAddress) (uint64, error) {
	return 0, nil
}

type tkEnv struct {
	*vEnv
	k                      Keeper
	owner, stranger, other sdk.AccAddress
	native                 v1.Token
}

// newTkEnv: token keeper over the stubs; params symbolic within Params.Validate when asked.
func newTkEnv(symbolicParams bool) *tkEnv {
	e := &tkEnv{vEnv: newVEnv(types.StoreKey, 10)}
	e.bank.modules[types.ModuleName] = []string{authtypes.Minter, authtypes.Burner}
	e.bank.modules[tkFeeCollector] = nil
	e.owner, e.stranger, e.other = vAddr(1), vAddr(2), vAddr(3)
	e.k = NewKeeper(e.cdc, e.key, tkBank{e.bank, map[string]banktypes.Metadata{}}, tkAccount{e.acc}, nil, nil, tkFeeCollector, vAddr(9).String()) // the app's own constructor
	p := v1.DefaultParams()
	if symbolicParams {
		e18 := verifPow10(18)
		p.TokenTaxRate = verifDec("tax", big.NewInt(0), e18)
		p.MintTokenFeeRatio = verifDec("mintRatio", big.NewInt(0), e18)
		if verifTier() == 1 {
			// thorough: the base fee is free as well (fee*ratio becomes nonlinear)
			p.IssueTokenBaseFee = sdk.Coin{Denom: p.IssueTokenBaseFee.Denom, Amount: verifIntIn("baseFee", big.NewInt(0), verifPow2(64))}
		}
		verifAssume(p.Validate() == nil)
	}
	if err := e.k.SetParams(e.ctx, p); err != nil {
		verifFail("SetParams rejected validated params")
	}
	e.native = v1.GetNativeToken()
	if err := e.k.AddToken(e.ctx, e.native, false); err != nil {
		verifFail("native token rejected")
	}
	return e
}

// seedToken stores a token record directly (as AddToken would) and gives the bank the stated supply.
func (e *tkEnv) seedToken(symbol, minUnit string, scale uint32, initial, max uint64, mintable bool, owner sdk.AccAddress, supply sdkmath.Int, holder sdk.AccAddress) v1.Token {
	t := v1.Token{Symbol: symbol, Name: symbol + " token", MinUnit: minUnit, Scale: scale, InitialSupply: initial, MaxSupply: max, Mintable: mintable, Owner: owner.String()}
	e.k.upsertToken(e.ctx, t)
	e.bank.fund(holder, minUnit, supply)
	return t
}

func tkScale(name string) uint32 {
	if verifTier() == 1 {
		return uint32(verifChoice(name, 19))
	}
	return []uint32{0, 6, 18}[verifChoice(name, 3)]
}

func (e *tkEnv) actor(name string) (sdk.AccAddress, bool) {
	if verifChoice(name, 2) == 0 {
		return e.owner, true
	}
	return e.stranger, false
}
