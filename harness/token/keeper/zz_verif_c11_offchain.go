package keeper

import (
	"math/big"

	sdkmath "cosmossdk.io/math"
	banktypes "github.com/cosmos/cosmos-sdk/x/bank/types"
	sdk "github.com/cosmos/cosmos-sdk/types"

	v1 "mods.irisnet.org/modules/token/types/v1"
)

// C11 off-chain disturbances, token (verifOffChain, harness/rt): a token exists; the side work issues
// another token, mints and edits; afterwards a token is issued, minted, edited, burned and handed over.
func VerifC11_TokenOffChainDisturbance() {
	amt := verifIntIn("amt", big.NewInt(1), verifPow2(40))
	verifOffChain(func() vReplica {
		e := newTkEnv(false)
		e.bank.fund(e.owner, e.native.MinUnit, sdkmath.NewIntFromBigInt(verifPow2(90)))
		e.bank.fund(e.stranger, e.native.MinUnit, sdkmath.NewIntFromBigInt(verifPow2(90)))
		var r vReplica
		r.env = e.vEnv
		issue := func(ctx sdk.Context, symbol, minUnit string, owner sdk.AccAddress) error {
			_, err := NewMsgServerImpl(e.k).IssueToken(ctx, &v1.MsgIssueToken{Symbol: symbol, Name: "a token", MinUnit: minUnit, Scale: 6, InitialSupply: 1000, MaxSupply: 1000000000, Mintable: true, Owner: owner.String()})
			return err
		}
		r.first = func() {
			if err := issue(e.ctx, "kit", "ukit", e.owner); err != nil {
				verifFail("token refused: " + err.Error())
			}
		}
		r.side = func(ctx sdk.Context) error {
			if err := issue(ctx, "zap", "uzap", e.stranger); err != nil {
				return err
			}
			if _, err := NewMsgServerImpl(e.k).MintToken(ctx, &v1.MsgMintToken{Coin: sdk.Coin{Denom: "ukit", Amount: sdkmath.NewInt(7)}, Owner: e.owner.String()}); err != nil {
				return err
			}
			_, err := NewMsgServerImpl(e.k).EditToken(ctx, &v1.MsgEditToken{Symbol: "kit", Name: "renamed", MaxSupply: 2000000000, Mintable: "true", Owner: e.owner.String()})
			return err
		}
		r.restart = func() {
			e.k = NewKeeper(e.cdc, e.key, tkBank{e.bank, map[string]banktypes.Metadata{}}, tkAccount{e.acc}, nil, nil, tkFeeCollector, vAddr(9).String())
		}
		r.second = func(ctx sdk.Context) []bool {
			srv := NewMsgServerImpl(e.k)
			e0 := issue(ctx, "zap", "uzap", e.stranger)
			_, e1 := srv.MintToken(ctx, &v1.MsgMintToken{Coin: sdk.Coin{Denom: "ukit", Amount: amt}, Owner: e.owner.String()})
			_, e2 := srv.EditToken(ctx, &v1.MsgEditToken{Symbol: "kit", Name: "other", MaxSupply: 0, Mintable: "nil", Owner: e.owner.String()})
			_, e3 := srv.BurnToken(ctx, &v1.MsgBurnToken{Coin: sdk.Coin{Denom: "ukit", Amount: amt}, Sender: e.owner.String()})
			_, e4 := srv.TransferTokenOwner(ctx, &v1.MsgTransferTokenOwner{Symbol: "kit", SrcOwner: e.owner.String(), DstOwner: e.other.String()})
			e5 := issue(ctx, "kit", "ukit2", e.stranger)
			return []bool{e0 != nil, e1 != nil, e2 != nil, e3 != nil, e4 != nil, e5 == nil}
		}
		return r
	})
}
