package keeper

// ABI helpers for the stub EVM.  Under the engine these are intercepted (the ABI codec is abstract:
// Unpack(Pack(x)) = x); natively they use the real ABI of the compiled ERC20 contract.

import (
	"github.com/ethereum/go-ethereum/common"

	"mods.irisnet.org/modules/token/contracts"
)

func verifABIEventID(name string) common.Hash {
	return contracts.ERC20TokenContract.ABI.Events[name].ID
}

func verifABICall(data []byte) (string, []interface{}) {
	if len(data) < 4 {
		return "", nil
	}
	m, err := contracts.ERC20TokenContract.ABI.MethodById(data[:4])
	if err != nil {
		return "", nil
	}
	args, err := m.Inputs.Unpack(data[4:])
	if err != nil {
		return "", nil
	}
	return m.Name, args
}

func verifABIRet(name string, vals ...interface{}) []byte {
	b, err := contracts.ERC20TokenContract.ABI.Methods[name].Outputs.Pack(vals...)
	if err != nil {
		panic(err)
	}
	return b
}

func verifABIEventData(name string, vals ...interface{}) []byte {
	b, err := contracts.ERC20TokenContract.ABI.Events[name].Inputs.NonIndexed().Pack(vals...)
	if err != nil {
		panic(err)
	}
	return b
}
