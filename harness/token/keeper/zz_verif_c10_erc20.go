package keeper

import (
	"context"
	"math/big"

	sdkmath "cosmossdk.io/math"
	cryptotypes "github.com/cosmos/cosmos-sdk/crypto/types"
	sdk "github.com/cosmos/cosmos-sdk/types"
	"github.com/ethereum/go-ethereum/common"
	"github.com/ethereum/go-ethereum/core"
	ethtypes "github.com/ethereum/go-ethereum/core/types"
	"github.com/ethereum/go-ethereum/core/vm"

	"mods.irisnet.org/modules/token/contracts"
	"mods.irisnet.org/modules/token/types"
	v1 "mods.irisnet.org/modules/token/types/v1"
)

// vEVM stands for the EVM module with ERC20 contracts deployed: per (contract, holder) balances and a
// per-contract total supply; mint/burn are reserved to the token module's address.  A contract may be
// made to revert, or to misbehave (credit or debit one unit less or more than asked) - the keeper must then fail as a whole.
type vEVM struct {
	bal       map[string]*big.Int
	supply    map[string]*big.Int
	revert    bool // mint / burn revert
	mintSkew  int64 // mint credits this much more (less) than asked
	burnSkew  int64 // burn debits this much more (less) than asked
	module    common.Address
}

func newVEVM(module common.Address) *vEVM {
	return &vEVM{bal: map[string]*big.Int{}, supply: map[string]*big.Int{}, module: module}
}
func (v *vEVM) key(c, a common.Address) string { return string(c.Bytes()) + "/" + string(a.Bytes()) }
func (v *vEVM) get(c, a common.Address) *big.Int {
	if b, ok := v.bal[v.key(c, a)]; ok {
		return b
	}
	return big.NewInt(0)
}
func (v *vEVM) sup(c common.Address) *big.Int {
	if b, ok := v.supply[string(c.Bytes())]; ok {
		return b
	}
	return big.NewInt(0)
}
func (v *vEVM) set(c, a common.Address, x *big.Int) {
	old := v.get(c, a)
	v.bal[v.key(c, a)] = x
	v.supply[string(c.Bytes())] = new(big.Int).Add(v.sup(c), new(big.Int).Sub(x, old))
}
func (v *vEVM) snapshot() *vEVM {
	c := newVEVM(v.module)
	for k, x := range v.bal {
		c.bal[k] = x
	}
	for k, x := range v.supply {
		c.supply[k] = x
	}
	c.revert, c.mintSkew, c.burnSkew = v.revert, v.mintSkew, v.burnSkew
	return c
}
func (v *vEVM) restore(c *vEVM) { v.bal, v.supply = c.bal, c.supply }

func (v *vEVM) ChainID() *big.Int                          { return big.NewInt(1) }
func (v *vEVM) SupportedKey(pubKey cryptotypes.PubKey) bool { return true }
func (v *vEVM) EstimateGas(ctx context.Context, req *types.EthCallRequest) (uint64, error) {
	return 100000, nil
}
func (v *vEVM) ApplyMessage(ctx sdk.Context, msg core.Message, tracer vm.EVMLogger, commit bool) (*types.Result, error) {
	method, args := verifABICall(msg.Data())
	contract := *msg.To()
	switch method {
	case contracts.MethodBalanceOf:
		return &types.Result{Ret: verifABIRet(contracts.MethodBalanceOf, v.get(contract, args[0].(common.Address)))}, nil
	case contracts.MethodMint:
		to, amt := args[0].(common.Address), args[1].(*big.Int)
		if v.revert || msg.From() != v.module {
			return &types.Result{VMError: "execution reverted"}, nil
		}
		if v.mintSkew != 0 {
			amt = new(big.Int).Add(amt, big.NewInt(v.mintSkew))
		}
		if commit {
			v.set(contract, to, new(big.Int).Add(v.get(contract, to), amt))
		}
		return &types.Result{}, nil
	case contracts.MethodBurn:
		from, amt := args[0].(common.Address), args[1].(*big.Int)
		if v.revert || msg.From() != v.module || v.get(contract, from).Cmp(amt) < 0 {
			return &types.Result{VMError: "execution reverted"}, nil
		}
		if v.burnSkew != 0 && v.get(contract, from).Cmp(new(big.Int).Add(amt, big.NewInt(v.burnSkew))) >= 0 {
			amt = new(big.Int).Add(amt, big.NewInt(v.burnSkew))
		}
		if commit {
			v.set(contract, from, new(big.Int).Sub(v.get(contract, from), amt))
		}
		return &types.Result{}, nil
	}
	return &types.Result{VMError: "unknown method"}, nil
}

type tkERC20Env struct {
	*tkEnv
	evm      *vEVM
	contract common.Address
	tok      v1.Token
}

func newTkERC20Env() *tkERC20Env {
	e := &tkERC20Env{tkEnv: newTkEnv(false)}
	e.evm = newVEVM(common.BytesToAddress(vModuleAddr(types.ModuleName).Bytes()))
	e.k.evmKeeper = e.evm
	e.contract = common.HexToAddress("0x00000000000000000000000000000000000000c1")
	// a token bound to an ERC20 contract, with an arbitrary native supply and an arbitrary ERC20 supply
	e.tok = e.seedToken("kit", "ukit", 6, 0, types.MaximumMaxSupply, true, e.owner, verifIntIn("nativeHeld", big.NewInt(0), verifPow2(100)), e.stranger)
	e.tok.Contract = e.contract.Hex()
	e.k.upsertToken(e.ctx, e.tok)
	return e
}

// deliver: message atomicity over bank, stores AND the EVM state
func (e *tkERC20Env) deliver(f func() error) (error, bool) {
	snap := e.evm.snapshot()
	err, panicked := e.verifDeliver(f)
	if err != nil {
		e.evm.restore(snap)
	}
	return err, panicked
}

func tkEth(a sdk.AccAddress) common.Address { return common.BytesToAddress(a.Bytes()) }

// C10 conversions through the message server: native -> ERC20 burns exactly the amount natively and
// credits exactly that amount of the bound contract to the receiver; ERC20 -> native does the opposite;
// native supply + ERC20 supply is unchanged; a failing conversion (disabled, unbound token, reverting or
// misbehaving contract, insufficient funds, blocked receiver) changes neither side.
func VerifC10_SwapERC20() {
	verifExpect("to-erc20", "from-erc20", "refused")
	e := newTkERC20Env()
	one := big.NewInt(1)
	w := verifPow2(100)
	amt := verifIntIn("amount", one, w)
	erc20Held := verifIntIn("erc20Held", big.NewInt(0), w)
	e.evm.set(e.contract, tkEth(e.stranger), erc20Held.BigInt())
	e.evm.set(e.contract, tkEth(e.other), verifIntIn("erc20Others", big.NewInt(0), w).BigInt())
	switch verifChoice("contractMode", 6) {
	case 1:
		e.evm.revert = true
	case 2:
		e.evm.mintSkew = -1
	case 3:
		e.evm.mintSkew = 1 // credits more than asked
	case 4:
		e.evm.burnSkew = -1 // debits less than asked
	case 5:
		e.evm.burnSkew = 1
	}
	if verifChoice("erc20Enabled", 2) == 0 {
		p := e.k.GetParams(e.ctx)
		p.EnableErc20 = false
		_ = e.k.SetParams(e.ctx, p)
	}
	// another token whose SYMBOL is this token's minimum unit (symbols and minimum units are unique among
	// themselves only), bound to a contract of its own: coins are named by minimum units, never by symbols
	other := common.HexToAddress("0x00000000000000000000000000000000000000c7")
	if verifChoice("symbolCollision", 2) == 1 {
		t2 := e.seedToken(e.tok.MinUnit, "zkit", 6, 0, types.MaximumMaxSupply, true, e.owner, sdkmath.NewInt(77), e.owner)
		t2.Contract = other.Hex()
		e.k.upsertToken(e.ctx, t2)
		e.evm.set(other, tkEth(e.stranger), big.NewInt(55))
	}
	oth0 := e.evm.sup(other)
	denom := e.tok.MinUnit
	if verifChoice("boundToken", 2) == 0 {
		// a token without a contract
		e.seedToken("nob", "unob", 6, 0, types.MaximumMaxSupply, true, e.owner, sdkmath.NewIntFromBigInt(w), e.stranger)
		denom = "unob"
	}
	receiver := e.other
	if verifChoice("blockedReceiver", 2) == 1 {
		e.bank.blocked[e.other.String()] = true
	}
	toERC20 := verifChoice("direction", 2) == 0
	nat0, sup0 := e.bank.get(e.stranger, denom).BigInt(), e.bank.supplyOf(denom).BigInt()
	rnat0 := e.bank.get(receiver, denom).BigInt()
	es0, er0, esup0 := e.evm.get(e.contract, tkEth(e.stranger)), e.evm.get(e.contract, tkEth(receiver)), e.evm.sup(e.contract)
	var err error
	if toERC20 {
		msg := &v1.MsgSwapToERC20{Amount: sdk.Coin{Denom: denom, Amount: amt}, Sender: e.stranger.String(), Receiver: tkEth(receiver).Hex()}
		verifAssume(msg.ValidateBasic() == nil)
		err, _ = e.deliver(func() error { _, err := NewMsgServerImpl(e.k).SwapToERC20(e.ctx, msg); return err })
	} else {
		msg := &v1.MsgSwapFromERC20{WantedAmount: sdk.Coin{Denom: denom, Amount: amt}, Sender: e.stranger.String(), Receiver: receiver.String()}
		verifAssume(msg.ValidateBasic() == nil)
		err, _ = e.deliver(func() error { _, err := NewMsgServerImpl(e.k).SwapFromERC20(e.ctx, msg); return err })
	}
	nat1, sup1 := e.bank.get(e.stranger, denom).BigInt(), e.bank.supplyOf(denom).BigInt()
	rnat1 := e.bank.get(receiver, denom).BigInt()
	es1, er1, esup1 := e.evm.get(e.contract, tkEth(e.stranger)), e.evm.get(e.contract, tkEth(receiver)), e.evm.sup(e.contract)
	verifAssert(e.evm.sup(other).Cmp(oth0) == 0, "the contract of another token is never touched")
	if err != nil {
		verifCover("refused")
		verifAssert(nat1.Cmp(nat0) == 0 && sup1.Cmp(sup0) == 0 && rnat1.Cmp(rnat0) == 0 && es1.Cmp(es0) == 0 && er1.Cmp(er0) == 0 && esup1.Cmp(esup0) == 0, "a conversion that fails changes neither side")
		// liveness: a conversion is refused only for a reason
		reason := !e.k.ERC20Enabled(e.ctx) || denom != e.tok.MinUnit || e.evm.revert
		if toERC20 {
			reason = reason || e.evm.mintSkew != 0 || nat0.Cmp(amt.BigInt()) < 0
		} else {
			reason = reason || e.evm.burnSkew != 0 || es0.Cmp(amt.BigInt()) < 0 || e.bank.blocked[receiver.String()]
		}
		verifAssert(reason, "a conversion the sender can fund, through a well-behaved bound contract, to a receiver that can be credited, is carried out")
		return
	}
	a := amt.BigInt()
	verifAssert(e.k.ERC20Enabled(e.ctx) && denom == e.tok.MinUnit && !e.evm.revert && !(toERC20 && e.evm.mintSkew != 0), "conversions need the feature enabled, a bound token and a well-behaved contract")
	verifAssert(verifAdd(sup1, esup1).Cmp(verifAdd(sup0, esup0)) == 0, "native supply + ERC20 supply is unchanged")
	verifAssert(e.bank.get(vModuleAddr(types.ModuleName), denom).Sign() == 0, "nothing is left in the token module account")
	if toERC20 {
		verifCover("to-erc20")
		verifAssert(verifSub(nat0, nat1).Cmp(a) == 0 && verifSub(sup0, sup1).Cmp(a) == 0, "exactly the converted amount is burned natively from the sender")
		verifAssert(verifSub(er1, er0).Cmp(a) == 0 && verifSub(esup1, esup0).Cmp(a) == 0, "exactly that amount of the bound contract is credited to the receiver")
		verifAssert(es1.Cmp(es0) == 0 && rnat1.Cmp(rnat0) == 0, "nobody else's balance moves")
	} else {
		verifCover("from-erc20")
		verifAssert(verifSub(es0, es1).Cmp(a) == 0 && verifSub(esup0, esup1).Cmp(a) == 0, "exactly the converted amount of the contract is burned from the sender")
		verifAssert(verifSub(rnat1, rnat0).Cmp(a) == 0 && verifSub(sup1, sup0).Cmp(a) == 0, "exactly that amount is minted natively to the receiver")
		verifAssert(!e.bank.blocked[receiver.String()], "a blocked address never receives converted coins")
		verifAssert(nat1.Cmp(nat0) == 0 && er1.Cmp(er0) == 0, "nobody else's balance moves")
	}
}

// C10 hook: after an EVM transaction in which bound contracts burned ERC20 units and emitted
// SwapToNative(from, to, amount) events, exactly those amounts are minted natively, each to its receiver;
// events of unbound contracts or with other topics are ignored; with the feature disabled a valid event
// makes the whole transaction fail.
func VerifC10_SwapToNativeHook() {
	verifExpect("minted", "refused")
	e := newTkERC20Env()
	one, w := big.NewInt(1), verifPow2(100)
	n := 1 + verifChoice("events", 2) // 1..2 events
	receivers := []sdk.AccAddress{e.other, e.owner}
	// the first receiver may be an address the bank refuses to credit (a module account, say)
	if verifChoice("blockedReceiver", 2) == 1 {
		e.bank.blocked[receivers[0].String()] = true
	}
	blockedHit := false
	var logs []*ethtypes.Log
	want := map[string]*big.Int{}
	total := big.NewInt(0)
	anyValid := false
	for i := 0; i < n; i++ {
		tag := string(rune('A' + i))
		amt := verifIntIn("amount"+tag, one, w).BigInt()
		lg := &ethtypes.Log{Address: e.contract, Topics: []common.Hash{verifABIEventID(contracts.EventSwapToNative)},
			Data: verifABIEventData(contracts.EventSwapToNative, tkEth(e.stranger), receivers[i].String(), amt)}
		valid := true
		switch verifChoice("kind"+tag, 3) {
		case 1: // emitted by a contract no token is bound to
			lg.Address = common.HexToAddress("0x00000000000000000000000000000000000000d2")
			valid = false
		case 2: // indexed variant: two topics
			lg.Topics = append(lg.Topics, common.Hash{})
			valid = false
		}
		if valid {
			anyValid = true
			k := receivers[i].String()
			if e.bank.blocked[k] {
				blockedHit = true
			}
			if want[k] == nil {
				want[k] = big.NewInt(0)
			}
			want[k] = verifAdd(want[k], amt)
			total = verifAdd(total, amt)
		}
		logs = append(logs, lg)
	}
	enabled := verifChoice("erc20Enabled", 2) == 1
	if !enabled {
		p := e.k.GetParams(e.ctx)
		p.EnableErc20 = false
		_ = e.k.SetParams(e.ctx, p)
	}
	denom := e.tok.MinUnit
	sup0 := e.bank.supplyOf(denom).BigInt()
	b0 := map[string]*big.Int{}
	for _, r := range receivers {
		b0[r.String()] = e.bank.get(r, denom).BigInt()
	}
	// the transaction that carried the events was addressed to the bound contract itself, to another contract
	// (a router calling the token on the holder's behalf), or created a contract: the events count all the same
	var target *common.Address
	switch verifChoice("txTarget", 3) {
	case 0:
		c := e.contract
		target = &c
	case 1:
		r := common.HexToAddress("0x00000000000000000000000000000000000000aa")
		target = &r
	}
	ethMsg := ethtypes.NewMessage(tkEth(e.stranger), target, 0, big.NewInt(0), 100000, big.NewInt(1), big.NewInt(1), big.NewInt(1), nil, nil, false)
	err, _ := e.deliver(func() error { return erc20Hook{e.k}.PostTxProcessing(e.ctx, ethMsg, &ethtypes.Receipt{Logs: logs}) })
	sup1 := e.bank.supplyOf(denom).BigInt()
	if err != nil {
		verifCover("refused")
		verifAssert((!enabled && anyValid) || blockedHit, "the hook only fails when a requested conversion cannot be carried out (feature disabled, receiver cannot be credited)")
		verifAssert(sup1.Cmp(sup0) == 0, "a failing hook mints nothing")
		return
	}
	verifCover("minted")
	// the contract has burned the ERC20 amount of every event already: an event whose receiver cannot be
	// credited must fail the hook (so that the whole EVM transaction, burn included, is reverted)
	verifAssert(!blockedHit, "a conversion whose receiver cannot be credited fails as a whole")
	verifAssert(verifSub(sup1, sup0).Cmp(total) == 0, "native supply grows by exactly the sum of the valid events")
	for _, r := range receivers {
		exp := want[r.String()]
		if exp == nil {
			exp = big.NewInt(0)
		}
		verifAssert(verifSub(e.bank.get(r, denom).BigInt(), b0[r.String()]).Cmp(exp) == 0, "every event's receiver gets exactly its amount")
	}
	verifAssert(e.bank.get(vModuleAddr(types.ModuleName), denom).Sign() == 0, "nothing is left in the token module account")
}
