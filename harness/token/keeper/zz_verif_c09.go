package keeper

import (
	"math/big"

	sdkmath "cosmossdk.io/math"
	sdk "github.com/cosmos/cosmos-sdk/types"

	"mods.irisnet.org/modules/token/types"
	v1 "mods.irisnet.org/modules/token/types/v1"
)

// C09 mint: only the owner, only if mintable, never beyond max*10^scale; failure changes nothing.
func VerifC09_Mint() {
	verifExpect("minted", "refused")
	e := newTkEnv(false)
	scale := tkScale("scale")
	prec := verifPow10(int64(scale))
	max := verifUint64("max")
	mintable := verifBool("mintable")
	verifAssume(max <= types.MaximumMaxSupply)
	cap := verifMul(new(big.Int).SetUint64(max), prec)
	supply := verifIntIn("supply", big.NewInt(0), cap) // invariant K2: supply <= cap
	tok := e.seedToken("kitty", "kit", scale, 0, max, mintable, e.owner, supply, e.other)
	// somebody else's token whose SYMBOL is this token's minimum unit (symbols and minimum units are unique among
	// themselves only): mintable, far below its cap, owned by the stranger - coins are named by minimum units
	if verifChoice("crossingNames", 2) == 1 {
		e.seedToken(tok.MinUnit, "zkit", scale, 0, types.MaximumMaxSupply, true, e.stranger, sdkmath.ZeroInt(), e.stranger)
	}
	// coins of this token may have been burned before (they have left the supply; the tally only records them)
	if verifChoice("hasBurnTally", 2) == 1 {
		e.k.AddBurnCoin(e.ctx, sdk.Coin{Denom: tok.MinUnit, Amount: verifIntIn("burnTally", big.NewInt(1), verifPow2(100))})
	}
	actor, isOwner := e.actor("actor")
	amt := verifIntIn("amt", big.NewInt(1), verifPow2(128))
	var recipient sdk.AccAddress
	if verifChoice("recipient", 2) == 1 {
		recipient = e.other
	}
	s0 := e.bank.supplyOf(tok.MinUnit).BigInt()
	err, _ := e.verifDeliver(func() error {
		return e.k.MintToken(e.ctx, sdk.Coin{Denom: tok.MinUnit, Amount: amt}, recipient, actor)
	})
	s1 := e.bank.supplyOf(tok.MinUnit).BigInt()
	if err != nil {
		verifCover("refused")
		verifAssert(s1.Cmp(s0) == 0, "refused mint changes nothing")
		verifAssert(!(isOwner && mintable && verifAdd(s0, amt.BigInt()).Cmp(cap) <= 0), "the owner of a mintable token can mint up to the cap")
		return
	}
	verifCover("minted")
	verifAssert(isOwner, "only the owner can mint")
	verifAssert(mintable, "a non-mintable token is never minted")
	verifAssert(verifSub(s1, s0).Cmp(amt.BigInt()) == 0, "supply grows by exactly the minted amount")
	verifAssert(s1.Cmp(cap) <= 0, "K2 supply never exceeds max*10^scale (mint)")
}

// C09 edit: only the owner; the cap can never be lowered below what circulates.
func VerifC09_Edit() {
	verifExpect("edited", "refused")
	e := newTkEnv(false)
	scale := tkScale("scale")
	prec := verifPow10(int64(scale))
	max := verifUint64("max")
	verifAssume(max <= types.MaximumMaxSupply && max >= 1)
	cap := verifMul(new(big.Int).SetUint64(max), prec)
	supply := verifIntIn("supply", big.NewInt(0), cap)
	// the token may have been made non-mintable after it grew beyond its initial supply (or shrunk below it
	// by burning): the recorded initial supply says nothing about what circulates
	initial := verifUint64("initial")
	verifAssume(initial <= max)
	wasMintable := verifBool("wasMintable")
	tok := e.seedToken("kitty", "kit", scale, initial, max, wasMintable, e.owner, supply, e.other)
	actor, isOwner := e.actor("actor")
	newMax := verifUint64("newMax")
	verifAssume(newMax <= types.MaximumMaxSupply)
	mint := []types.Bool{types.Nil, types.True, types.False}[verifChoice("mintable", 3)]
	msg := &v1.MsgEditToken{Symbol: tok.Symbol, Name: v1.DoNotModify, MaxSupply: newMax, Mintable: mint, Owner: actor.String()}
	verifAssume(msg.ValidateBasic() == nil)
	err, _ := e.verifDeliver(func() error { _, err := NewMsgServerImpl(e.k).EditToken(e.ctx, msg); return err })
	after, gerr := e.k.getTokenBySymbol(e.ctx, tok.Symbol)
	verifAssert(gerr == nil, "token still exists")
	if err != nil {
		verifCover("refused")
		verifAssert(after.MaxSupply == max && after.Mintable == wasMintable && after.Owner == tok.Owner, "refused edit changes nothing")
		// liveness: the owner's edit is refused only when the requested cap is below what circulates or below
		// the recorded initial supply
		capTooLow := newMax > 0 && (verifMul(new(big.Int).SetUint64(newMax), prec).Cmp(supply.BigInt()) < 0 || newMax < initial)
		verifAssert(!isOwner || capTooLow, "the owner's edit is refused only for a cap below the circulating or the initial supply")
		return
	}
	verifCover("edited")
	verifAssert(isOwner, "only the owner can edit")
	verifAssert(after.Owner == tok.Owner && after.Symbol == tok.Symbol && after.MinUnit == tok.MinUnit && after.Scale == tok.Scale, "identity unchanged by edit")
	newCap := verifMul(new(big.Int).SetUint64(after.MaxSupply), prec)
	fractional := new(big.Int).Mod(supply.BigInt(), prec).Sign() != 0
	verifAssertKnown(supply.BigInt().Cmp(newCap) <= 0, "K2 the cap is never lowered below what circulates", "C09-edit-floor", fractional)
	if newMax == 0 {
		verifAssert(after.MaxSupply == max, "max supply 0 means unchanged")
	} else {
		verifAssert(after.MaxSupply == newMax, "max supply stored as requested")
	}
}

// C09 burn: the tally grows by exactly what was burned; supply shrinks by the same.
func VerifC09_Burn() {
	verifExpect("burned", "refused")
	e := newTkEnv(false)
	scale := tkScale("scale")
	tok := e.seedToken("kitty", "kit", scale, 0, types.MaximumMaxSupply, true, e.owner, verifIntIn("held", big.NewInt(0), verifPow2(100)), e.stranger)
	e.bank.fund(e.other, tok.MinUnit, verifIntIn("rest", big.NewInt(0), verifPow2(100)))
	prior := verifIntIn("tally", big.NewInt(0), verifPow2(100))
	hasPrior := verifChoice("hasTally", 2) == 1
	if hasPrior {
		e.k.AddBurnCoin(e.ctx, sdk.Coin{Denom: tok.MinUnit, Amount: prior})
	}
	amt := verifIntIn("amt", big.NewInt(1), verifPow2(100))
	msg := &v1.MsgBurnToken{Coin: sdk.Coin{Denom: tok.MinUnit, Amount: amt}, Sender: e.stranger.String()}
	verifAssume(msg.ValidateBasic() == nil)
	s0 := e.bank.supplyOf(tok.MinUnit).BigInt()
	h0 := e.bank.get(e.stranger, tok.MinUnit).BigInt()
	err, _ := e.verifDeliver(func() error { _, err := NewMsgServerImpl(e.k).BurnToken(e.ctx, msg); return err })
	s1 := e.bank.supplyOf(tok.MinUnit).BigInt()
	h1 := e.bank.get(e.stranger, tok.MinUnit).BigInt()
	t1 := big.NewInt(0)
	if c, gerr := e.k.GetBurnCoin(e.ctx, tok.MinUnit); gerr == nil {
		t1 = c.Amount.BigInt()
	}
	t0 := big.NewInt(0)
	if hasPrior {
		t0 = prior.BigInt()
	}
	if err != nil {
		verifCover("refused")
		verifAssert(s1.Cmp(s0) == 0 && h1.Cmp(h0) == 0 && t1.Cmp(t0) == 0, "refused burn changes nothing")
		return
	}
	verifCover("burned")
	verifAssert(verifSub(s0, s1).Cmp(amt.BigInt()) == 0, "supply shrinks by exactly the burned amount")
	verifAssert(verifSub(h0, h1).Cmp(amt.BigInt()) == 0, "holder pays exactly the burned amount")
	verifAssert(verifSub(t1, t0).Cmp(amt.BigInt()) == 0, "K4 burn tally grows by exactly the burned amount")
	verifAssert(e.bank.get(vModuleAddr(types.ModuleName), tok.MinUnit).Sign() == 0, "nothing left in the module account")
}

// C09 identity: a second token re-using a symbol or a min unit is refused; issue mints initial*10^scale <= cap.
func VerifC09_IssueUnique() {
	verifExpect("issued", "refused")
	e := newTkEnv(false)
	e.seedToken("kitty", "kit", 6, 0, 100, true, e.other, verifIntIn("s", big.NewInt(0), verifPow2(64)), e.other)
	symbol := []string{"kitty", "doggy"}[verifChoice("symbol", 2)]
	minUnit := []string{"kit", "dog"}[verifChoice("minUnit", 2)]
	scale := tkScale("scale")
	initial, max := verifUint64("initial"), verifUint64("max")
	mintable := verifBool("mintable")
	msg := &v1.MsgIssueToken{Symbol: symbol, Name: "a token", MinUnit: minUnit, Scale: scale, InitialSupply: initial, MaxSupply: max, Mintable: mintable, Owner: e.owner.String()}
	verifAssume(msg.ValidateBasic() == nil)
	err, _ := e.verifDeliver(func() error {
		return e.k.IssueToken(e.ctx, msg.Symbol, msg.Name, msg.MinUnit, msg.Scale, msg.InitialSupply, msg.MaxSupply, msg.Mintable, e.owner)
	})
	if err != nil {
		verifCover("refused")
		old, gerr := e.k.getTokenBySymbol(e.ctx, "kitty")
		verifAssert(gerr == nil && old.MinUnit == "kit" && old.Owner == e.other.String(), "existing token untouched by a refused issue")
		return
	}
	verifCover("issued")
	verifAssert(symbol == "doggy" && minUnit == "dog", "symbol and min unit each identify at most one token")
	tok, gerr := e.k.getTokenBySymbol(e.ctx, "doggy")
	verifAssert(gerr == nil && tok.Owner == e.owner.String(), "issued token is stored under its owner")
	prec := verifPow10(int64(scale))
	sup := e.bank.supplyOf("dog").BigInt()
	verifAssert(sup.Cmp(verifMul(new(big.Int).SetUint64(initial), prec)) == 0, "issue mints initial*10^scale")
	verifAssert(sup.Cmp(verifMul(new(big.Int).SetUint64(tok.MaxSupply), prec)) <= 0, "K2 supply never exceeds max*10^scale (issue)")
	verifAssert(e.bank.get(e.owner, "dog").BigInt().Cmp(sup) == 0, "owner receives the initial supply")
}

// C09 ownership handover: only the current owner; indexes follow.
func VerifC09_TransferOwner() {
	verifExpect("transferred", "refused")
	e := newTkEnv(false)
	tok := e.seedToken("kitty", "kit", 6, 0, 100, true, e.owner, verifIntIn("s", big.NewInt(0), verifPow2(64)), e.other)
	actor, isOwner := e.actor("actor")
	msg := &v1.MsgTransferTokenOwner{Symbol: tok.Symbol, SrcOwner: actor.String(), DstOwner: e.other.String()}
	verifAssume(msg.ValidateBasic() == nil)
	err, _ := e.verifDeliver(func() error { _, err := NewMsgServerImpl(e.k).TransferTokenOwner(e.ctx, msg); return err })
	after, _ := e.k.getTokenBySymbol(e.ctx, tok.Symbol)
	st := e.store()
	if err != nil {
		verifCover("refused")
		verifAssert(after.Owner == tok.Owner && st.Has(types.KeyTokens(e.owner, tok.Symbol)) && !st.Has(types.KeyTokens(e.other, tok.Symbol)), "refused handover changes nothing")
		return
	}
	verifCover("transferred")
	verifAssert(isOwner, "only the current owner can hand over ownership")
	verifAssert(after.Owner == e.other.String(), "new owner recorded")
	verifAssert(!st.Has(types.KeyTokens(e.owner, tok.Symbol)) && st.Has(types.KeyTokens(e.other, tok.Symbol)), "owner index re-keyed")
	// the old owner can no longer govern
	verifAssert(e.k.MintToken(e.ctx, sdk.Coin{Denom: tok.MinUnit, Amount: verifIntIn("m", big.NewInt(1), big.NewInt(5))}, nil, e.owner) != nil, "old owner can no longer mint")
}

// C09 fee: mint through the message server: fee = tax + burned, nothing stays in the module account.
func VerifC09_MintFee() {
	verifExpect("minted", "refused")
	e := newTkEnv(true)
	tok := e.seedToken("kitty", "kit", 6, 0, types.MaximumMaxSupply, true, e.owner, verifIntIn("s", big.NewInt(0), verifPow2(64)), e.other)
	feeDenom := e.native.MinUnit
	e.bank.fund(e.owner, feeDenom, verifIntIn("bal", big.NewInt(0), verifPow2(100)))
	amt := verifIntIn("amt", big.NewInt(1), verifPow2(64))
	// the minted coins go to the owner (empty receiver), to the owner named explicitly, to a third party,
	// or to a blocked address; the receiver may hold fee coins of its own
	receiver, recvStr := e.owner, ""
	switch verifChoice("receiver", 4) {
	case 1:
		recvStr = e.owner.String()
	case 2:
		receiver, recvStr = e.stranger, e.stranger.String()
	case 3:
		receiver, recvStr = e.stranger, e.stranger.String()
		e.bank.blocked[e.stranger.String()] = true
	}
	e.bank.fund(e.stranger, feeDenom, verifIntIn("receiverBal", big.NewInt(0), verifPow2(100)))
	msg := &v1.MsgMintToken{Coin: sdk.Coin{Denom: tok.MinUnit, Amount: amt}, Receiver: recvStr, Owner: e.owner.String()}
	verifAssume(msg.ValidateBasic() == nil)
	r0 := e.bank.get(e.stranger, feeDenom).BigInt()
	m0 := e.bank.get(receiver, tok.MinUnit).BigInt()
	o0 := e.bank.get(e.owner, feeDenom).BigInt()
	c0 := e.bank.get(vModuleAddr(tkFeeCollector), feeDenom).BigInt()
	f0 := e.bank.supplyOf(feeDenom).BigInt()
	err, _ := e.verifDeliver(func() error { _, err := NewMsgServerImpl(e.k).MintToken(e.ctx, msg); return err })
	o1 := e.bank.get(e.owner, feeDenom).BigInt()
	c1 := e.bank.get(vModuleAddr(tkFeeCollector), feeDenom).BigInt()
	f1 := e.bank.supplyOf(feeDenom).BigInt()
	if err != nil {
		verifCover("refused")
		verifPrint(err.Error())
		verifAssert(o1.Cmp(o0) == 0 && c1.Cmp(c0) == 0 && f1.Cmp(f0) == 0 && e.bank.get(e.stranger, feeDenom).BigInt().Cmp(r0) == 0, "refused mint charges nothing")
		return
	}
	verifCover("minted")
	fee, tax, burned := verifSub(o0, o1), verifSub(c1, c0), verifSub(f0, f1)
	verifAssert(fee.Sign() >= 0 && tax.Sign() >= 0 && burned.Sign() >= 0, "fee parts are non-negative")
	verifAssert(verifAdd(tax, burned).Cmp(fee) == 0, "fee = tax + burned")
	verifAssert(e.bank.get(vModuleAddr(types.ModuleName), feeDenom).Sign() == 0, "no fee left in the module account")
	verifAssert(verifSub(e.bank.get(receiver, tok.MinUnit).BigInt(), m0).Cmp(amt.BigInt()) == 0, "the receiver gets exactly the minted coins")
	verifAssert(e.bank.get(e.stranger, feeDenom).BigInt().Cmp(r0) == 0, "the fee is charged to the owner, never to the receiver")
	verifAssert(!e.bank.blocked[receiver.String()], "a blocked address never receives minted coins")
}
