package keeper

import (
	"math/big"

	sdk "github.com/cosmos/cosmos-sdk/types"

	"mods.irisnet.org/modules/token/types"
	v1 "mods.irisnet.org/modules/token/types/v1"
)

func tkAnyParams() v1.Params {
	d := v1.DefaultParams()
	return v1.Params{TokenTaxRate: verifDecAny("tax"), MintTokenFeeRatio: verifDecAny("mintRatio"),
		IssueTokenBaseFee: sdk.Coin{Denom: verifDenomAny("baseFeeDenom", d.IssueTokenBaseFee.Denom), Amount: verifIntAny("baseFee")}, EnableErc20: true}
}

// C16 token: authority only; rejected sets never stored.
func VerifC16_UpdateParams() {
	verifExpect("stored", "refused")
	e := newTkEnv(false)
	before := e.k.GetParams(e.ctx)
	p := tkAnyParams()
	rightAuthority := verifChoice("authority", 2) == 0
	auth := e.k.authority
	if !rightAuthority {
		auth = e.owner.String()
	}
	var vErr error
	vPanicked, _ := verifCatch(func() { vErr = p.Validate() })
	err, _ := e.verifDeliver(func() error {
		_, err := NewMsgServerImpl(e.k).UpdateParams(e.ctx, &v1.MsgUpdateParams{Authority: auth, Params: p})
		return err
	})
	after := e.k.GetParams(e.ctx)
	if err != nil {
		verifCover("refused")
		verifAssert(after.TokenTaxRate.Equal(before.TokenTaxRate) && after.MintTokenFeeRatio.Equal(before.MintTokenFeeRatio) && after.IssueTokenBaseFee.IsEqual(before.IssueTokenBaseFee), "refused update leaves params unchanged")
		return
	}
	verifCover("stored")
	verifAssert(rightAuthority, "only the configured authority changes params")
	verifAssert(!vPanicked && vErr == nil, "a parameter set rejected by validation is never stored")
}

// C16 token consumers: issue / mint (fee handling) under every validated parameter set never panic.
func VerifC16_Consumers() {
	verifExpect("ok")
	e := newTkEnv(false)
	p := tkAnyParams()
	var vErr error
	vPanicked, _ := verifCatch(func() { vErr = p.Validate() })
	verifAssume(!vPanicked && vErr == nil)
	if err := e.k.SetParams(e.ctx, p); err != nil {
		verifFail("validated params rejected")
	}
	tok := e.seedToken("kitty", "kit", 6, 0, types.MaximumMaxSupply, true, e.owner, verifIntIn("s", big.NewInt(0), verifPow2(64)), e.other)
	e.bank.fund(e.owner, e.native.MinUnit, verifIntIn("bal", big.NewInt(0), verifPow2(120)))
	var panicked bool
	var what string
	if verifChoice("op", 2) == 0 {
		msg := &v1.MsgMintToken{Coin: sdk.Coin{Denom: tok.MinUnit, Amount: verifIntIn("amt", big.NewInt(1), verifPow2(64))}, Owner: e.owner.String()}
		_, panicked = e.verifDeliver(func() error { _, err := NewMsgServerImpl(e.k).MintToken(e.ctx, msg); return err })
		what = "MintToken"
	} else {
		msg := &v1.MsgIssueToken{Symbol: "doggy", Name: "dog token", MinUnit: "dog", Scale: 6, InitialSupply: 10, MaxSupply: 100, Mintable: true, Owner: e.owner.String()}
		_, panicked = e.verifDeliver(func() error { _, err := NewMsgServerImpl(e.k).IssueToken(e.ctx, msg); return err })
		what = "IssueToken"
	}
	verifCover("ok")
	verifAssert(!panicked, "validated params never make a handler panic: "+what)
}
