package keeper

import (
	"context"
	"math/big"

	storetypes "cosmossdk.io/store/types"
	sdk "github.com/cosmos/cosmos-sdk/types"
	banktypes "github.com/cosmos/cosmos-sdk/x/bank/types"
	protov2 "google.golang.org/protobuf/proto"

	"mods.irisnet.org/modules/token/types"
	v1 "mods.irisnet.org/modules/token/types/v1"
)

// c11MeteredBank is the bank stub with the one extra piece of the x/bank contract that this harness
// observes: a balance lookup is a read of a gas-metered store, so it charges the transaction's gas meter
// (the flat read cost of the store), and the gas a transaction used is part of its result.
type c11MeteredBank struct{ tkBank }

func (b c11MeteredBank) GetBalance(ctx context.Context, addr sdk.AccAddress, denom string) sdk.Coin {
	sdk.UnwrapSDKContext(ctx).GasMeter().ConsumeGas(storetypes.KVGasConfig().ReadCostFlat, "balance read")
	return b.tkBank.GetBalance(ctx, addr, denom)
}

type c11Tx struct{ msgs []sdk.Msg }

func (t c11Tx) GetMsgs() []sdk.Msg                    { return t.msgs }
func (t c11Tx) GetMsgsV2() ([]protov2.Message, error) { return nil, nil }

// C11 (self-composition): the token-fee ante check of one transaction carrying token messages of two or
// three different owners, executed twice on the same state: the same verdict and the same gas used,
// whatever order the runtime iterates its maps in.
func VerifC11_TokenFeeAnte() {
	verifExpect("accepted", "rejected")
	e := newTkEnv(false)
	bank := c11MeteredBank{tkBank{e.bank, map[string]banktypes.Metadata{}}}
	dec := NewValidateTokenFeeDecorator(e.k, bank)
	owners := []sdk.AccAddress{e.owner, e.stranger, e.other}[:2+verifChoice("thirdOwner", 2)]
	names := []string{"kitty", "doggy", "birdy"}
	var msgs []sdk.Msg
	for i, o := range owners {
		e.bank.fund(o, e.native.MinUnit, verifIntIn("wallet"+names[i], big.NewInt(0), verifPow2(70)))
		msgs = append(msgs, &v1.MsgIssueToken{Symbol: names[i], Name: names[i], MinUnit: names[i][:3], Scale: 6, InitialSupply: 1, MaxSupply: 10, Mintable: true, Owner: o.String()})
	}
	tx := c11Tx{msgs}
	next := func(ctx sdk.Context, tx sdk.Tx, simulate bool) (sdk.Context, error) { return ctx, nil }
	run := func() (bool, uint64) {
		ctx := e.ctx.WithGasMeter(storetypes.NewInfiniteGasMeter())
		_, err := dec.AnteHandle(ctx, tx, false, next)
		return err == nil, ctx.GasMeter().GasConsumed()
	}
	verifMapOrderSymbolic(true)
	same, accepted := true, false
	for try := 0; try < verifTries() && same; try++ {
		ok1, gas1 := run()
		ok2, gas2 := run()
		same = ok1 == ok2 && gas1 == gas2
		accepted = ok1
	}
	verifMapOrderSymbolic(false)
	if accepted {
		verifCover("accepted")
	} else {
		verifCover("rejected")
	}
	verifAssert(same, "two executions of the same transaction on the same state give the same verdict and use the same gas")
	_ = types.ModuleName
}
