package keeper

import (
	"encoding/hex"
	"math/big"
	"time"

	sdk "github.com/cosmos/cosmos-sdk/types"

	"mods.irisnet.org/modules/htlc/types"
)

// C16 htlc: authority only; rejected sets never stored.  (Consumers under validated params are the
// C03/C04 harnesses, whose asset parameters are free within Params.Validate and which fail on any panic.)
func VerifC16_UpdateParams() {
	verifExpect("stored", "refused")
	e := newHEnv()
	a := e.asset
	a.SupplyLimit.Limit = verifIntAny("newLimit")
	a.SupplyLimit.TimeBasedLimit = verifIntAny("newTimeLimit")
	a.FixedFee = verifIntAny("newFixedFee")
	a.MinSwapAmount = verifIntAny("newMinSwap")
	a.MaxSwapAmount = verifIntAny("newMaxSwap")
	a.MinBlockLock = verifUint64("newMinLock")
	a.MaxBlockLock = verifUint64("newMaxLock")
	p := types.Params{AssetParams: []types.AssetParam{a}}
	rightAuthority := verifChoice("authority", 2) == 0
	auth := e.k.authority
	if !rightAuthority {
		auth = e.user.String()
	}
	var vErr error
	vPanicked, _ := verifCatch(func() { vErr = p.Validate() })
	err, _ := e.verifDeliver(func() error {
		_, err := NewMsgServerImpl(e.k).UpdateParams(e.ctx, &types.MsgUpdateParams{Authority: auth, Params: p})
		return err
	})
	after, _ := e.k.GetAsset(e.ctx, hDenom)
	if err != nil {
		verifCover("refused")
		verifAssert(after.SupplyLimit.Limit.Equal(e.asset.SupplyLimit.Limit) && after.MinBlockLock == e.asset.MinBlockLock && after.MaxSwapAmount.Equal(e.asset.MaxSwapAmount), "refused update leaves params unchanged")
		return
	}
	verifCover("stored")
	verifAssert(rightAuthority, "only the configured authority changes params")
	verifAssert(!vPanicked && vErr == nil, "a parameter set rejected by validation is never stored")
}

// C16 consumers: under ANY accepted parameter set - in particular supply limits that the authority has
// lowered below what already circulates or is in flight - every message of the module and the begin-block
// handler end in success or an ordinary rejection, never in an abort.
func VerifC16_Consumers() {
	verifExpect("done", "rejected")
	e := newHEnvLimits(false)
	sh := hChooseShape()
	one, w := big.NewInt(1), verifPow2(64)
	amt := verifIntIn("amt", one, w)
	denom := hOther
	sender, to := e.user, e.other
	if sh.transfer {
		denom = hDenom
		if sh.dir == types.Incoming {
			sender, to = e.deputy, e.user
		} else {
			sender, to = e.user, e.deputy
		}
	}
	amount := sdk.NewCoins(sdk.Coin{Denom: denom, Amount: amt})
	e.bank.fund(sender, denom, verifIntIn("wallet", big.NewInt(0), verifPow2(66)))
	e.bank.fund(vModuleAddr(types.ModuleName), denom, verifIntIn("escrow", big.NewInt(0), verifPow2(66)))
	ts := uint64(1700000000)
	ctx := e.ctx.WithBlockTime(time.Unix(1700000000, 0))
	lock := types.GetHashLock(hSecretGood, ts)
	srv := NewMsgServerImpl(e.k)
	var err error
	var panicked bool
	var what string
	switch verifChoice("op", 4) {
	case 0:
		msg := &types.MsgCreateHTLC{Sender: sender.String(), To: to.String(), ReceiverOnOtherChain: "r", SenderOnOtherChain: "s",
			Amount: amount, HashLock: hex.EncodeToString(lock), Timestamp: ts, TimeLock: types.MinTimeLock + 5, Transfer: sh.transfer}
		verifAssume(msg.ValidateBasic() == nil)
		err, panicked = e.verifDeliver(func() error { _, err := srv.CreateHTLC(ctx, msg); return err })
	case 1:
		id := hID(1)
		e.putHTLC(id, types.Open, sh.transfer, sh.dir, amount, ts, uint64(hHeight)+10, true)
		msg := &types.MsgClaimHTLC{Sender: e.other.String(), Id: id.String(), Secret: hSecretGood.String()}
		verifAssume(msg.ValidateBasic() == nil)
		err, panicked = e.verifDeliver(func() error { _, err := srv.ClaimHTLC(ctx, msg); return err })
	case 2:
		id := hID(1)
		h := e.putHTLC(id, types.Open, sh.transfer, sh.dir, amount, ts, uint64(hHeight), true)
		panicked, what = verifCatch(func() { err = e.k.RefundHTLC(ctx, h, id) })
	case 3:
		panicked, what = verifCatch(func() { e.k.UpdateTimeBasedSupplyLimits(ctx) })
	}
	if panicked && err != nil {
		what = err.Error()
	}
	if panicked {
		verifPrint(what)
	}
	verifAssert(!panicked, "no accepted parameter set makes a handler abort")
	if err != nil {
		verifCover("rejected")
	} else {
		verifCover("done")
	}
}
