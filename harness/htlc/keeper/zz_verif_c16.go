package keeper

import (
	"mods.irisnet.org/modules/htlc/types"
)

// C16 htlc: authority only; rejected sets never stored.  (Consumers under validated params are the
// C03/C04 harnesses, whose asset parameters are free within Params.Validate and which fail on any panic.)
func VerifC16_UpdateParams() {
	verifExpect("stored", "refused")
	e := newHEnv()
	a := e.asset
	a.SupplyLimit.Limit = verifIntAny("newLimit")
	a.SupplyLimit.TimeBasedLimit = verifIntAny("newTimeLimit")
	a.FixedFee = verifIntAny("newFixedFee")
	a.MinSwapAmount = verifIntAny("newMinSwap")
	a.MaxSwapAmount = verifIntAny("newMaxSwap")
	a.MinBlockLock = verifUint64("newMinLock")
	a.MaxBlockLock = verifUint64("newMaxLock")
	p := types.Params{AssetParams: []types.AssetParam{a}}
	rightAuthority := verifChoice("authority", 2) == 0
	auth := e.k.authority
	if !rightAuthority {
		auth = e.user.String()
	}
	var vErr error
	vPanicked, _ := verifCatch(func() { vErr = p.Validate() })
	err, _ := e.verifDeliver(func() error {
		_, err := NewMsgServerImpl(e.k).UpdateParams(e.ctx, &types.MsgUpdateParams{Authority: auth, Params: p})
		return err
	})
	after, _ := e.k.GetAsset(e.ctx, hDenom)
	if err != nil {
		verifCover("refused")
		verifAssert(after.SupplyLimit.Limit.Equal(e.asset.SupplyLimit.Limit) && after.MinBlockLock == e.asset.MinBlockLock && after.MaxSwapAmount.Equal(e.asset.MaxSwapAmount), "refused update leaves params unchanged")
		return
	}
	verifCover("stored")
	verifAssert(rightAuthority, "only the configured authority changes params")
	verifAssert(!vPanicked && vErr == nil, "a parameter set rejected by validation is never stored")
}
