package keeper

import (
	"encoding/hex"
	"math/big"
	"time"

	sdkmath "cosmossdk.io/math"
	tmbytes "github.com/cometbft/cometbft/libs/bytes"
	sdk "github.com/cosmos/cosmos-sdk/types"
	authtypes "github.com/cosmos/cosmos-sdk/x/auth/types"

	"mods.irisnet.org/modules/htlc/types"
)

const (
	hDenom  = "htltbnb"
	hOther  = "stake"
	hDenom2 = "htltinc"
	hHeight = int64(50)
)

type hEnv struct {
	*vEnv
	k                           Keeper
	deputy, user, other         sdk.AccAddress
	asset                       types.AssetParam
	incoming, outgoing, current sdkmath.Int
	tlCurrent                   sdkmath.Int
}

// newHEnv: one HTLT asset with symbolic (validated) parameters and a symbolic supply record
// satisfying the limit invariants H6: outgoing <= current, current+incoming <= limit,
// timeLimitedCurrent <= timeBasedLimit when time-limited.
func newHEnv() *hEnv { return newHEnvLimits(true) }

// newHEnvLimits(false): the supply limits bear no relation to the recorded supply - the authority may
// lower a limit below what already circulates (C16: no accepted parameter set may make a handler abort).
func newHEnvLimits(limitInvariant bool) *hEnv {
	e := &hEnv{vEnv: newVEnv(types.StoreKey, hHeight, hDenom, hOther)}
	e.bank.modules[types.ModuleName] = []string{authtypes.Minter, authtypes.Burner}
	e.deputy, e.user, e.other = vAddr(5), vAddr(1), vAddr(2)
	e.k = NewKeeper(e.cdc, e.key, e.acc, e.bank, vAddr(9).String()) // the app's own constructor
	zero, w := big.NewInt(0), verifAmt(64)
	e.asset = types.AssetParam{
		Denom: hDenom,
		SupplyLimit: types.SupplyLimit{Limit: verifIntIn("limit", zero, w), TimeLimited: verifBool("timeLimited"),
			TimePeriod: time.Hour, TimeBasedLimit: verifIntIn("timeLimit", zero, w)},
		Active: verifBool("active"), DeputyAddress: e.deputy.String(), FixedFee: verifIntIn("fixedFee", zero, w),
		MinSwapAmount: verifIntIn("minSwap", zero, w), MaxSwapAmount: verifIntIn("maxSwap", zero, w),
		MinBlockLock: types.MinTimeLock, MaxBlockLock: types.MaxTimeLock,
	}
	if !limitInvariant {
		// the consumers of ANY accepted parameter set: every figure arbitrary (absent, negative, huge);
		// only the repository's own validation narrows them
		e.asset.SupplyLimit.Limit, e.asset.SupplyLimit.TimeBasedLimit = verifIntAny("anyLimit"), verifIntAny("anyTimeLimit")
		e.asset.FixedFee, e.asset.MinSwapAmount, e.asset.MaxSwapAmount = verifIntAny("anyFixedFee"), verifIntAny("anyMinSwap"), verifIntAny("anyMaxSwap")
	}
	// a second supported asset with a deputy and a supply record of its own: nothing that happens to the first
	// asset's contracts may touch it
	second := types.AssetParam{Denom: hDenom2, SupplyLimit: types.SupplyLimit{Limit: sdkmath.NewInt(900), TimeLimited: true, TimePeriod: time.Hour, TimeBasedLimit: sdkmath.NewInt(500)},
		Active: true, DeputyAddress: vAddr(6).String(), FixedFee: sdkmath.NewInt(3), MinSwapAmount: sdkmath.NewInt(5), MaxSwapAmount: sdkmath.NewInt(700),
		MinBlockLock: types.MinTimeLock, MaxBlockLock: types.MaxTimeLock}
	p := types.Params{AssetParams: []types.AssetParam{e.asset, second}}
	var vErr error
	vPanicked, _ := verifCatch(func() { vErr = p.Validate() })
	verifAssume(!vPanicked && vErr == nil)
	if err := e.k.SetParams(e.ctx, p); err != nil {
		verifFail("validated params rejected")
	}
	e.incoming, e.outgoing, e.current = verifIntIn("incoming", zero, w), verifIntIn("outgoing", zero, w), verifIntIn("current", zero, w)
	e.tlCurrent = verifIntIn("tlCurrent", zero, w)
	verifAssume(e.outgoing.BigInt().Cmp(e.current.BigInt()) <= 0)
	if limitInvariant {
		verifAssume(verifAdd(e.current.BigInt(), e.incoming.BigInt()).Cmp(e.asset.SupplyLimit.Limit.BigInt()) <= 0)
	}
	c := func(a sdkmath.Int) sdk.Coin { return sdk.Coin{Denom: hDenom, Amount: a} }
	e.k.SetAssetSupply(e.ctx, types.NewAssetSupply(c(e.incoming), c(e.outgoing), c(e.current), c(e.tlCurrent), 0), hDenom)
	e.k.SetAssetSupply(e.ctx, hSecondSupply(), hDenom2)
	// bank: the asset's circulating supply is at least `current`; the escrow holds at least the open outgoing amount
	e.bank.fund(e.other, hDenom, e.current)
	return e
}

func hSecondSupply() types.AssetSupply {
	c := func(a int64) sdk.Coin { return sdk.NewInt64Coin(hDenom2, a) }
	return types.NewAssetSupply(c(11), c(22), c(333), c(44), 77*time.Second)
}

// secondAssetIntact: the supply record of the asset that is not involved is exactly as it was
func (e *hEnv) secondAssetIntact() bool {
	s, found := e.k.GetAssetSupply(e.ctx, hDenom2)
	w := hSecondSupply()
	return found && s.IncomingSupply.IsEqual(w.IncomingSupply) && s.OutgoingSupply.IsEqual(w.OutgoingSupply) && s.CurrentSupply.IsEqual(w.CurrentSupply) &&
		s.TimeLimitedCurrentSupply.IsEqual(w.TimeLimitedCurrentSupply) && s.TimeElapsed == w.TimeElapsed
}

func (e *hEnv) supply() types.AssetSupply { s, _ := e.k.GetAssetSupply(e.ctx, hDenom); return s }

var (
	hSecretGood = tmbytes.HexBytes(make([]byte, 32))
	hSecretBad  = tmbytes.HexBytes(append(make([]byte, 31), 1))
)

// putHTLC stores a contract record directly (as CreateHTLC would) under a concrete id.
func (e *hEnv) putHTLC(id tmbytes.HexBytes, state types.HTLCState, transfer bool, dir types.SwapDirection, amount sdk.Coins, ts, expiry uint64, queued bool) types.HTLC {
	sender, to := e.user, e.other
	if transfer && dir == types.Incoming {
		sender, to = e.deputy, e.user
	}
	if transfer && dir == types.Outgoing {
		sender, to = e.user, e.deputy
	}
	h := types.NewHTLC(id, sender, to, "", "", amount, types.GetHashLock(hSecretGood, ts), nil, ts, expiry, state, 0, transfer, dir)
	if state == types.Completed {
		h.Secret = hSecretGood.String()
		h.ClosedBlock = 40
	}
	e.k.SetHTLC(e.ctx, h, id)
	if queued {
		e.k.AddHTLCToExpiredQueue(e.ctx, expiry, id)
	}
	return h
}

func hID(b byte) tmbytes.HexBytes { id := make([]byte, 32); id[0] = b; return id }

type hShape struct {
	transfer bool
	dir      types.SwapDirection
}

func hChooseShape() hShape {
	switch verifChoice("shape", 3) {
	case 0:
		return hShape{false, types.None}
	case 1:
		return hShape{true, types.Incoming}
	}
	return hShape{true, types.Outgoing}
}

// C03/C04 claim: succeeds iff the contract is open and the secret hashes to the lock; then exactly the
// locked amount leaves escrow (or is minted / burned for cross-chain transfers) and the counters follow.
func VerifC03_Claim() {
	verifExpect("claimed", "refused")
	e := newHEnv()
	one, w := big.NewInt(1), verifAmt(64)
	sh := hChooseShape()
	state := []types.HTLCState{types.Open, types.Completed, types.Refunded}[verifChoice("state", 3)]
	amt := verifIntIn("amt", one, w)
	denom := hOther
	if sh.transfer {
		denom = hDenom
	}
	amount := sdk.NewCoins(sdk.Coin{Denom: denom, Amount: amt})
	ts := uint64(verifChoice("ts", 2)) * 1700000000
	id := hID(1)
	// the claim arrives well before the expiration height, or in the very last block in which the contract is open
	expiry := uint64(hHeight) + []uint64{10, 1}[verifChoice("lastOpenBlock", 2)]
	h := e.putHTLC(id, state, sh.transfer, sh.dir, amount, ts, expiry, state == types.Open)
	// invariants tying the record to escrow and counters (H5/H6) for an open contract
	escrow := verifIntIn("escrow", big.NewInt(0), verifAmt(66))
	e.bank.fund(vModuleAddr(types.ModuleName), denom, escrow)
	if state == types.Open {
		switch {
		case !sh.transfer, sh.dir == types.Outgoing:
			verifAssume(escrow.BigInt().Cmp(amt.BigInt()) >= 0)
		}
		if sh.dir == types.Incoming {
			verifAssume(e.incoming.BigInt().Cmp(amt.BigInt()) >= 0)
		}
		if sh.dir == types.Outgoing {
			verifAssume(e.outgoing.BigInt().Cmp(amt.BigInt()) >= 0)
		}
	}
	secret := hSecretGood
	good := verifChoice("secret", 2) == 0
	if !good {
		secret = hSecretBad
	}
	to, _ := sdk.AccAddressFromBech32(h.To)
	esc0, to0, sup0 := e.bank.get(vModuleAddr(types.ModuleName), denom).BigInt(), e.bank.get(to, denom).BigInt(), e.bank.supplyOf(denom).BigInt()
	s0 := e.supply()
	msg := &types.MsgClaimHTLC{Sender: e.other.String(), Id: id.String(), Secret: secret.String()}
	verifAssume(msg.ValidateBasic() == nil)
	err, _ := e.verifDeliver(func() error { _, err := NewMsgServerImpl(e.k).ClaimHTLC(e.ctx, msg); return err })
	esc1, to1, sup1 := e.bank.get(vModuleAddr(types.ModuleName), denom).BigInt(), e.bank.get(to, denom).BigInt(), e.bank.supplyOf(denom).BigInt()
	s1 := e.supply()
	after, _ := e.k.GetHTLC(e.ctx, id)
	queued := e.store().Has(types.GetHTLCExpiredQueueKey(h.ExpirationHeight, id))
	verifAssert(e.secondAssetIntact(), "a claim never touches the supply record of another asset")
	if err != nil {
		verifCover("refused")
		verifAssert(esc1.Cmp(esc0) == 0 && to1.Cmp(to0) == 0 && sup1.Cmp(sup0) == 0, "a refused claim moves nothing")
		verifAssert(after.State == state && queued == (state == types.Open), "a refused claim leaves the contract as it was")
		verifAssert(s1.IncomingSupply.Amount.Equal(s0.IncomingSupply.Amount) && s1.OutgoingSupply.Amount.Equal(s0.OutgoingSupply.Amount) && s1.CurrentSupply.Amount.Equal(s0.CurrentSupply.Amount) &&
			s1.TimeLimitedCurrentSupply.Amount.Equal(s0.TimeLimitedCurrentSupply.Amount) && s1.TimeElapsed == s0.TimeElapsed, "a refused claim leaves the counters")
		if state == types.Open && good {
			// the only legitimate reasons left: the cross-chain supply checks
			verifAssert(sh.transfer && sh.dir == types.Incoming, "an open contract with the right secret is only refused by a supply limit")
		}
		return
	}
	verifCover("claimed")
	verifAssert(state == types.Open, "only an open contract can be claimed (terminal states are absorbing)")
	verifAssert(good, "only the preimage of the hash lock claims")
	verifAssert(after.State == types.Completed && !queued, "claimed contract is completed and leaves the expiry queue")
	a := amt.BigInt()
	switch {
	case !sh.transfer:
		verifAssert(verifSub(esc0, esc1).Cmp(a) == 0 && verifSub(to1, to0).Cmp(a) == 0 && sup1.Cmp(sup0) == 0, "exactly the locked amount goes from escrow to the recipient")
	case sh.dir == types.Incoming:
		verifAssert(esc1.Cmp(esc0) == 0 && verifSub(to1, to0).Cmp(a) == 0 && verifSub(sup1, sup0).Cmp(a) == 0, "incoming transfer: exactly the amount is minted to the recipient")
		verifAssert(verifSub(s0.IncomingSupply.Amount.BigInt(), s1.IncomingSupply.Amount.BigInt()).Cmp(a) == 0 && verifSub(s1.CurrentSupply.Amount.BigInt(), s0.CurrentSupply.Amount.BigInt()).Cmp(a) == 0, "incoming counter moves to current")
		verifAssert(s1.CurrentSupply.Amount.BigInt().Cmp(e.asset.SupplyLimit.Limit.BigInt()) <= 0, "H6 current never exceeds the limit")
		if e.asset.SupplyLimit.TimeLimited {
			verifAssert(verifSub(s1.TimeLimitedCurrentSupply.Amount.BigInt(), s0.TimeLimitedCurrentSupply.Amount.BigInt()).Cmp(a) == 0, "amount completed in the period grows by the claimed amount")
			verifAssert(s1.TimeLimitedCurrentSupply.Amount.BigInt().Cmp(e.asset.SupplyLimit.TimeBasedLimit.BigInt()) <= 0, "amount completed in one period never exceeds the time-based limit")
		} else {
			verifAssert(s1.TimeLimitedCurrentSupply.Amount.Equal(s0.TimeLimitedCurrentSupply.Amount), "period counter untouched for an asset without a time-based limit")
		}
		verifAssert(s1.TimeElapsed == s0.TimeElapsed, "a claim does not move the period clock")
	case sh.dir == types.Outgoing:
		verifAssert(verifSub(esc0, esc1).Cmp(a) == 0 && verifSub(sup0, sup1).Cmp(a) == 0, "outgoing transfer: exactly the amount is burned from escrow")
		verifAssert(verifSub(s0.OutgoingSupply.Amount.BigInt(), s1.OutgoingSupply.Amount.BigInt()).Cmp(a) == 0 && verifSub(s0.CurrentSupply.Amount.BigInt(), s1.CurrentSupply.Amount.BigInt()).Cmp(a) == 0, "outgoing and current counters fall together")
		verifAssert(s1.OutgoingSupply.Amount.BigInt().Cmp(s1.CurrentSupply.Amount.BigInt()) <= 0, "H6 outgoing never exceeds current")
	}
	if !(sh.transfer && sh.dir == types.Incoming) {
		// the period counter is the amount completed by INCOMING transfers in the running period: nothing else moves it
		verifAssert(s1.TimeLimitedCurrentSupply.Amount.Equal(s0.TimeLimitedCurrentSupply.Amount) && s1.TimeElapsed == s0.TimeElapsed && s1.IncomingSupply.Amount.Equal(s0.IncomingSupply.Amount),
			"only a completed incoming transfer moves the period counter")
	}
}

// C03/C04 create (cross-chain and plain): duplicates refused; funds and counters move exactly; limits hold.
func VerifC04_Create() {
	verifExpect("created", "refused")
	e := newHEnv()
	sh := hChooseShape()
	amtV := int64(1000 + 1000*verifChoice("amtSel", 2))
	denom := hOther
	sender, to := e.user, e.other
	if sh.transfer {
		denom = hDenom
		if sh.dir == types.Incoming {
			sender, to = e.deputy, e.user
		} else {
			sender, to = e.user, e.deputy
		}
	}
	amount := sdk.NewCoins(sdk.NewInt64Coin(denom, amtV))
	e.bank.fund(sender, denom, verifIntIn("wallet", big.NewInt(0), verifAmt(66)))
	ts := uint64(1700000000)
	ctx := e.ctx.WithBlockTime(time.Unix(1700000000+int64(verifChoice("skew", 3)-1)*1200, 0))
	lock := types.GetHashLock(hSecretGood, ts)
	dup := verifChoice("dup", 2) == 1
	id := types.GetID(sender, to, amount, lock)
	if dup {
		e.putHTLC(id, types.Refunded, sh.transfer, sh.dir, amount, ts, 55, false)
	}
	// time locks across the valid range: both ends and their neighbours
	timeLock := []uint64{types.MinTimeLock, types.MinTimeLock + 5, types.MaxTimeLock - 1, types.MaxTimeLock}[verifChoice("timeLock", 4)]
	msg := &types.MsgCreateHTLC{Sender: sender.String(), To: to.String(), ReceiverOnOtherChain: "r", SenderOnOtherChain: "s",
		Amount: amount, HashLock: hex.EncodeToString(lock), Timestamp: ts, TimeLock: timeLock, Transfer: sh.transfer}
	verifAssume(msg.ValidateBasic() == nil)
	esc0, w0, sup0 := e.bank.get(vModuleAddr(types.ModuleName), denom).BigInt(), e.bank.get(sender, denom).BigInt(), e.bank.supplyOf(denom).BigInt()
	s0 := e.supply()
	err, _ := e.verifDeliver(func() error { _, err := NewMsgServerImpl(e.k).CreateHTLC(ctx, msg); return err })
	esc1, w1, sup1 := e.bank.get(vModuleAddr(types.ModuleName), denom).BigInt(), e.bank.get(sender, denom).BigInt(), e.bank.supplyOf(denom).BigInt()
	s1 := e.supply()
	a := big.NewInt(amtV)
	verifAssert(e.secondAssetIntact(), "a creation never touches the supply record of another asset")
	if err != nil {
		verifCover("refused")
		verifAssert(esc1.Cmp(esc0) == 0 && w1.Cmp(w0) == 0 && sup1.Cmp(sup0) == 0, "a refused create moves nothing")
		verifAssert(s1.IncomingSupply.Amount.Equal(s0.IncomingSupply.Amount) && s1.OutgoingSupply.Amount.Equal(s0.OutgoingSupply.Amount), "a refused create leaves the counters")
		return
	}
	verifCover("created")
	verifAssert(!dup, "a contract id is never reused")
	h, found := e.k.GetHTLC(ctx, id)
	verifAssert(found && h.State == types.Open && e.store().Has(types.GetHTLCExpiredQueueKey(h.ExpirationHeight, id)), "H1 new contract is open and queued at its expiry height")
	verifAssert(h.ExpirationHeight == uint64(hHeight)+timeLock, "expiry height = creation height + time lock")
	verifAssert(sup1.Cmp(sup0) == 0, "create mints/burns nothing")
	switch {
	case !sh.transfer, sh.dir == types.Outgoing:
		verifAssert(verifSub(esc1, esc0).Cmp(a) == 0 && verifSub(w0, w1).Cmp(a) == 0, "exactly the locked amount goes from the sender into escrow")
	default:
		verifAssert(esc1.Cmp(esc0) == 0 && w1.Cmp(w0) == 0, "incoming transfer locks nothing natively")
	}
	if sh.transfer {
		verifAssert(e.asset.Active, "only live assets can be swapped")
		verifAssert(a.Cmp(e.asset.MinSwapAmount.BigInt()) >= 0 && a.Cmp(e.asset.MaxSwapAmount.BigInt()) <= 0, "amount within the asset's swap range")
		lim := e.asset.SupplyLimit.Limit.BigInt()
		if sh.dir == types.Incoming {
			verifAssert(verifSub(s1.IncomingSupply.Amount.BigInt(), s0.IncomingSupply.Amount.BigInt()).Cmp(a) == 0, "incoming counter grows by the amount")
			verifAssert(verifAdd(s1.CurrentSupply.Amount.BigInt(), s1.IncomingSupply.Amount.BigInt()).Cmp(lim) <= 0, "H6 current+incoming never exceeds the limit")
			if e.asset.SupplyLimit.TimeLimited {
				verifAssert(verifAdd(s1.TimeLimitedCurrentSupply.Amount.BigInt(), s1.IncomingSupply.Amount.BigInt()).Cmp(e.asset.SupplyLimit.TimeBasedLimit.BigInt()) <= 0, "H6 completed-in-period + incoming never exceeds the time-based limit")
			}
			verifAssert(s1.TimeLimitedCurrentSupply.Amount.Equal(s0.TimeLimitedCurrentSupply.Amount) && s1.TimeElapsed == s0.TimeElapsed, "create does not move the period counter or clock")
		} else {
			verifAssert(verifSub(s1.OutgoingSupply.Amount.BigInt(), s0.OutgoingSupply.Amount.BigInt()).Cmp(a) == 0, "outgoing counter grows by the amount")
			verifAssert(s1.OutgoingSupply.Amount.BigInt().Cmp(s1.CurrentSupply.Amount.BigInt()) <= 0, "H6 outgoing never exceeds current")
			verifAssert(a.Cmp(verifAdd(e.asset.FixedFee.BigInt(), e.asset.MinSwapAmount.BigInt())) >= 0, "outgoing amount covers the fixed fee")
		}
	}
}

// C03/C04 refund of one expired contract (the body of the begin-block sweep).
func VerifC03_Refund() {
	verifExpect("refunded")
	e := newHEnv()
	one, w := big.NewInt(1), verifAmt(64)
	sh := hChooseShape()
	amt := verifIntIn("amt", one, w)
	denom := hOther
	if sh.transfer {
		denom = hDenom
	}
	amount := sdk.NewCoins(sdk.Coin{Denom: denom, Amount: amt})
	id := hID(1)
	h := e.putHTLC(id, types.Open, sh.transfer, sh.dir, amount, 1700000000, uint64(hHeight), true)
	escrow := verifIntIn("escrow", big.NewInt(0), verifAmt(66))
	e.bank.fund(vModuleAddr(types.ModuleName), denom, escrow)
	if !sh.transfer || sh.dir == types.Outgoing {
		verifAssume(escrow.BigInt().Cmp(amt.BigInt()) >= 0) // H5
	}
	if sh.dir == types.Incoming {
		verifAssume(e.incoming.BigInt().Cmp(amt.BigInt()) >= 0) // H6
	}
	if sh.dir == types.Outgoing {
		verifAssume(e.outgoing.BigInt().Cmp(amt.BigInt()) >= 0)
	}
	sender, _ := sdk.AccAddressFromBech32(h.Sender)
	esc0, w0 := e.bank.get(vModuleAddr(types.ModuleName), denom).BigInt(), e.bank.get(sender, denom).BigInt()
	s0 := e.supply()
	err := e.k.RefundHTLC(e.ctx, h, id)
	verifAssert(err == nil, "refunding an open, expired contract from an invariant state never fails")
	verifCover("refunded")
	esc1, w1 := e.bank.get(vModuleAddr(types.ModuleName), denom).BigInt(), e.bank.get(sender, denom).BigInt()
	s1 := e.supply()
	after, _ := e.k.GetHTLC(e.ctx, id)
	verifAssert(after.State == types.Refunded, "refunded contract is marked refunded")
	verifAssert(e.secondAssetIntact(), "a refund never touches the supply record of another asset")
	a := amt.BigInt()
	switch {
	case !sh.transfer, sh.dir == types.Outgoing:
		verifAssert(verifSub(esc0, esc1).Cmp(a) == 0 && verifSub(w1, w0).Cmp(a) == 0, "exactly the locked amount returns to the sender")
	default:
		verifAssert(esc1.Cmp(esc0) == 0 && w1.Cmp(w0) == 0, "incoming transfer refund moves no coins")
	}
	if sh.dir == types.Incoming {
		verifAssert(verifSub(s0.IncomingSupply.Amount.BigInt(), s1.IncomingSupply.Amount.BigInt()).Cmp(a) == 0, "incoming counter released")
	}
	if sh.dir == types.Outgoing {
		verifAssert(verifSub(s0.OutgoingSupply.Amount.BigInt(), s1.OutgoingSupply.Amount.BigInt()).Cmp(a) == 0, "outgoing counter released")
	}
	verifAssert(s1.CurrentSupply.Amount.Equal(s0.CurrentSupply.Amount), "refund leaves current supply")
	verifAssert(s1.TimeLimitedCurrentSupply.Amount.Equal(s0.TimeLimitedCurrentSupply.Amount) && s1.TimeElapsed == s0.TimeElapsed, "refund leaves the period counter and clock")
	if sh.dir != types.Incoming || !sh.transfer {
		verifAssert(s1.IncomingSupply.Amount.Equal(s0.IncomingSupply.Amount), "only an incoming transfer's refund moves the incoming counter")
	}
	if sh.dir != types.Outgoing || !sh.transfer {
		verifAssert(s1.OutgoingSupply.Amount.Equal(s0.OutgoingSupply.Amount), "only an outgoing transfer's refund moves the outgoing counter")
	}
}

// C04 limit period: one begin-block clock update over TWO assets with arbitrary period state.  Each
// asset's period clock advances by exactly the block-time delta; the period (and the amount completed
// in it) is reset exactly when the asset's own elapsed time reaches its own period (or the asset has no
// time-based limit); nothing else in the supply record moves; assets do not influence each other.
func VerifC04_PeriodClock() {
	verifExpect("advanced", "reset")
	e := &hEnv{vEnv: newVEnv(types.StoreKey, hHeight, hDenom, hOther)}
	e.bank.modules[types.ModuleName] = []string{authtypes.Minter, authtypes.Burner}
	e.k = NewKeeper(e.cdc, e.key, e.acc, e.bank, vAddr(9).String()) // the app's own constructor
	e.deputy = vAddr(5)
	zero, w := big.NewInt(0), verifAmt(64)
	denoms := []string{"htltaaa", "htltbbb"}
	var assets []types.AssetParam
	type pre struct {
		elapsed, period int64
		tl              sdkmath.Int
		limited         bool
	}
	var st []pre
	hour := int64(time.Hour)
	for i, d := range denoms {
		n := string(rune('A' + i))
		q := pre{elapsed: verifInt64("elapsed" + n), period: verifInt64("period" + n), tl: verifIntIn("tl"+n, zero, w), limited: verifBool("limited" + n)}
		verifAssume(q.period > 0 && q.period <= 1000*hour && q.elapsed >= 0 && q.elapsed < q.period)
		st = append(st, q)
		assets = append(assets, types.AssetParam{Denom: d,
			SupplyLimit: types.SupplyLimit{Limit: sdkmath.NewIntFromBigInt(w), TimeLimited: q.limited, TimePeriod: time.Duration(q.period), TimeBasedLimit: sdkmath.NewIntFromBigInt(w)},
			Active:      true, DeputyAddress: e.deputy.String(), FixedFee: sdkmath.NewInt(1), MinSwapAmount: sdkmath.NewInt(1), MaxSwapAmount: sdkmath.NewInt(1000),
			MinBlockLock: types.MinTimeLock, MaxBlockLock: types.MaxTimeLock})
	}
	p := types.Params{AssetParams: assets}
	verifAssume(p.Validate() == nil)
	if err := e.k.SetParams(e.ctx, p); err != nil {
		verifFail("validated params rejected")
	}
	c := func(d string, a sdkmath.Int) sdk.Coin { return sdk.Coin{Denom: d, Amount: a} }
	for i, d := range denoms {
		e.k.SetAssetSupply(e.ctx, types.NewAssetSupply(c(d, sdkmath.NewInt(3)), c(d, sdkmath.NewInt(2)), c(d, sdkmath.NewInt(7)), c(d, st[i].tl), time.Duration(st[i].elapsed)), d)
	}
	// block times with whole seconds (the monotonic-clock bit tricks of time.Time on symbolic nanoseconds are outside the engine)
	prev, deltaSec := verifInt64("prev"), verifInt64("deltaSec")
	verifAssume(prev > 0 && prev < 1<<32 && deltaSec >= 0 && deltaSec <= 2000*3600)
	delta := deltaSec * int64(time.Second)
	e.k.SetPreviousBlockTime(e.ctx, time.Unix(prev, 0))
	ctx := e.ctx.WithBlockTime(time.Unix(prev+deltaSec, 0))
	e.k.UpdateTimeBasedSupplyLimits(ctx)
	for i, d := range denoms {
		s1, found := e.k.GetAssetSupply(ctx, d)
		verifAssert(found, "supply record kept")
		q := st[i]
		if q.limited && q.elapsed+delta < q.period {
			verifCover("advanced")
			verifAssert(int64(s1.TimeElapsed) == q.elapsed+delta, "period clock advances by exactly the block-time delta")
			verifAssert(s1.TimeLimitedCurrentSupply.Amount.Equal(q.tl), "amount completed in the period is kept while the period runs")
		} else {
			verifCover("reset")
			verifAssert(s1.TimeElapsed == 0 && s1.TimeLimitedCurrentSupply.Amount.IsZero(), "period and its completed amount restart only when the asset's own period is over")
		}
		verifAssert(s1.IncomingSupply.Amount.Equal(sdkmath.NewInt(3)) && s1.OutgoingSupply.Amount.Equal(sdkmath.NewInt(2)) && s1.CurrentSupply.Amount.Equal(sdkmath.NewInt(7)), "the clock update leaves the other counters")
	}
	pt, ok := e.k.GetPreviousBlockTime(ctx)
	verifAssert(ok && pt.Equal(ctx.BlockTime()), "previous block time follows the block time")
}
