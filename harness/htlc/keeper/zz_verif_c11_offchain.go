package keeper

import (
	"encoding/hex"
	"time"

	sdkmath "cosmossdk.io/math"
	tmbytes "github.com/cometbft/cometbft/libs/bytes"
	sdk "github.com/cosmos/cosmos-sdk/types"
	authtypes "github.com/cosmos/cosmos-sdk/x/auth/types"

	"mods.irisnet.org/modules/htlc/types"
)

// C11 off-chain disturbances, htlc (verifOffChain, harness/rt): a plain contract is created; the side work
// creates another contract and claims the first; afterwards a second contract is created, the first claimed,
// a claim with a wrong secret refused, and the begin-block sweep run at the second contract's expiry.
func VerifC11_HTLCOffChainDisturbance() {
	amt := sdkmath.NewInt(1000) // concrete: contract ids hash the decimal text of the amount
	verifOffChain(func() vReplica {
		e := newVEnv(types.StoreKey, hHeight, hOther)
		e.bank.modules[types.ModuleName] = []string{authtypes.Minter, authtypes.Burner}
		user, other := vAddr(1), vAddr(2)
		k := NewKeeper(e.cdc, e.key, e.acc, e.bank, vAddr(9).String())
		if err := k.SetParams(e.ctx, types.DefaultParams()); err != nil {
			verifFail("default params rejected")
		}
		e.ctx = e.ctx.WithBlockTime(time.Unix(1700000000, 0))
		e.bank.fund(user, hOther, amt.MulRaw(4))
		ts := uint64(1700000000)
		secret2 := tmbytes.HexBytes(append(make([]byte, 31), 2))
		create := func(ctx sdk.Context, secret tmbytes.HexBytes, lockFor uint64) (tmbytes.HexBytes, error) {
			lock := types.GetHashLock(secret, ts)
			amount := sdk.NewCoins(sdk.Coin{Denom: hOther, Amount: amt})
			_, err := NewMsgServerImpl(k).CreateHTLC(ctx, &types.MsgCreateHTLC{Sender: user.String(), To: other.String(), ReceiverOnOtherChain: "r", SenderOnOtherChain: "s",
				Amount: amount, HashLock: hex.EncodeToString(lock), Timestamp: ts, TimeLock: lockFor, Transfer: false})
			return types.GetID(user, other, amount, lock), err
		}
		claim := func(ctx sdk.Context, id, secret tmbytes.HexBytes) error {
			_, err := NewMsgServerImpl(k).ClaimHTLC(ctx, &types.MsgClaimHTLC{Sender: other.String(), Id: id.String(), Secret: secret.String()})
			return err
		}
		var id1 tmbytes.HexBytes
		var r vReplica
		r.env = e
		r.first = func() {
			var err error
			if id1, err = create(e.ctx, hSecretGood, types.MinTimeLock+5); err != nil {
				verifFail("contract refused: " + err.Error())
			}
		}
		r.side = func(ctx sdk.Context) error {
			if _, err := create(ctx, secret2, types.MinTimeLock); err != nil {
				return err
			}
			return claim(ctx, id1, hSecretGood)
		}
		r.restart = func() { k = NewKeeper(e.cdc, e.key, e.acc, e.bank, vAddr(9).String()) }
		r.second = func(ctx sdk.Context) []bool {
			id2, e0 := create(ctx, secret2, types.MinTimeLock)
			e1 := claim(ctx, id2, hSecretBad)
			e2 := claim(ctx, id1, hSecretGood)
			e3 := claim(ctx, id1, hSecretGood)
			later := ctx.WithBlockHeight(ctx.BlockHeight() + int64(types.MinTimeLock))
			k.IterateHTLCExpiredQueueByHeight(later, uint64(later.BlockHeight()), func(id tmbytes.HexBytes, h types.HTLC) bool {
				_ = k.RefundHTLC(later, h, id)
				return false
			})
			h2, found := k.GetHTLC(ctx, id2)
			return []bool{e0 != nil, e1 == nil, e2 != nil, e3 == nil, !found || h2.State != types.Refunded}
		}
		return r
	})
}
