package keeper

import (
	"encoding/hex"
	"math/big"
	"time"

	sdk "github.com/cosmos/cosmos-sdk/types"

	"mods.irisnet.org/modules/htlc/types"
)

const hOther2 = "uiris"

// C03 with a plain contract that locks TWO coins: creation takes exactly both amounts from the sender into
// escrow; a claim with the preimage hands exactly both to the recipient, a refund exactly both back to the
// sender, once; a wrong secret, a closed contract or a duplicate id move nothing - coin by coin.
func VerifC03_PlainTwoCoins() {
	verifExpect("created", "claimed", "refunded", "refused")
	e := newHEnv()
	one, w := big.NewInt(1), verifAmt(64)
	a1, a2 := verifIntIn("amt1", one, w), verifIntIn("amt2", one, w)
	amount := sdk.NewCoins(sdk.Coin{Denom: hOther, Amount: a1}, sdk.Coin{Denom: hOther2, Amount: a2})
	ts := uint64(1700000000)
	lock := types.GetHashLock(hSecretGood, ts)
	sender, to := e.user, e.other
	selfLock := verifChoice("recipientIsSender", 2) == 1 // a contract somebody locks for himself
	if selfLock {
		to = sender
	}
	denoms := []string{hOther, hOther2}
	amts := []*big.Int{a1.BigInt(), a2.BigInt()}
	mod := vModuleAddr(types.ModuleName)
	snap := func() (esc, ws, wt []*big.Int) {
		for _, d := range denoms {
			esc, ws, wt = append(esc, e.bank.get(mod, d).BigInt()), append(ws, e.bank.get(sender, d).BigInt()), append(wt, e.bank.get(to, d).BigInt())
		}
		return
	}
	same := func(x, y []*big.Int) bool { return x[0].Cmp(y[0]) == 0 && x[1].Cmp(y[1]) == 0 }
	op := verifChoice("op", 4)
	ctx := e.ctx.WithBlockTime(time.Unix(1700000000, 0))
	srv := NewMsgServerImpl(e.k)
	if op == 0 {
		// creation through the message server
		e.bank.fund(sender, hOther, verifIntIn("wallet1", big.NewInt(0), verifAmt(66)))
		e.bank.fund(sender, hOther2, verifIntIn("wallet2", big.NewInt(0), verifAmt(66)))
		id := types.GetID(sender, to, amount, lock)
		dup := verifChoice("dup", 2) == 1
		if dup {
			e.putHTLC(id, types.Completed, false, types.None, amount, ts, 55, false)
		}
		msg := &types.MsgCreateHTLC{Sender: sender.String(), To: to.String(), ReceiverOnOtherChain: "r", SenderOnOtherChain: "s",
			Amount: amount, HashLock: hex.EncodeToString(lock), Timestamp: ts, TimeLock: types.MinTimeLock + 5, Transfer: false}
		verifAssume(msg.ValidateBasic() == nil)
		esc0, ws0, wt0 := snap()
		err, _ := e.verifDeliver(func() error { _, err := srv.CreateHTLC(ctx, msg); return err })
		esc1, ws1, wt1 := snap()
		if err != nil {
			verifCover("refused")
			verifAssert(same(esc0, esc1) && same(ws0, ws1) && same(wt0, wt1), "a refused creation moves nothing")
			verifAssert(dup || ws0[0].Cmp(amts[0]) < 0 || ws0[1].Cmp(amts[1]) < 0, "a new contract the sender can fund is accepted")
			return
		}
		verifCover("created")
		verifAssert(!dup, "a contract id that exists already is refused, whatever state the old contract is in")
		for i := range denoms {
			verifAssert(verifSub(esc1[i], esc0[i]).Cmp(amts[i]) == 0 && verifSub(ws0[i], ws1[i]).Cmp(amts[i]) == 0 && (selfLock || wt1[i].Cmp(wt0[i]) == 0), "exactly the locked amount of every coin goes from the sender into escrow")
		}
		h, found := e.k.GetHTLC(ctx, id)
		verifAssert(found && h.State == types.Open && h.Amount.Equal(amount) && e.store().Has(types.GetHTLCExpiredQueueKey(h.ExpirationHeight, id)), "the new contract is open, records both coins and is queued at its expiration height")
		return
	}
	state := []types.HTLCState{types.Open, types.Completed, types.Refunded}[verifChoice("state", 3)]
	id := hID(0xfe)
	// claims arrive in the last block in which the contract is open (the begin-block handler of the NEXT block
	// refunds it); the refund runs in the block of the expiration height
	expiry := uint64(hHeight) + 1
	if op == 3 {
		expiry = uint64(hHeight)
	}
	h := e.putHTLC(id, state, false, types.None, amount, ts, expiry, state == types.Open)
	if selfLock {
		h.To = sender.String()
		e.k.SetHTLC(e.ctx, h, id)
	}
	for i, d := range denoms {
		esc := verifIntIn([]string{"escrow1", "escrow2"}[i], big.NewInt(0), verifAmt(66))
		e.bank.fund(mod, d, esc)
		if state == types.Open {
			verifAssume(esc.BigInt().Cmp(amts[i]) >= 0) // H5
		}
	}
	esc0, ws0, wt0 := snap()
	var err error
	good := true
	switch op {
	case 1, 2:
		secret := hSecretGood
		if op == 2 {
			secret, good = hSecretBad, false
		}
		msg := &types.MsgClaimHTLC{Sender: e.deputy.String(), Id: id.String(), Secret: secret.String()}
		verifAssume(msg.ValidateBasic() == nil)
		err, _ = e.verifDeliver(func() error { _, err := srv.ClaimHTLC(ctx, msg); return err })
	case 3:
		verifAssume(state == types.Open) // the begin-block sweep refunds open contracts only (queue entry <=> open)
		err = e.k.RefundHTLC(ctx, h, id)
		verifAssert(err == nil, "refunding an open, expired contract from an invariant state never fails")
	}
	esc1, ws1, wt1 := snap()
	after, _ := e.k.GetHTLC(ctx, id)
	queued := e.store().Has(types.GetHTLCExpiredQueueKey(h.ExpirationHeight, id))
	if err != nil {
		verifCover("refused")
		verifAssert(same(esc0, esc1) && same(ws0, ws1) && same(wt0, wt1), "a refused claim moves nothing")
		verifAssert(after.State == state && queued == (state == types.Open), "a refused claim leaves the contract as it was")
		verifAssert(!(state == types.Open && good), "an open contract is claimable with the preimage of its hash lock")
		return
	}
	if op == 3 {
		verifCover("refunded")
		verifAssert(after.State == types.Refunded, "a refunded contract is marked refunded")
		for i := range denoms {
			verifAssert(verifSub(esc0[i], esc1[i]).Cmp(amts[i]) == 0 && verifSub(ws1[i], ws0[i]).Cmp(amts[i]) == 0 && (selfLock || wt1[i].Cmp(wt0[i]) == 0), "exactly the locked amount of every coin returns to the sender")
		}
		return
	}
	verifCover("claimed")
	verifAssert(state == types.Open && good, "only an open contract is claimed, and only with the preimage")
	verifAssert(after.State == types.Completed && !queued, "a claimed contract is completed and leaves the expiry queue")
	for i := range denoms {
		verifAssert(verifSub(esc0[i], esc1[i]).Cmp(amts[i]) == 0 && verifSub(wt1[i], wt0[i]).Cmp(amts[i]) == 0 && (selfLock || ws1[i].Cmp(ws0[i]) == 0), "exactly the locked amount of every coin goes from escrow to the recipient")
	}
}

// C03 "iff a claim presents the preimage": the secret presented is symbolic in its first and last byte (every
// other byte as in the real preimage); SHA-256 is an injective abstract function for the solver, so the claim
// must succeed for exactly one of the 65536 secrets - the preimage - and for no other.
func VerifC03_ClaimAnySecret() {
	verifExpect("claimed", "refused")
	e := newHEnv()
	amt := verifIntIn("amt", big.NewInt(1), verifAmt(64))
	amount := sdk.NewCoins(sdk.Coin{Denom: hOther, Amount: amt})
	ts := uint64(verifChoice("ts", 2)) * 1700000000
	id := hID(7)
	e.putHTLC(id, types.Open, false, types.None, amount, ts, uint64(hHeight)+10, true)
	e.bank.fund(vModuleAddr(types.ModuleName), hOther, amt)
	secret := make([]byte, 32)
	copy(secret, hSecretGood)
	b0, b31 := verifByte("secretFirst"), verifByte("secretLast")
	secret[0], secret[31] = b0, b31
	isPreimage := b0 == hSecretGood[0] && b31 == hSecretGood[31]
	_, _, _, err := e.k.ClaimHTLC(e.ctx, id, secret)
	if err != nil {
		verifCover("refused")
		verifAssert(!isPreimage, "the preimage of the hash lock always claims an open contract")
		return
	}
	verifCover("claimed")
	verifAssert(isPreimage, "nothing but the preimage of the hash lock claims a contract")
}
