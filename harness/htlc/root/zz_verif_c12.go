package htlc

import (
	"encoding/hex"
	"math/big"
	"time"

	sdkmath "cosmossdk.io/math"
	sdk "github.com/cosmos/cosmos-sdk/types"
	authtypes "github.com/cosmos/cosmos-sdk/x/auth/types"

	"mods.irisnet.org/modules/htlc/keeper"
	"mods.irisnet.org/modules/htlc/types"
)

func c12Env(height int64) (*vEnv, keeper.Keeper) {
	e := newVEnv(types.StoreKey, height, hDenom, hOther)
	e.bank.modules[types.ModuleName] = []string{authtypes.Minter, authtypes.Burner}
	return e, keeper.NewKeeper(e.cdc, e.key, e.acc, e.bank, vAddr(9).String())
}

// C12 htlc: a state reached through real messages exports to a genesis that validates, imports
// without panic into a fresh store, yields the same store contents and re-exports identically.
func VerifC12_HTLC() {
	verifExpect("roundtrip")
	const h = int64(50)
	e, k := c12Env(h)
	deputy, user, other := vAddr(5), vAddr(1), vAddr(2)
	asset := types.AssetParam{Denom: hDenom,
		SupplyLimit: types.SupplyLimit{Limit: sdkmath.NewInt(1_000_000_000), TimeLimited: false, TimePeriod: time.Hour, TimeBasedLimit: sdkmath.ZeroInt()},
		Active:      true, DeputyAddress: deputy.String(), FixedFee: sdkmath.NewInt(1), MinSwapAmount: sdkmath.NewInt(1), MaxSwapAmount: sdkmath.NewInt(1_000_000),
		MinBlockLock: types.MinTimeLock, MaxBlockLock: types.MaxTimeLock}
	if err := k.SetParams(e.ctx, types.Params{AssetParams: []types.AssetParam{asset}}); err != nil {
		verifFail("params rejected")
	}
	now := time.Unix(1700000000, 0)
	ctx := e.ctx.WithBlockTime(now)
	BeginBlocker(ctx, k) // creates the asset supply record and the previous block time
	e.bank.fund(user, hOther, sdkmath.NewInt(1_000_000))
	e.bank.fund(user, hDenom, sdkmath.NewInt(1_000_000))
	srv := keeper.NewMsgServerImpl(k)
	secret := make([]byte, 32)
	create := func(n string) {
		amt := verifIntIn("amt"+n, big.NewInt(2), big.NewInt(100000))
		tsZero := verifChoice("tsZero"+n, 2) == 1
		ts := uint64(1700000000)
		msg := &types.MsgCreateHTLC{ReceiverOnOtherChain: "r", SenderOnOtherChain: "s", TimeLock: types.MinTimeLock + 5}
		switch verifChoice("shape"+n, 3) {
		case 0:
			if tsZero {
				ts = 0
			}
			msg.Sender, msg.To, msg.Amount = user.String(), other.String(), sdk.NewCoins(sdk.Coin{Denom: hOther, Amount: amt})
		case 1:
			msg.Sender, msg.To, msg.Amount, msg.Transfer = deputy.String(), user.String(), sdk.NewCoins(sdk.Coin{Denom: hDenom, Amount: amt}), true
		case 2:
			// an outgoing transfer needs circulating supply: first complete an incoming one
			msg.Sender, msg.To, msg.Amount, msg.Transfer = user.String(), deputy.String(), sdk.NewCoins(sdk.Coin{Denom: hDenom, Amount: amt}), true
		}
		msg.Timestamp = ts
		msg.HashLock = hex.EncodeToString(types.GetHashLock(append(secret[:31], byte(len(n))), ts))
		verifAssume(msg.ValidateBasic() == nil)
		err, _ := e.verifDeliver(func() error { _, err := srv.CreateHTLC(ctx, msg); return err })
		verifAssume(err == nil)
	}
	create("1")
	if verifChoice("two", 2) == 1 {
		create("22")
	}
	g := ExportGenesis(ctx, k)
	vErr := types.ValidateGenesis(*g)
	tsZeroUsed := false
	for _, x := range g.Htlcs {
		if x.Timestamp == 0 {
			tsZeroUsed = true
		}
	}
	verifAssertKnown(vErr == nil, "the exported genesis passes the module's own validation", "C12-htlc-timestamp0", tsZeroUsed)
	verifAssume(vErr == nil)
	e2, k2 := c12Env(h)
	// the bank side of a genesis restart is x/bank's export/import, not this module's: carry it over
	e2.bank.restore(e.bank.snapshot())
	panicked, what := verifCatch(func() { InitGenesis(e2.ctx, k2, *g) })
	if panicked {
		verifPrint(what)
	}
	verifAssert(!panicked, "the exported genesis imports without panic")
	verifCover("roundtrip")
	verifAssert(verifDeepEqual(e.ms.stores[types.StoreKey].ents, e2.ms.stores[types.StoreKey].ents), "import reproduces the store key for key")
	g2 := ExportGenesis(e2.ctx.WithBlockTime(now), k2)
	verifAssert(len(g2.Htlcs) == len(g.Htlcs) && verifDeepEqual(g.Htlcs, g2.Htlcs) && verifDeepEqual(g.Supplies, g2.Supplies) && verifDeepEqual(g.Params, g2.Params), "a second export equals the first")
	verifAssert(g2.PreviousBlockTime.Equal(g.PreviousBlockTime), "previous block time survives")
}
