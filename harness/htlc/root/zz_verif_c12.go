package htlc

import (
	"encoding/hex"
	"math/big"
	"time"

	sdkmath "cosmossdk.io/math"
	tmbytes "github.com/cometbft/cometbft/libs/bytes"
	sdk "github.com/cosmos/cosmos-sdk/types"
	authtypes "github.com/cosmos/cosmos-sdk/x/auth/types"

	"mods.irisnet.org/modules/htlc/keeper"
	"mods.irisnet.org/modules/htlc/types"
)

func c12Env(height int64) (*vEnv, keeper.Keeper) {
	e := newVEnv(types.StoreKey, height, hDenom, hOther)
	e.bank.modules[types.ModuleName] = []string{authtypes.Minter, authtypes.Burner}
	return e, keeper.NewKeeper(e.cdc, e.key, e.acc, e.bank, vAddr(9).String())
}

// C12 htlc: a state reached through real messages exports to a genesis that validates, imports
// without panic into a fresh store, yields the same store contents and re-exports identically.
func VerifC12_HTLC() {
	verifExpect("roundtrip")
	const h = int64(50)
	e, k := c12Env(h)
	deputy, user, other := vAddr(5), vAddr(1), vAddr(2)
	asset := types.AssetParam{Denom: hDenom,
		// the asset's limits are symbolic: the history may fill the asset exactly to a limit
		SupplyLimit: types.SupplyLimit{Limit: verifIntIn("limit", big.NewInt(1), verifPow2(40)), TimeLimited: verifBool("timeLimited"), TimePeriod: time.Hour, TimeBasedLimit: verifIntIn("timeLimit", big.NewInt(0), verifPow2(40))},
		Active:      true, DeputyAddress: deputy.String(), FixedFee: sdkmath.NewInt(1), MinSwapAmount: sdkmath.NewInt(1), MaxSwapAmount: sdkmath.NewInt(1_000_000),
		MinBlockLock: types.MinTimeLock, MaxBlockLock: types.MaxTimeLock}
	params := types.Params{AssetParams: []types.AssetParam{asset}}
	verifAssume(params.Validate() == nil)
	if err := k.SetParams(e.ctx, params); err != nil {
		verifFail("params rejected")
	}
	now := time.Unix(1700000000, 0)
	ctx := e.ctx.WithBlockTime(now)
	BeginBlocker(ctx, k) // creates the asset supply record and the previous block time
	e.bank.fund(user, hOther, sdkmath.NewInt(1_000_000))
	e.bank.fund(user, hDenom, sdkmath.NewInt(1_000_000))
	srv := keeper.NewMsgServerImpl(k)
	secret := make([]byte, 32)
	create := func(n string) {
		amt := verifIntIn("amt"+n, big.NewInt(2), big.NewInt(100000))
		tsZero := verifChoice("tsZero"+n, 2) == 1
		ts := uint64(1700000000)
		msg := &types.MsgCreateHTLC{ReceiverOnOtherChain: "r", SenderOnOtherChain: "s", TimeLock: types.MinTimeLock + 5}
		switch verifChoice("shape"+n, 3) {
		case 0:
			if tsZero {
				ts = 0
			}
			msg.Sender, msg.To, msg.Amount = user.String(), other.String(), sdk.NewCoins(sdk.Coin{Denom: hOther, Amount: amt})
		case 1:
			msg.Sender, msg.To, msg.Amount, msg.Transfer = deputy.String(), user.String(), sdk.NewCoins(sdk.Coin{Denom: hDenom, Amount: amt}), true
		case 2:
			// an outgoing transfer needs circulating supply: first complete an incoming one
			msg.Sender, msg.To, msg.Amount, msg.Transfer = user.String(), deputy.String(), sdk.NewCoins(sdk.Coin{Denom: hDenom, Amount: amt}), true
		}
		msg.Timestamp = ts
		msg.HashLock = hex.EncodeToString(types.GetHashLock(append(secret[:31], byte(len(n))), ts))
		verifAssume(msg.ValidateBasic() == nil)
		err, _ := e.verifDeliver(func() error { _, err := srv.CreateHTLC(ctx, msg); return err })
		verifAssume(err == nil)
	}
	create("1")
	claimed := verifChoice("claimFirst", 2) == 1
	if claimed {
		// the first contract is completed before the second is created (an incoming transfer then counts
		// as current supply, possibly of an earlier limit period)
		var first string
		k.IterateHTLCs(ctx, func(id tmbytes.HexBytes, _ types.HTLC) bool { first = id.String(); return true })
		cm := &types.MsgClaimHTLC{Sender: other.String(), Id: first, Secret: hex.EncodeToString(append(secret[:31], 1))}
		verifAssume(cm.ValidateBasic() == nil)
		err, _ := e.verifDeliver(func() error { _, err := srv.ClaimHTLC(ctx, cm); return err })
		verifAssume(err == nil)
	}
	if verifChoice("two", 2) == 1 {
		create("22")
	}
	// exported as is, or after the module's prepare-for-zero-height step (expiry heights rebased for a chain
	// that restarts at height 1)
	prep := verifChoice("prepForZeroHeight", 2) == 1
	// how many blocks each open contract still has to live, before anything is rebased
	remaining := map[string]uint64{}
	k.IterateHTLCs(ctx, func(id tmbytes.HexBytes, h0 types.HTLC) bool {
		if h0.State == types.Open {
			remaining[id.String()] = h0.ExpirationHeight - uint64(h)
		}
		return false
	})
	if prep {
		panicked, what := verifCatch(func() { PrepForZeroHeightGenesis(ctx, k) })
		if panicked {
			verifPrint(what)
		}
		verifAssert(!panicked, "the prepare-for-zero-height step does not abort")
	}
	g := ExportGenesis(ctx, k)
	vErr := types.ValidateGenesis(*g)
	tsZeroUsed := false
	for _, x := range g.Htlcs {
		if x.Timestamp == 0 {
			tsZeroUsed = true
		}
	}
	verifAssertKnown(vErr == nil, "the exported genesis passes the module's own validation", "C12-htlc-timestamp0", tsZeroUsed)
	verifAssume(vErr == nil)
	hImport := h
	if prep {
		hImport = 1
	}
	e2, k2 := c12Env(hImport)
	// the bank side of a genesis restart is x/bank's export/import, not this module's: carry it over
	e2.bank.restore(e.bank.snapshot())
	panicked, what := verifCatch(func() { InitGenesis(e2.ctx, k2, *g) })
	if panicked {
		verifPrint(what)
	}
	verifAssert(!panicked, "the exported genesis imports without panic")
	verifCover("roundtrip")
	if !claimed && !prep {
		verifAssert(verifDeepEqual(e.ms.stores[types.StoreKey].ents, e2.ms.stores[types.StoreKey].ents), "import reproduces the store key for key")
	}
	// completed contracts are dropped on export by design; every OPEN contract must answer identically
	k.IterateHTLCs(ctx, func(id tmbytes.HexBytes, h1 types.HTLC) bool {
		if h1.State == types.Open {
			h2, ok := k2.GetHTLC(e2.ctx, id)
			verifAssert(ok && verifDeepEqual(h1, h2), "an open contract answers identically after re-import")
			verifAssert(e2.store().Has(types.GetHTLCExpiredQueueKey(h1.ExpirationHeight, id)), "an open contract keeps its expiry queue entry after re-import")
			verifAssert(h1.ExpirationHeight > uint64(hImport), "an open contract expires in a later block of the re-imported chain")
			verifAssert(h2.ExpirationHeight-uint64(hImport) == remaining[id.String()], "an open contract has as many blocks left on the re-imported chain as it had before the export")
		}
		return false
	})
	s1, _ := k.GetAssetSupply(ctx, hDenom)
	s2, ok2 := k2.GetAssetSupply(e2.ctx, hDenom)
	verifAssert(ok2 && verifDeepEqual(s1, s2), "the asset supply record answers identically after re-import")
	g2 := ExportGenesis(e2.ctx.WithBlockTime(now), k2)
	verifAssert(len(g2.Htlcs) == len(g.Htlcs) && verifDeepEqual(g.Htlcs, g2.Htlcs) && verifDeepEqual(g.Supplies, g2.Supplies) && verifDeepEqual(g.Params, g2.Params), "a second export equals the first")
	verifAssert(g2.PreviousBlockTime.Equal(g.PreviousBlockTime), "previous block time survives")
}
