package htlc

import (
	"time"

	sdkmath "cosmossdk.io/math"
	sdk "github.com/cosmos/cosmos-sdk/types"

	"mods.irisnet.org/modules/htlc/keeper"
	"mods.irisnet.org/modules/htlc/types"
)

// C16 by genesis (htlc): an otherwise minimal genesis with one asset whose figures are arbitrary.
func VerifC16_Genesis() {
	verifExpect("imported", "refused")
	e := newVEnv(types.StoreKey, 10, "htltbnb")
	e.bank.modules[types.ModuleName] = []string{"minter", "burner"}
	k := keeper.NewKeeper(e.cdc, e.key, e.acc, e.bank, vAddr(9).String())
	asset := types.AssetParam{Denom: "htltbnb", SupplyLimit: types.SupplyLimit{Limit: verifIntAny("limit"), TimeLimited: verifBool("timeLimited"), TimePeriod: time.Hour, TimeBasedLimit: verifIntAny("timeLimit")},
		Active: verifBool("active"), DeputyAddress: vAddr(5).String(), FixedFee: verifIntAny("fixedFee"), MinSwapAmount: verifIntAny("minSwap"), MaxSwapAmount: verifIntAny("maxSwap"),
		MinBlockLock: verifUint64("minLock"), MaxBlockLock: verifUint64("maxLock")}
	p := types.Params{AssetParams: []types.AssetParam{asset}}
	zc := func() types.AssetSupply {
		z := sdk.Coin{Denom: "htltbnb", Amount: sdkmath.ZeroInt()}
		return types.NewAssetSupply(z, z, z, z, 0)
	}
	g := types.NewGenesisState(p, nil, []types.AssetSupply{zc()}, time.Unix(1700000000, 0))
	var vErr error
	vPanicked, _ := verifCatch(func() { vErr = p.Validate() })
	panicked, what := verifCatch(func() { InitGenesis(e.ctx, k, *g) })
	if panicked {
		verifCover("refused")
		_ = what // (a genesis may be refused for reasons beyond the parameters: the cover label "imported" guards against vacuity)
		return
	}
	verifCover("imported")
	verifAssert(!vPanicked && vErr == nil, "a parameter set rejected by validation is never stored by genesis")
	a, aerr := k.GetAsset(e.ctx, "htltbnb")
	verifAssert(aerr == nil && a.SupplyLimit.Limit.Equal(asset.SupplyLimit.Limit) && a.MaxSwapAmount.Equal(asset.MaxSwapAmount) && a.Active == asset.Active, "the imported parameters are the ones in force")
}
