package htlc

import (
	"math/big"
	"time"

	sdkmath "cosmossdk.io/math"
	tmbytes "github.com/cometbft/cometbft/libs/bytes"
	sdk "github.com/cosmos/cosmos-sdk/types"
	authtypes "github.com/cosmos/cosmos-sdk/x/auth/types"

	"mods.irisnet.org/modules/htlc/keeper"
	"mods.irisnet.org/modules/htlc/types"
)

const (
	hDenom = "htltbnb"
	hOther = "stake"
)

func hid(b byte) tmbytes.HexBytes { id := make([]byte, 32); id[0] = b; return id }

// C13/C03: the begin-block sweep at height h refunds exactly the open contracts queued at h,
// each once, removes their queue entries, leaves later contracts alone, never panics, and
// maintains the time-based supply window.
type c13Slot struct {
	id       tmbytes.HexBytes
	transfer bool
	dir      types.SwapDirection
	amt      sdkmath.Int
	denom    string
	sender   sdk.AccAddress
	expiry   uint64
}

const c13H = int64(50)

// c13HTLCState: one or two open contracts due at the current height and one due later, arbitrary asset
// parameters, supply counters and period clock within the invariants.
func c13HTLCState() (*vEnv, keeper.Keeper, sdk.Context, []c13Slot, int64) {
	const h = c13H
	e := newVEnv(types.StoreKey, h, hDenom, hOther)
	e.bank.modules[types.ModuleName] = []string{authtypes.Minter, authtypes.Burner}
	deputy, user, other := vAddr(5), vAddr(1), vAddr(2)
	k := keeper.NewKeeper(e.cdc, e.key, e.acc, e.bank, vAddr(9).String())
	zero, one, w := big.NewInt(0), big.NewInt(1), verifAmt(64)
	timeLimited := verifBool("timeLimited")
	asset := types.AssetParam{Denom: hDenom,
		SupplyLimit: types.SupplyLimit{Limit: verifIntIn("limit", zero, verifAmt(70)), TimeLimited: timeLimited, TimePeriod: time.Hour, TimeBasedLimit: verifIntIn("timeLimit", zero, w)},
		// the asset may have been paused by a parameter change after the contracts were created
		Active: verifBool("active"), DeputyAddress: deputy.String(), FixedFee: sdkmath.NewInt(1), MinSwapAmount: sdkmath.NewInt(1), MaxSwapAmount: sdkmath.NewInt(1000000),
		MinBlockLock: types.MinTimeLock, MaxBlockLock: types.MaxTimeLock}
	p := types.Params{AssetParams: []types.AssetParam{asset}}
	verifAssume(p.Validate() == nil)
	if err := k.SetParams(e.ctx, p); err != nil {
		verifFail("validated params rejected")
	}
	// up to two contracts due now, one due later
	type slot = c13Slot
	mk := func(n string, idb byte, expiry uint64) slot {
		s := slot{id: hid(idb), amt: verifIntIn("amt"+n, one, w), denom: hOther, sender: user, expiry: expiry}
		switch verifChoice("shape"+n, 3) {
		case 1:
			s.transfer, s.dir, s.denom, s.sender = true, types.Incoming, hDenom, deputy
		case 2:
			s.transfer, s.dir, s.denom, s.sender = true, types.Outgoing, hDenom, user
		}
		return s
	}
	// the ids of the contracts due now lie at the two ends of the height's key range in the expiry queue
	// (first byte 0xff / 0x00), the later one in between
	slots := []slot{mk("1", 0xff, uint64(h))}
	if verifChoice("two", 2) == 1 {
		slots = append(slots, mk("2", 0x00, uint64(h)))
		if verifTier() == 1 && verifChoice("three", 2) == 1 {
			slots = append(slots, mk("4", 0x7f, uint64(h))) // thorough tier: up to three contracts due in this block
		}
	}
	slots = append(slots, mk("3", 0x80, uint64(h)+7))
	needEsc := map[string]*big.Int{hDenom: big.NewInt(0), hOther: big.NewInt(0)}
	needIn, needOut := big.NewInt(0), big.NewInt(0)
	for _, s := range slots {
		to := other
		if s.dir == types.Incoming {
			to = user
		} else if s.dir == types.Outgoing {
			to = deputy
		}
		rec := types.NewHTLC(s.id, s.sender, to, "", "", sdk.NewCoins(sdk.Coin{Denom: s.denom, Amount: s.amt}), types.GetHashLock(make([]byte, 32), 1700000000), nil, 1700000000, s.expiry, types.Open, 0, s.transfer, s.dir)
		k.SetHTLC(e.ctx, rec, s.id)
		k.AddHTLCToExpiredQueue(e.ctx, s.expiry, s.id)
		switch {
		case !s.transfer, s.dir == types.Outgoing:
			needEsc[s.denom] = verifAdd(needEsc[s.denom], s.amt.BigInt())
		}
		if s.dir == types.Incoming {
			needIn = verifAdd(needIn, s.amt.BigInt())
		}
		if s.dir == types.Outgoing {
			needOut = verifAdd(needOut, s.amt.BigInt())
		}
	}
	// invariants H5/H6 with non-negative remainders
	escrow := map[string]sdkmath.Int{}
	for _, d := range []string{hDenom, hOther} {
		escrow[d] = verifIntIn("escrow_"+d, zero, verifAmt(67))
		verifAssume(escrow[d].BigInt().Cmp(needEsc[d]) >= 0)
		e.bank.fund(vModuleAddr(types.ModuleName), d, escrow[d])
	}
	incoming, outgoing, current := verifIntIn("incoming", zero, verifAmt(67)), verifIntIn("outgoing", zero, verifAmt(67)), verifIntIn("current", zero, verifAmt(68))
	verifAssume(incoming.BigInt().Cmp(needIn) >= 0 && outgoing.BigInt().Cmp(needOut) >= 0 && outgoing.BigInt().Cmp(current.BigInt()) <= 0)
	c := func(a sdkmath.Int) sdk.Coin { return sdk.Coin{Denom: hDenom, Amount: a} }
	elapsed := time.Duration(verifInt64("elapsed"))
	verifAssume(elapsed >= 0 && elapsed < time.Hour)
	k.SetAssetSupply(e.ctx, types.NewAssetSupply(c(incoming), c(outgoing), c(current), c(verifIntIn("tlCurrent", zero, w)), elapsed), hDenom)
	prev, now := verifInt64("prevTime"), verifInt64("now")
	verifAssume(prev >= 1 && prev <= now && now < 1<<32) // block times before year 2106: time.Duration arithmetic cannot wrap
	if verifChoice("hasPrev", 2) == 1 {
		k.SetPreviousBlockTime(e.ctx, time.Unix(prev, 0))
	}
	return e, k, e.ctx.WithBlockTime(time.Unix(now, 0)), slots, now
}

func VerifC13_HTLCBeginBlock() {
	verifExpect("swept")
	const h = c13H
	e, k, ctx, slots, now := c13HTLCState()
	bal0 := map[string]*big.Int{}
	for _, s := range slots {
		bal0[string(s.sender)+s.denom] = e.bank.get(s.sender, s.denom).BigInt()
	}
	panicked, what := verifCatch(func() { BeginBlocker(ctx, k) })
	if panicked {
		verifPrint(what)
	}
	verifAssert(!panicked, "begin-block never panics from an invariant state")
	verifCover("swept")
	st := e.store()
	owed := map[string]*big.Int{}
	for _, s := range slots {
		rec, found := k.GetHTLC(ctx, s.id)
		verifAssert(found, "contract records are never dropped")
		queued := st.Has(types.GetHTLCExpiredQueueKey(s.expiry, s.id))
		if s.expiry == uint64(h) {
			verifAssert(rec.State == types.Refunded && rec.ClosedBlock == uint64(h), "every contract due now is refunded")
			verifAssert(!queued, "no queue entry at the current height remains")
			if !s.transfer || s.dir == types.Outgoing {
				key := string(s.sender) + s.denom
				if owed[key] == nil {
					owed[key] = big.NewInt(0)
				}
				owed[key] = verifAdd(owed[key], s.amt.BigInt())
			}
		} else {
			verifAssert(rec.State == types.Open && queued, "contracts due later are untouched")
		}
	}
	for _, s := range slots {
		key := string(s.sender) + s.denom
		exp := owed[key]
		if exp == nil {
			exp = big.NewInt(0)
		}
		verifAssert(verifSub(e.bank.get(s.sender, s.denom).BigInt(), bal0[key]).Cmp(exp) == 0, "each sender is refunded exactly once")
	}
	sup, _ := k.GetAssetSupply(ctx, hDenom)
	pt, ok := k.GetPreviousBlockTime(ctx)
	verifAssert(ok && pt.Unix() == now, "previous block time recorded")
	verifAssert(sup.IncomingSupply.Amount.BigInt().Sign() >= 0 && sup.OutgoingSupply.Amount.BigInt().Sign() >= 0, "counters stay non-negative")
	verifAssert(sup.OutgoingSupply.Amount.BigInt().Cmp(sup.CurrentSupply.Amount.BigInt()) <= 0, "H6 outgoing never exceeds current")
	verifAssert(sup.TimeElapsed >= 0 && sup.TimeElapsed < time.Hour, "window clock stays inside the period")
}

// C13/C03: MANY contracts due in the same block (more than any batch size a handler might use): every
// one of them is refunded in that block, the queue bucket is emptied and the escrow pays back exactly
// their sum.  All values but one amount are concrete: this is a long single history, not a symbolic one.
func VerifC13_HTLCBeginBlockMany() {
	verifExpect("swept")
	const h = int64(50)
	const n = 160
	e := newVEnv(types.StoreKey, h, hDenom, hOther)
	e.bank.modules[types.ModuleName] = []string{authtypes.Minter, authtypes.Burner}
	user, other := vAddr(1), vAddr(2)
	k := keeper.NewKeeper(e.cdc, e.key, e.acc, e.bank, vAddr(9).String())
	if err := k.SetParams(e.ctx, types.DefaultParams()); err != nil {
		verifFail("default params rejected")
	}
	first := verifIntIn("amtFirst", big.NewInt(1), verifAmt(64))
	sum := big.NewInt(0)
	ids := make([]tmbytes.HexBytes, n)
	for i := 0; i < n; i++ {
		id := make([]byte, 32)
		id[0], id[1] = byte(i/256), byte(i%256)
		ids[i] = id
		amt := sdkmath.NewInt(int64(1 + i%7))
		if i == 0 {
			amt = first
		}
		sum = verifAdd(sum, amt.BigInt())
		rec := types.NewHTLC(id, user, other, "", "", sdk.NewCoins(sdk.Coin{Denom: hOther, Amount: amt}), types.GetHashLock(make([]byte, 32), 1700000000), nil, 1700000000, uint64(h), types.Open, 0, false, types.None)
		k.SetHTLC(e.ctx, rec, id)
		k.AddHTLCToExpiredQueue(e.ctx, uint64(h), id)
	}
	e.bank.fund(vModuleAddr(types.ModuleName), hOther, sdkmath.NewIntFromBigInt(sum))
	ctx := e.ctx.WithBlockTime(time.Unix(1700000100, 0))
	b0 := e.bank.get(user, hOther).BigInt()
	panicked, what := verifCatch(func() { BeginBlocker(ctx, k) })
	if panicked {
		verifPrint(what)
	}
	verifAssert(!panicked, "begin-block never panics")
	verifCover("swept")
	st := e.store()
	allRefunded, noneQueued := true, true
	for _, id := range ids {
		rec, found := k.GetHTLC(ctx, id)
		allRefunded = allRefunded && found && rec.State == types.Refunded
		noneQueued = noneQueued && !st.Has(types.GetHTLCExpiredQueueKey(uint64(h), id))
	}
	verifAssert(allRefunded, "every contract due now is refunded, however many are due in one block")
	verifAssert(noneQueued, "no queue entry at the current height remains")
	verifAssert(verifSub(e.bank.get(user, hOther).BigInt(), b0).Cmp(sum) == 0 && e.bank.get(vModuleAddr(types.ModuleName), hOther).IsZero(), "the escrow pays back exactly the sum of the refunded contracts")
}
