package htlc

import (
	"time"

	authtypes "github.com/cosmos/cosmos-sdk/x/auth/types"

	"mods.irisnet.org/modules/htlc/keeper"
	"mods.irisnet.org/modules/htlc/types"
)

// C11 (self-composition over two node processes): two replicas are started at two different host-clock
// instants (package initialisation runs in each process), load the same genesis - either a given
// genesis file, or the module's DEFAULT genesis as the module manager does for a module added by an
// upgrade - run the same first block and export.  Module state and exported genesis must agree.
func verifProc_c11htlc() []int64 {
	mode := verifChoice("mode", 2)
	given := *types.DefaultGenesisState()
	pbt := verifInt64("genesisPreviousBlockTime")
	verifAssume(pbt >= -62135596800 && pbt < 1<<32) // from the zero time.Time up to year 2106
	given.PreviousBlockTime = time.Unix(pbt, 0).UTC()
	blockTime := time.Unix(1700000000, 0).UTC()
	e := newVEnv(types.StoreKey, 10, hDenom, hOther)
	e.bank.modules[types.ModuleName] = []string{authtypes.Minter, authtypes.Burner}
	k := keeper.NewKeeper(e.cdc, e.key, e.acc, e.bank, vAddr(9).String())
	if mode == 0 { // module added by an upgrade: InitGenesis(DefaultGenesis)
		InitGenesis(e.ctx, k, *types.DefaultGenesisState())
	} else { // a genesis file
		InitGenesis(e.ctx, k, given)
	}
	fp := []int64{}
	dump := func() {
		g := ExportGenesis(e.ctx, k)
		pt, found := k.GetPreviousBlockTime(e.ctx)
		fp = append(fp, g.PreviousBlockTime.UnixNano(), pt.UnixNano(), int64(len(g.Supplies)), int64(len(g.Htlcs)))
		if found {
			fp = append(fp, 1)
		} else {
			fp = append(fp, 0)
		}
		for _, s := range g.Supplies {
			fp = append(fp, int64(s.TimeElapsed), s.TimeLimitedCurrentSupply.Amount.Int64(), s.CurrentSupply.Amount.Int64())
		}
	}
	dump() // state right after import
	BeginBlocker(e.ctx.WithBlockTime(blockTime), k)
	dump() // state after the first block
	return fp
}

func init() { verifProcRegistry["c11htlc"] = verifProc_c11htlc }

func VerifC11_HTLCReplicas() {
	verifExpect("compared")
	verifClockSymbolic(true)
	fp1 := verifProc_c11htlc()
	verifSleepMs(30)
	fp2 := verifInFreshProcess("c11htlc")
	verifClockSymbolic(false)
	verifCover("compared")
	same := len(fp1) == len(fp2)
	for i := 0; same && i < len(fp1); i++ {
		same = fp1[i] == fp2[i]
	}
	verifAssertKnown(same, "two replicas of the same chain agree on state and exported genesis whatever their host clocks say", "C11-htlc-default-prev-time", verifChoice("mode", 2) == 0)
}

// C11 (self-composition): the htlc begin-block (expiry sweep and period clocks) with one or two contracts
// due, executed twice from the same state under symbolic map order and host clock: the same store, key for
// key, and the same balances.
func VerifC11_HTLCBeginBlock() {
	verifExpect("same")
	e, k, ctx, _, _ := c13HTLCState()
	same := e.verifSameTwice(func() { BeginBlocker(ctx, k) })
	verifCover("same")
	verifAssert(same, "two executions of the same begin-block on the same state end in the same state")
}
