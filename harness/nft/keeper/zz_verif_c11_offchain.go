package keeper

import (
	sdk "github.com/cosmos/cosmos-sdk/types"

	nftkeeper "cosmossdk.io/x/nft/keeper"

	"mods.irisnet.org/modules/nft/types"
)

// C11 off-chain disturbances, nft (verifOffChain, harness/rt): a class with one token exists; the side work
// issues another class, mints into both and edits; afterwards a token is minted, edited, transferred and
// burned, and a second class issued.
func VerifC11_NFTOffChainDisturbance() {
	verifOffChain(func() vReplica {
		e := newNfEnv()
		var r vReplica
		r.env = e.vEnv
		r.first = func() {}
		r.side = func(ctx sdk.Context) error {
			if _, err := e.k.IssueDenom(ctx, &types.MsgIssueDenom{Id: "sideclass", Name: "Side", Sender: e.stranger.String(), Symbol: "sd"}); err != nil {
				return err
			}
			if _, err := e.k.MintNFT(ctx, &types.MsgMintNFT{Id: "kitty2", DenomId: nfClass, Name: "n", URI: "u", Data: "d", Sender: e.creator.String(), Recipient: e.stranger.String()}); err != nil {
				return err
			}
			_, err := e.k.MintNFT(ctx, &types.MsgMintNFT{Id: "s1", DenomId: "sideclass", Name: "n", URI: "u", Data: "d", Sender: e.stranger.String(), Recipient: e.stranger.String()})
			return err
		}
		r.restart = func() {
			ss := vStoreService{e.key}
			e.k = Keeper{storeService: ss, cdc: e.cdc, nk: nftkeeper.NewKeeper(ss, e.cdc, nfAccount{e.acc}, e.bank)}
		}
		r.second = func(ctx sdk.Context) []bool {
			_, e0 := e.k.MintNFT(ctx, &types.MsgMintNFT{Id: "kitty2", DenomId: nfClass, Name: "n2", URI: "u2", Data: "d2", Sender: e.creator.String(), Recipient: e.owner.String()})
			_, e1 := e.k.EditNFT(ctx, &types.MsgEditNFT{Id: "kitty2", DenomId: nfClass, Name: "n3", URI: types.DoNotModify, UriHash: types.DoNotModify, Data: types.DoNotModify, Sender: e.owner.String()})
			_, e2 := e.k.TransferNFT(ctx, &types.MsgTransferNFT{Id: nfToken, DenomId: nfClass, Name: types.DoNotModify, URI: types.DoNotModify, UriHash: types.DoNotModify, Data: types.DoNotModify, Sender: e.owner.String(), Recipient: e.stranger.String()})
			_, e3 := e.k.BurnNFT(ctx, &types.MsgBurnNFT{Id: "kitty2", DenomId: nfClass, Sender: e.owner.String()})
			_, e4 := e.k.IssueDenom(ctx, &types.MsgIssueDenom{Id: "sideclass", Name: "Side", Sender: e.owner.String(), Symbol: "sd"})
			// an edit is refused exactly in an update-restricted class
			return []bool{e0 != nil, (e1 != nil) != e.updR, e2 != nil, e3 != nil, e4 != nil}
		}
		return r
	})
}
