package keeper

import (
	"context"

	"cosmossdk.io/core/address"
	"cosmossdk.io/core/store"
	storetypes "cosmossdk.io/store/types"
	"cosmossdk.io/x/nft"
	nftkeeper "cosmossdk.io/x/nft/keeper"
	addresscodec "github.com/cosmos/cosmos-sdk/codec/address"
	sdk "github.com/cosmos/cosmos-sdk/types"

	"mods.irisnet.org/modules/nft/types"
)

// core-store adapter, as runtime.NewKVStoreService: the store is taken from the context (gas-metered, and the
// branch's copy under a cache context)
type vStoreService struct{ key storetypes.StoreKey }
type vCoreStore struct{ s storetypes.KVStore }

func (v vStoreService) OpenKVStore(ctx context.Context) store.KVStore {
	return vCoreStore{sdk.UnwrapSDKContext(ctx).KVStore(v.key)}
}
func (c vCoreStore) Get(key []byte) ([]byte, error)                   { return c.s.Get(key), nil }
func (c vCoreStore) Has(key []byte) (bool, error)                     { return c.s.Has(key), nil }
func (c vCoreStore) Set(key, value []byte) error                      { c.s.Set(key, value); return nil }
func (c vCoreStore) Delete(key []byte) error                          { c.s.Delete(key); return nil }
func (c vCoreStore) Iterator(start, end []byte) (store.Iterator, error) {
	return c.s.Iterator(start, end), nil
}
func (c vCoreStore) ReverseIterator(start, end []byte) (store.Iterator, error) {
	return c.s.ReverseIterator(start, end), nil
}

type nfAccount struct{ *vAccount }

func (nfAccount) AddressCodec() address.Codec { return addresscodec.NewBech32Codec("cosmos") }

type nfEnv struct {
	*vEnv
	k                        Keeper
	creator, owner, stranger sdk.AccAddress
	mintR, updR              bool
}

const (
	nfClass = "kitties"
	nfToken = "kitty1"
)

// newNfEnv: one class (creator alice, restriction flags free) with one token owned by bob,
// built through the real message handlers.
func newNfEnv() *nfEnv {
	e := &nfEnv{vEnv: newVEnv(types.StoreKey, 10)}
	e.bank.modules[nft.ModuleName] = nil
	e.creator, e.owner, e.stranger = vAddr(1), vAddr(2), vAddr(3)
	if verifChoice("creatorHoldsToken", 2) == 1 {
		e.owner = e.creator // the class creator mints the first token to itself: owner and creator are one account
	}
	ss := vStoreService{e.key}
	e.k = Keeper{storeService: ss, cdc: e.cdc, nk: nftkeeper.NewKeeper(ss, e.cdc, nfAccount{e.acc}, e.bank)}
	e.mintR, e.updR = verifBool("mintRestricted"), verifBool("updateRestricted")
	_, err := e.k.IssueDenom(e.ctx, &types.MsgIssueDenom{Id: nfClass, Name: "Kitties", Schema: "", Sender: e.creator.String(), Symbol: "kit",
		MintRestricted: e.mintR, UpdateRestricted: e.updR, Description: "d", Uri: "u", UriHash: "h", Data: "data"})
	verifAssert(err == nil, "anybody can issue a new class")
	if err != nil {
		verifAssume(false)
	}
	// the creator mints the first token to bob
	_, err = e.k.MintNFT(e.ctx, &types.MsgMintNFT{Id: nfToken, DenomId: nfClass, Name: "n", URI: "uri", UriHash: "uh", Data: `{"k":"old"}`, Sender: e.creator.String(), Recipient: e.owner.String()})
	verifAssert(err == nil, "the class creator can mint into its class, restricted or not, to any recipient")
	if err != nil {
		verifAssume(false)
	}
	return e
}

// actor: the token's owner, the class creator (possibly the same account) or a stranger; the roles are
// decided by the address, not by the choice
type nfWho struct{ owner, creator bool }

func (e *nfEnv) actor(name string) (sdk.AccAddress, nfWho) {
	a := []sdk.AccAddress{e.owner, e.creator, e.stranger}[verifChoice(name, 3)]
	return a, nfWho{owner: a.Equals(e.owner), creator: a.Equals(e.creator)}
}

// supply(class) == number of tokens == sum of the owners' balances
func (e *nfEnv) assertCounts() {
	n := uint64(len(e.k.nk.GetNFTsOfClass(e.ctx, nfClass)))
	sum := uint64(0)
	for i, a := range []sdk.AccAddress{e.creator, e.owner, e.stranger} {
		if i == 1 && a.Equals(e.creator) {
			continue
		}
		sum += e.k.nk.GetBalance(e.ctx, nfClass, a)
	}
	verifAssert(e.k.nk.GetTotalSupply(e.ctx, nfClass) == n && sum == n, "supply = number of tokens = sum of balances")
}

// every token of the class has exactly one owner
func (e *nfEnv) ownerOf(id string) sdk.AccAddress { return e.k.nk.GetOwner(e.ctx, nfClass, id) }

func VerifC14_Mint() {
	verifExpect("minted", "refused")
	e := newNfEnv()
	actor, who := e.actor("actor")
	id := []string{"kitty2", nfToken}[verifChoice("idTaken", 2)]
	// the recipient: a third party, the class creator, or the sender itself
	recipient := []sdk.AccAddress{e.stranger, e.creator, actor}[verifChoice("recipient", 3)]
	msg := &types.MsgMintNFT{Id: id, DenomId: nfClass, Name: "n2", URI: "uri2", UriHash: "uh2", Data: `{"k":"v"}`, Sender: actor.String(), Recipient: recipient.String()}
	verifAssume(msg.ValidateBasic() == nil)
	err, _ := e.verifDeliver(func() error { _, err := e.k.MintNFT(e.ctx, msg); return err })
	e.assertCounts()
	verifAssert(e.ownerOf(nfToken).Equals(e.owner), "an existing token keeps its owner")
	if err != nil {
		verifCover("refused")
		verifAssert(id == nfToken || !e.k.HasNFT(e.ctx, nfClass, id), "a refused mint creates nothing")
		verifAssert(!(id != nfToken && (who.creator || !e.mintR)), "a mint with a fresh id is refused only for a non-creator in a mint-restricted class")
		return
	}
	verifCover("minted")
	verifAssert(id != nfToken, "a token id is never reused while the token exists")
	verifAssert(!e.mintR || who.creator, "minting into a mint-restricted class is possible only for the class creator")
	verifAssert(e.ownerOf(id).Equals(recipient), "the new token belongs to the recipient")
}

func VerifC14_Edit() {
	verifExpect("edited", "refused")
	e := newNfEnv()
	actor, who := e.actor("actor")
	pick := func(n string, cur string) string {
		return []string{types.DoNotModify, cur, "new-" + n}[verifChoice(n, 3)]
	}
	msg := &types.MsgEditNFT{Id: nfToken, DenomId: nfClass, Name: pick("name", "n"), URI: pick("uri", "uri"), UriHash: []string{types.DoNotModify, "uh-2"}[verifChoice("uriHash", 2)], Data: []string{types.DoNotModify, `{"k":"v"}`}[verifChoice("data", 2)], Sender: actor.String()}
	verifAssume(msg.ValidateBasic() == nil)
	before, _ := e.k.GetNFT(e.ctx, nfClass, nfToken)
	err, _ := e.verifDeliver(func() error { _, err := e.k.EditNFT(e.ctx, msg); return err })
	after, gerr := e.k.GetNFT(e.ctx, nfClass, nfToken)
	verifAssert(gerr == nil && after.GetID() == nfToken && after.GetOwner().Equals(e.owner), "edit never changes id or owner")
	e.assertCounts()
	if err != nil {
		verifCover("refused")
		verifAssert(after.GetName() == before.GetName() && after.GetURI() == before.GetURI() && after.GetData() == before.GetData() && after.GetURIHash() == before.GetURIHash(), "a refused edit changes nothing")
		verifAssert(!(who.owner && !e.updR), "the owner of a token in an unrestricted class can edit it")
		return
	}
	verifCover("edited")
	verifAssert(who.owner, "only the current owner can edit a token")
	verifAssert(!e.updR, "tokens of an update-restricted class never change their metadata (edit)")
	keep := func(old, req string) string {
		if req == types.DoNotModify {
			return old
		}
		return req
	}
	verifAssert(after.GetName() == keep(before.GetName(), msg.Name) && after.GetURI() == keep(before.GetURI(), msg.URI) && after.GetData() == keep(before.GetData(), msg.Data) && after.GetURIHash() == keep(before.GetURIHash(), msg.UriHash),
		"an edit stores exactly the requested fields; the do-not-modify sentinel keeps a field")
}

func VerifC14_Transfer() {
	verifExpect("transferred", "refused")
	e := newNfEnv()
	actor, who := e.actor("actor")
	pickT := func(n, v string) string { return []string{types.DoNotModify, v}[verifChoice(n, 2)] }
	msg := &types.MsgTransferNFT{Id: nfToken, DenomId: nfClass, Name: pickT("rename", "renamed"), URI: pickT("newURI", "uri-2"), UriHash: pickT("newURIHash", "uh-2"), Data: pickT("newData", `{"k":"new"}`),
		Sender: actor.String(), Recipient: e.stranger.String()}
	verifAssume(msg.ValidateBasic() == nil)
	before, _ := e.k.GetNFT(e.ctx, nfClass, nfToken)
	err, _ := e.verifDeliver(func() error { _, err := e.k.TransferNFT(e.ctx, msg); return err })
	after, gerr := e.k.GetNFT(e.ctx, nfClass, nfToken)
	verifAssert(gerr == nil && after.GetID() == nfToken, "transfer never changes the id")
	e.assertCounts()
	if err != nil {
		verifCover("refused")
		verifAssert(after.GetOwner().Equals(e.owner) && after.GetName() == before.GetName() && after.GetURI() == before.GetURI() && after.GetURIHash() == before.GetURIHash() && after.GetData() == before.GetData(), "a refused transfer changes nothing")
		changes := msg.Name != types.DoNotModify || msg.URI != types.DoNotModify || msg.UriHash != types.DoNotModify || msg.Data != types.DoNotModify
		verifAssert(!(who.owner && !(e.updR && changes)), "the owner's transfer is refused only for a change of metadata in an update-restricted class")
		return
	}
	verifCover("transferred")
	verifAssert(who.owner, "only the current owner can transfer a token")
	verifAssert(after.GetOwner().Equals(e.stranger), "the token has exactly one owner: the recipient")
	same := after.GetName() == before.GetName() && after.GetURI() == before.GetURI() && after.GetURIHash() == before.GetURIHash() && after.GetData() == before.GetData()
	verifAssert(!e.updR || same, "tokens of an update-restricted class never change their metadata (transfer)")
	keepT := func(old, req string) string {
		if req == types.DoNotModify {
			return old
		}
		return req
	}
	verifAssert(after.GetName() == keepT(before.GetName(), msg.Name) && after.GetURI() == keepT(before.GetURI(), msg.URI) && after.GetURIHash() == keepT(before.GetURIHash(), msg.UriHash) && after.GetData() == keepT(before.GetData(), msg.Data),
		"a transfer with changes stores exactly the requested fields; the do-not-modify sentinel keeps a field")
}

func VerifC14_Burn() {
	verifExpect("burned", "refused")
	e := newNfEnv()
	actor, who := e.actor("actor")
	msg := &types.MsgBurnNFT{Id: nfToken, DenomId: nfClass, Sender: actor.String()}
	verifAssume(msg.ValidateBasic() == nil)
	err, _ := e.verifDeliver(func() error { _, err := e.k.BurnNFT(e.ctx, msg); return err })
	e.assertCounts()
	if err != nil {
		verifCover("refused")
		verifAssert(e.k.HasNFT(e.ctx, nfClass, nfToken) && e.ownerOf(nfToken).Equals(e.owner), "a refused burn changes nothing")
		return
	}
	verifCover("burned")
	verifAssert(who.owner, "only the current owner can burn a token")
	verifAssert(!e.k.HasNFT(e.ctx, nfClass, nfToken), "a burned token is gone")
}

func VerifC14_TransferClass() {
	verifExpect("handed-over", "refused")
	e := newNfEnv()
	actor, who := e.actor("actor")
	msg := &types.MsgTransferDenom{Id: nfClass, Sender: actor.String(), Recipient: e.stranger.String()}
	verifAssume(msg.ValidateBasic() == nil)
	err, _ := e.verifDeliver(func() error { _, err := e.k.TransferDenom(e.ctx, msg); return err })
	d, gerr := e.k.GetDenomInfo(e.ctx, nfClass)
	verifAssert(gerr == nil && d.Id == nfClass && d.MintRestricted == e.mintR && d.UpdateRestricted == e.updR, "class id and restriction flags never change")
	e.assertCounts()
	if err != nil {
		verifCover("refused")
		verifAssert(d.Creator == e.creator.String(), "a refused handover leaves the creator")
		return
	}
	verifCover("handed-over")
	verifAssert(who.creator, "a class changes hands only by its current creator")
	verifAssert(d.Creator == e.stranger.String(), "new creator recorded")
}
