package keeper

import (
	"cosmossdk.io/x/nft"
	nftkeeper "cosmossdk.io/x/nft/keeper"

	"mods.irisnet.org/modules/nft/types"
)

// C12 nft: a class with free restriction flags and 1..2 tokens (optionally one transferred / edited),
// built through the real message handlers over the real x/nft keeper, exports to a genesis that validates,
// imports without panic into a fresh store, answers the class / token / owner / supply queries
// identically, and exports again to the same genesis.
func VerifC12_NFT() {
	verifExpect("roundtrip")
	e := newNfEnv() // class (creator, symbolic mint/update restriction flags) + one token owned by e.owner
	if verifChoice("secondToken", 2) == 1 {
		_, err := e.k.MintNFT(e.ctx, &types.MsgMintNFT{Id: "kitty2", DenomId: nfClass, Name: "n2", URI: "uri2", UriHash: "uh2", Data: `{"k":"v"}`, Sender: e.creator.String(), Recipient: e.stranger.String()})
		verifAssume(err == nil)
	}
	if verifChoice("transfer", 2) == 1 {
		_, err := e.k.TransferNFT(e.ctx, &types.MsgTransferNFT{Id: nfToken, DenomId: nfClass, Name: types.DoNotModify, URI: types.DoNotModify, UriHash: types.DoNotModify, Data: types.DoNotModify, Sender: e.owner.String(), Recipient: e.stranger.String()})
		verifAssume(err == nil)
	}
	g := e.k.ExportGenesis(e.ctx)
	verifAssert(types.ValidateGenesis(*g) == nil, "the exported genesis passes the module's own validation")
	e2 := &nfEnv{vEnv: newVEnv(types.StoreKey, 10)}
	e2.bank.modules[nft.ModuleName] = nil
	ss := vStoreService{e2.key}
	k2 := Keeper{storeService: ss, cdc: e2.cdc, nk: nftkeeper.NewKeeper(ss, e2.cdc, nfAccount{e2.acc}, e2.bank)}
	panicked, what := verifCatch(func() { k2.InitGenesis(e2.ctx, *g) })
	if panicked {
		verifPrint(what)
	}
	verifAssert(!panicked, "the exported genesis imports without panic")
	verifCover("roundtrip")
	d1, err1 := e.k.GetDenomInfo(e.ctx, nfClass)
	d2, err2 := k2.GetDenomInfo(e2.ctx, nfClass)
	verifAssert(err1 == nil && err2 == nil && verifDeepEqual(*d1, *d2), "the class (creator, restriction flags, metadata) answers identically after re-import")
	for _, id := range []string{nfToken, "kitty2"} {
		t1, e1 := e.k.GetNFT(e.ctx, nfClass, id)
		t2, e2b := k2.GetNFT(e2.ctx, nfClass, id)
		verifAssert((e1 == nil) == (e2b == nil), "the same tokens exist after re-import")
		if e1 == nil && e2b == nil {
			verifAssert(t1.GetOwner().Equals(t2.GetOwner()) && t1.GetName() == t2.GetName() && t1.GetURI() == t2.GetURI() && t1.GetData() == t2.GetData() && t1.GetURIHash() == t2.GetURIHash(), "every token answers identically after re-import")
		}
	}
	verifAssert(e.k.nk.GetTotalSupply(e.ctx, nfClass) == k2.nk.GetTotalSupply(e2.ctx, nfClass), "the class supply survives re-import")
	g2 := k2.ExportGenesis(e2.ctx)
	verifAssert(verifDeepEqual(*g, *g2), "a second export equals the first")
}
