package keeper

import (
	"math/big"

	sdkmath "cosmossdk.io/math"
	sdk "github.com/cosmos/cosmos-sdk/types"

	"mods.irisnet.org/modules/coinswap/types"
)

// C11 off-chain disturbances, coinswap (verifOffChain, harness/rt): a pool is created by a first deposit; the
// side work creates a second pool (pool ids and share denominations come from a stored sequence) and swaps;
// afterwards the second pool is created, a swap, a further deposit and a withdrawal follow.
func VerifC11_CoinswapOffChainDisturbance() {
	amt := verifIntIn("amt", big.NewInt(1000), verifPow2(40))
	verifOffChain(func() vReplica {
		e := newCsEnv(false)
		big1 := sdkmath.NewIntFromBigInt(verifPow2(100))
		for _, a := range []sdk.AccAddress{e.sender, e.other} {
			e.bank.fund(a, csStd, big1)
			e.bank.fund(a, "btc", big1)
			e.bank.fund(a, "eth", big1)
		}
		add := func(ctx sdk.Context, who sdk.AccAddress, denom string, std sdkmath.Int, factor int64) error {
			_, err := e.k.AddLiquidity(ctx, &types.MsgAddLiquidity{MaxToken: sdk.Coin{Denom: denom, Amount: std.MulRaw(factor)}, ExactStandardAmt: std, MinLiquidity: sdkmath.OneInt(), Deadline: 100, Sender: who.String()})
			return err
		}
		swap := func(ctx sdk.Context, who sdk.AccAddress, in, out string) error {
			return e.k.Swap(ctx, &types.MsgSwapOrder{Input: types.Input{Address: who.String(), Coin: sdk.Coin{Denom: in, Amount: sdkmath.NewInt(500)}},
				Output: types.Output{Address: who.String(), Coin: sdk.Coin{Denom: out, Amount: sdkmath.OneInt()}}, Deadline: 100, IsBuyOrder: false})
		}
		var r vReplica
		r.env = e.vEnv
		r.first = func() {
			if err := add(e.ctx, e.sender, "btc", amt, 3); err != nil {
				verifFail("pool creation refused: " + err.Error())
			}
		}
		r.side = func(ctx sdk.Context) error {
			if err := add(ctx, e.other, "eth", amt, 3); err != nil {
				return err
			}
			return swap(ctx, e.other, csStd, "btc")
		}
		r.restart = func() { e.k = NewKeeper(e.cdc, e.key, e.bank, e.acc, csFeeCollector, vAddr(9).String()) }
		r.second = func(ctx sdk.Context) []bool {
			e0 := add(ctx, e.sender, "eth", amt, 3)
			e1 := swap(ctx, e.other, "btc", "eth")
			e2 := add(ctx, e.other, "btc", amt, 5)
			pool, _ := e.k.GetPool(ctx, types.GetPoolId("eth"))
			_, e3 := e.k.RemoveLiquidity(ctx, &types.MsgRemoveLiquidity{WithdrawLiquidity: sdk.Coin{Denom: pool.LptDenom, Amount: sdkmath.NewInt(10)}, MinToken: sdkmath.ZeroInt(), MinStandardAmt: sdkmath.ZeroInt(), Deadline: 100, Sender: e.sender.String()})
			return []bool{e0 != nil, e1 != nil, e2 != nil, e3 != nil}
		}
		return r
	})
}
