package keeper

import (
	"math/big"

	sdk "github.com/cosmos/cosmos-sdk/types"

	"mods.irisnet.org/modules/coinswap/types"
)

// O4 for AddLiquidity on an existing, non-empty pool: S'*T'*L^2 >= S*T*L'^2.
// Reserves and share supply are independent (donations allowed).
func VerifC01_AddLiquidity() {
	e := newCsEnv(true)
	one := big.NewInt(1)
	w := verifPow2(64)
	S := verifIntIn("S", one, w)
	T := verifIntIn("T", one, w)
	L := verifIntIn("L", one, w)
	pool := e.seedPool("btc", S, T, L)
	std := verifIntIn("std", one, w)
	maxTok := verifIntIn("maxTok", one, verifPow2(130))
	minLiq := verifIntIn("minLiq", one, w)
	e.bank.fund(e.sender, csStd, verifIntIn("balStd", big.NewInt(0), verifPow2(130)))
	e.bank.fund(e.sender, "btc", verifIntIn("balTok", big.NewInt(0), verifPow2(131)))
	msg := &types.MsgAddLiquidity{
		MaxToken:         sdk.Coin{Denom: "btc", Amount: maxTok},
		ExactStandardAmt: std,
		MinLiquidity:     minLiq,
		Deadline:         100,
		Sender:           e.sender.String(),
	}
	verifAssume(msg.ValidateBasic() == nil)
	S0, T0, L0 := e.reserves(pool)
	err, panicked := e.verifDeliver(func() error { _, err := e.k.AddLiquidity(e.ctx, msg); return err })
	S1, T1, L1 := e.reserves(pool)
	if err != nil {
		if panicked {
			verifCover("aborted-by-panic")
		} else {
			verifCover("rejected")
		}
		verifAssert(S1.Cmp(S0) == 0 && T1.Cmp(T0) == 0 && L1.Cmp(L0) == 0, "O5 failed op leaves pool unchanged")
		return
	}
	verifCover("accepted")
	lhs := verifMul(S1, T1, L0, L0)
	rhs := verifMul(S0, T0, L1, L1)
	verifAssert(lhs.Cmp(rhs) >= 0, "O4 share value never falls (add)")
	verifAssert(L1.Cmp(L0) >= 0 && S1.Cmp(S0) >= 0 && T1.Cmp(T0) >= 0, "add only adds")
}
