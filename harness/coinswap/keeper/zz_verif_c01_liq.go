package keeper

import (
	"math/big"

	sdk "github.com/cosmos/cosmos-sdk/types"

	"mods.irisnet.org/modules/coinswap/types"
)

// O4 for AddLiquidity on an existing, non-empty pool: S'*T'*L^2 >= S*T*L'^2.
// Reserves and share supply are independent (donations allowed).
func VerifC01_AddLiquidity() {
	verifExpect("accepted", "rejected")
	e := newCsEnv(true)
	one := big.NewInt(1)
	w := verifPow2(64)
	S := verifIntIn("S", one, w)
	T := verifIntIn("T", one, w)
	L := verifIntIn("L", one, w)
	pool := e.seedPool("btc", S, T, L)
	std := verifIntIn("std", one, w)
	maxTok := verifIntIn("maxTok", one, verifPow2(130))
	minLiq := verifIntIn("minLiq", one, w)
	e.bank.fund(e.sender, csStd, verifIntIn("balStd", big.NewInt(0), verifPow2(130)))
	e.bank.fund(e.sender, "btc", verifIntIn("balTok", big.NewInt(0), verifPow2(131)))
	msg := &types.MsgAddLiquidity{
		MaxToken:         sdk.Coin{Denom: "btc", Amount: maxTok},
		ExactStandardAmt: std,
		MinLiquidity:     minLiq,
		Deadline:         100,
		Sender:           e.sender.String(),
	}
	verifAssume(msg.ValidateBasic() == nil)
	S0, T0, L0 := e.reserves(pool)
	err, panicked := e.verifDeliver(func() error { _, err := e.k.AddLiquidity(e.ctx, msg); return err })
	S1, T1, L1 := e.reserves(pool)
	if err != nil {
		if panicked {
			verifCover("aborted-by-panic")
		} else {
			verifCover("rejected")
		}
		verifAssert(S1.Cmp(S0) == 0 && T1.Cmp(T0) == 0 && L1.Cmp(L0) == 0, "O5 failed op leaves pool unchanged")
		return
	}
	verifCover("accepted")
	lhs := verifMul(S1, T1, L0, L0)
	rhs := verifMul(S0, T0, L1, L1)
	verifAssert(lhs.Cmp(rhs) >= 0, "O4 share value never falls (add)")
	verifAssert(L1.Cmp(L0) >= 0 && S1.Cmp(S0) >= 0 && T1.Cmp(T0) >= 0, "add only adds")
}

// O4 for RemoveLiquidity: proportional withdrawal rounds in the pool's favour.
func VerifC01_RemoveLiquidity() {
	verifExpect("accepted", "rejected")
	e := newCsEnv(true)
	one := big.NewInt(1)
	w := verifPow2(64)
	if verifTier() == 1 {
		w = verifPow2(100)
	}
	S := verifIntIn("S", one, w)
	T := verifIntIn("T", one, w)
	L := verifIntIn("L", one, w)
	pool := e.seedPool("btc", S, T, L)
	burn := verifIntIn("burn", one, w)
	// the sender owns part of the share supply
	own := verifIntIn("own", big.NewInt(0), w)
	verifAssume(own.BigInt().Cmp(L.BigInt()) <= 0)
	e.bank.set(e.holder, pool.LptDenom, L.Sub(own))
	e.bank.set(e.sender, pool.LptDenom, own)
	msg := &types.MsgRemoveLiquidity{
		WithdrawLiquidity: sdk.Coin{Denom: pool.LptDenom, Amount: burn},
		MinToken:          verifIntIn("minTok", big.NewInt(0), w),
		MinStandardAmt:    verifIntIn("minStd", big.NewInt(0), w),
		Deadline:          100,
		Sender:            e.sender.String(),
	}
	verifAssume(msg.ValidateBasic() == nil)
	S0, T0, L0 := e.reserves(pool)
	err, panicked := e.verifDeliver(func() error { _, err := e.k.RemoveLiquidity(e.ctx, msg); return err })
	S1, T1, L1 := e.reserves(pool)
	if err != nil {
		if panicked {
			verifCover("aborted-by-panic")
		} else {
			verifCover("rejected")
		}
		verifAssert(S1.Cmp(S0) == 0 && T1.Cmp(T0) == 0 && L1.Cmp(L0) == 0, "O5 failed op leaves pool unchanged")
		return
	}
	verifCover("accepted")
	verifAssert(verifMul(S1, T1, L0, L0).Cmp(verifMul(S0, T0, L1, L1)) >= 0, "O4 share value never falls (remove)")
	// each reserve separately: S1/L1 >= S0/L0
	verifAssert(verifMul(S1, L0).Cmp(verifMul(S0, L1)) >= 0, "standard reserve per share never falls (remove)")
	verifAssert(verifMul(T1, L0).Cmp(verifMul(T0, L1)) >= 0, "token reserve per share never falls (remove)")
	verifAssert(verifSub(L0, L1).Cmp(burn.BigInt()) == 0, "exactly the requested shares are burned")
}

// O4 for AddUnilateralLiquidity (Int.Sqrt through the r^2<=x<(r+1)^2 axiom).
func VerifC01_AddUnilateral() {
	verifExpect("accepted", "rejected")
	e := newCsEnv(true)
	one := big.NewInt(1)
	w := verifPow2(40)
	if verifTier() == 1 {
		w = verifPow2(64)
	}
	S := verifIntIn("S", one, w)
	T := verifIntIn("T", one, w)
	L := verifIntIn("L", one, w)
	pool := e.seedPool("btc", S, T, L)
	e.donate(pool, "eth")
	denom := csSide3()
	amt := verifIntIn("amt", one, w)
	e.bank.fund(e.sender, denom, verifIntIn("bal", big.NewInt(0), verifPow2(66)))
	msg := &types.MsgAddUnilateralLiquidity{
		CounterpartyDenom: "btc",
		ExactToken:        sdk.Coin{Denom: denom, Amount: amt},
		MinLiquidity:      verifIntIn("minLiq", big.NewInt(0), w),
		Deadline:          100,
		Sender:            e.sender.String(),
	}
	verifAssume(msg.ValidateBasic() == nil)
	S0, T0, L0 := e.reserves(pool)
	err, panicked := e.verifDeliver(func() error { _, err := e.k.AddUnilateralLiquidity(e.ctx, msg); return err })
	S1, T1, L1 := e.reserves(pool)
	if err != nil {
		if panicked {
			verifCover("aborted-by-panic")
		} else {
			verifCover("rejected")
		}
		verifAssert(S1.Cmp(S0) == 0 && T1.Cmp(T0) == 0 && L1.Cmp(L0) == 0, "O5 failed op leaves pool unchanged")
		return
	}
	verifCover("accepted")
	verifAssert(verifMul(S1, T1, L0, L0).Cmp(verifMul(S0, T0, L1, L1)) >= 0, "O4 share value never falls (add unilateral)")
}

// O4 for RemoveUnilateralLiquidity.
func VerifC01_RemoveUnilateral() {
	verifExpect("accepted", "rejected")
	e := newCsEnv(true)
	one := big.NewInt(1)
	w := verifPow2(40)
	if verifTier() == 1 {
		w = verifPow2(64)
	}
	S := verifIntIn("S", one, w)
	T := verifIntIn("T", one, w)
	L := verifIntIn("L", one, w)
	pool := e.seedPool("btc", S, T, L)
	e.donate(pool, "eth")
	denom := csSide3()
	burn := verifIntIn("burn", one, w)
	own := verifIntIn("own", big.NewInt(0), w)
	verifAssume(own.BigInt().Cmp(L.BigInt()) <= 0)
	e.bank.set(e.holder, pool.LptDenom, L.Sub(own))
	e.bank.set(e.sender, pool.LptDenom, own)
	msg := &types.MsgRemoveUnilateralLiquidity{
		CounterpartyDenom: "btc",
		MinToken:          sdk.Coin{Denom: denom, Amount: verifIntIn("minTok", big.NewInt(0), w)},
		ExactLiquidity:    burn,
		Deadline:          100,
		Sender:            e.sender.String(),
	}
	verifAssume(msg.ValidateBasic() == nil)
	S0, T0, L0 := e.reserves(pool)
	err, panicked := e.verifDeliver(func() error { _, err := e.k.RemoveUnilateralLiquidity(e.ctx, msg); return err })
	S1, T1, L1 := e.reserves(pool)
	if err != nil {
		if panicked {
			verifCover("aborted-by-panic")
		} else {
			verifCover("rejected")
		}
		verifAssert(S1.Cmp(S0) == 0 && T1.Cmp(T0) == 0 && L1.Cmp(L0) == 0, "O5 failed op leaves pool unchanged")
		return
	}
	verifCover("accepted")
	verifAssert(verifMul(S1, T1, L0, L0).Cmp(verifMul(S0, T0, L1, L1)) >= 0, "O4 share value never falls (remove unilateral)")
}

// O1 + O4 for single-pool swaps through Keeper.Swap (both order kinds, both directions),
// measured on the balances actually moved.
func VerifC01_SwapKeeper() {
	verifExpect("accepted", "rejected")
	e := newCsEnv(true)
	one := big.NewInt(1)
	w := verifPow2(64)
	if verifTier() == 1 {
		w = verifPow2(100)
	}
	S := verifIntIn("S", one, w)
	T := verifIntIn("T", one, w)
	L := verifIntIn("L", one, w)
	pool := e.seedPool("btc", S, T, L)
	inDenom, outDenom := csStd, "btc"
	if verifChoice("dir", 2) == 1 {
		inDenom, outDenom = "btc", csStd
	}
	buy := verifChoice("buy", 2) == 1
	inAmt := verifIntIn("in", one, w)
	outAmt := verifIntIn("out", one, w)
	e.bank.fund(e.sender, inDenom, verifIntIn("bal", big.NewInt(0), verifPow2(102)))
	msg := &types.MsgSwapOrder{
		Input:      types.Input{Address: e.sender.String(), Coin: sdk.Coin{Denom: inDenom, Amount: inAmt}},
		Output:     types.Output{Address: e.sender.String(), Coin: sdk.Coin{Denom: outDenom, Amount: outAmt}},
		Deadline:   100,
		IsBuyOrder: buy,
	}
	verifAssume(msg.ValidateBasic() == nil)
	S0, T0, L0 := e.reserves(pool)
	fee := e.k.GetParams(e.ctx).Fee.BigInt()
	err, panicked := e.verifDeliver(func() error { return e.k.Swap(e.ctx, msg) })
	S1, T1, L1 := e.reserves(pool)
	if err != nil {
		if panicked {
			verifCover("aborted-by-panic")
		} else {
			verifCover("rejected")
		}
		verifAssert(S1.Cmp(S0) == 0 && T1.Cmp(T0) == 0 && L1.Cmp(L0) == 0, "O5 failed op leaves pool unchanged")
		return
	}
	verifCover("accepted")
	verifAssert(L1.Cmp(L0) == 0, "swap does not change share supply")
	verifAssert(verifMul(S1, T1).Cmp(verifMul(S0, T0)) >= 0, "O4 constant product never falls (swap)")
	rin0, rout0, rin1, rout1 := S0, T0, S1, T1
	if inDenom == "btc" {
		rin0, rout0, rin1, rout1 = T0, S0, T1, S1
	}
	paid, received := verifSub(rin1, rin0), verifSub(rout0, rout1)
	e18 := verifPow10(18)
	n := verifSub(e18, fee)
	lhs := verifMul(verifAdd(verifMul(rin0, e18), verifMul(n, paid)), verifSub(rout0, received))
	verifAssert(lhs.Cmp(verifMul(rin0, rout0, e18)) >= 0, "O1 fee-inclusive constant product on moved balances")
	if buy {
		verifAssert(received.Cmp(outAmt.BigInt()) == 0, "buy order delivers exactly the requested output")
		verifAssert(paid.Cmp(inAmt.BigInt()) <= 0, "buy order pays at most the stated maximum")
	} else {
		verifAssert(paid.Cmp(inAmt.BigInt()) == 0, "sell order takes exactly the stated input")
		verifAssert(received.Cmp(outAmt.BigInt()) >= 0, "sell order delivers at least the stated minimum")
	}
}
