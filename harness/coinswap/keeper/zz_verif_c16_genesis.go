package keeper

import (
	sdk "github.com/cosmos/cosmos-sdk/types"

	"mods.irisnet.org/modules/coinswap/types"
)

// C16 by genesis (coinswap): a default genesis with arbitrary parameters.
func VerifC16_Genesis() {
	verifExpect("imported", "refused")
	e := newCsEnv(false)
	g := types.DefaultGenesisState()
	g.Params.Fee, g.Params.TaxRate, g.Params.UnilateralLiquidityFee = verifDecAny("fee"), verifDecAny("taxRate"), verifDecAny("ufee")
	g.Params.PoolCreationFee = sdk.Coin{Denom: verifDenomAny("feeDenom", g.Params.PoolCreationFee.Denom), Amount: verifIntAny("feeAmount")}
	var vErr error
	vPanicked, _ := verifCatch(func() { vErr = g.Params.Validate() })
	before := e.k.GetParams(e.ctx)
	panicked, _ := verifCatch(func() { e.k.InitGenesis(e.ctx, *g) })
	if panicked {
		verifCover("refused")
		verifAssert(verifDeepEqual(e.k.GetParams(e.ctx), before) || (!vPanicked && vErr == nil), "a refused genesis leaves no rejected parameter set behind")
		return
	}
	verifCover("imported")
	verifAssert(!vPanicked && vErr == nil, "a parameter set rejected by validation is never stored by genesis")
	verifAssert(verifDeepEqual(e.k.GetParams(e.ctx), g.Params), "the imported parameters are the ones in force")
}
