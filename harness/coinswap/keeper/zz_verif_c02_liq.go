package keeper

import (
	"math/big"
	"time"

	sdkmath "cosmossdk.io/math"
	sdk "github.com/cosmos/cosmos-sdk/types"

	"mods.irisnet.org/modules/coinswap/types"
)

// C02, liquidity messages through the message server with the full balance sheet:
// at most the stated maxima are taken, at least the stated minima returned, shares are minted only
// against deposits and burned only against withdrawals, no other supply changes (except the burned
// part of the pool-creation fee), nobody else is touched, the deadline is honoured.
//
//	op 0 add to an existing funded pool   op 1 add to a pool that does not exist yet (creation fee)
//	op 2 remove                            op 3 add unilateral          op 4 remove unilateral
func verifC02Liquidity(op int) {
	verifExpect("accepted", "rejected", "deadline-passed")
	e := newCsEnv(true)
	one, zero := big.NewInt(1), big.NewInt(0)
	w := verifAmt(64)
	var pool types.Pool
	lpt := types.GetLptDenom(e.k.getSequence(e.ctx))
	if op != 1 {
		if op == 0 && verifChoice("drained", 2) == 1 {
			// every provider has withdrawn: the pool record exists, no share is outstanding, and the escrow
			// account holds nothing - or whatever somebody sent to it afterwards
			pool = e.seedPool("btc", verifIntIn("S", zero, w), verifIntIn("T", zero, w), sdkmath.ZeroInt())
		} else {
			pool = e.seedPool("btc", verifIntIn("S", one, w), verifIntIn("T", one, w), verifIntIn("L", one, w))
		}
		lpt = pool.LptDenom
	}
	poolAddr := types.GetReservePoolAddr(lpt)
	if op != 1 {
		e.donate(pool, "eth") // a third denomination sitting in the pool's escrow account
	}
	for _, d := range []string{csStd, "btc", "eth"} {
		e.bank.fund(e.sender, d, verifIntIn("balS_"+d, zero, verifPow2(131)))
		e.bank.fund(e.other, d, verifIntIn("balO_"+d, zero, verifAmt(66)))
	}
	if op == 2 || op == 4 {
		// part of the share supply belongs to the sender
		own := verifIntIn("own", zero, w)
		verifAssume(own.BigInt().Cmp(e.bank.get(e.holder, lpt).BigInt()) <= 0)
		e.bank.set(e.holder, lpt, e.bank.get(e.holder, lpt).Sub(own))
		e.bank.set(e.sender, lpt, own)
	}
	now, deadline := verifInt64("now"), verifInt64("deadline")
	verifAssume(now >= 0 && now < 1<<40 && deadline < 1<<40)
	// block times carry nanoseconds: the block may lie inside the deadline's second, just after it
	nanos := int64(verifChoice("halfSecondLater", 2)) * 500000000
	ctx := e.ctx.WithBlockTime(time.Unix(now, nanos))
	srv := NewMsgServerImpl(e.k)
	accts := map[string]sdk.AccAddress{"sender": e.sender, "other": e.other, "pool": poolAddr,
		"module": vModuleAddr(types.ModuleName), "feecol": vModuleAddr(csFeeCollector), "holder": e.holder}
	denoms := []string{csStd, "btc", "eth", lpt}
	params := e.k.GetParams(e.ctx)
	var call func() error
	foreign := ""
	var a1, a2, a3 *big.Int // the three user-stated figures of the message
	switch op {
	case 0, 1:
		msg := &types.MsgAddLiquidity{MaxToken: sdk.Coin{Denom: "btc", Amount: verifIntIn("maxTok", one, verifPow2(130))},
			ExactStandardAmt: verifIntIn("std", one, w), MinLiquidity: verifIntIn("minLiq", one, w), Deadline: deadline, Sender: e.sender.String()}
		verifAssume(msg.ValidateBasic() == nil)
		a1, a2, a3 = msg.MaxToken.Amount.BigInt(), msg.ExactStandardAmt.BigInt(), msg.MinLiquidity.BigInt()
		call = func() error { _, err := srv.AddLiquidity(ctx, msg); return err }
	case 2:
		// the coin offered for withdrawal: the pool's share token - or a coin of an unrelated denomination
		// whose name merely ends in the pool's sequence number ("fake-1" against "lpt-1")
		wdenom := lpt
		if verifChoice("foreignVoucher", 2) == 1 {
			wdenom = "fake" + lpt[len("lpt"):]
			e.bank.fund(e.sender, wdenom, verifIntIn("ownForeign", zero, w))
			e.bank.fund(e.other, wdenom, verifIntIn("othersForeign", zero, w))
			foreign = wdenom
		}
		msg := &types.MsgRemoveLiquidity{WithdrawLiquidity: sdk.Coin{Denom: wdenom, Amount: verifIntIn("burn", one, w)},
			MinToken: verifIntIn("minTok", zero, w), MinStandardAmt: verifIntIn("minStd", zero, w), Deadline: deadline, Sender: e.sender.String()}
		verifAssume(msg.ValidateBasic() == nil)
		a1, a2, a3 = msg.WithdrawLiquidity.Amount.BigInt(), msg.MinToken.BigInt(), msg.MinStandardAmt.BigInt()
		call = func() error { _, err := srv.RemoveLiquidity(ctx, msg); return err }
	case 3:
		msg := &types.MsgAddUnilateralLiquidity{CounterpartyDenom: "btc", ExactToken: sdk.Coin{Denom: verifC02Side(), Amount: verifIntIn("exact", one, w)},
			MinLiquidity: verifIntIn("minLiq", one, w), Deadline: deadline, Sender: e.sender.String()}
		verifAssume(msg.ValidateBasic() == nil)
		a1, a2, a3 = msg.ExactToken.Amount.BigInt(), msg.MinLiquidity.BigInt(), zero
		call = func() error { _, err := srv.AddUnilateralLiquidity(ctx, msg); return err }
		denoms = append(denoms, "side:"+msg.ExactToken.Denom)
	case 4:
		msg := &types.MsgRemoveUnilateralLiquidity{CounterpartyDenom: "btc", MinToken: sdk.Coin{Denom: verifC02Side(), Amount: verifIntIn("minTok", one, w)},
			ExactLiquidity: verifIntIn("burn", one, w), Deadline: deadline, Sender: e.sender.String()}
		verifAssume(msg.ValidateBasic() == nil)
		a1, a2, a3 = msg.ExactLiquidity.BigInt(), msg.MinToken.Amount.BigInt(), zero
		call = func() error { _, err := srv.RemoveUnilateralLiquidity(ctx, msg); return err }
		denoms = append(denoms, "side:"+msg.MinToken.Denom)
	}
	side := ""
	if n := len(denoms); n == 5 {
		side = denoms[4][5:]
		denoms = denoms[:4]
	}
	if foreign != "" {
		denoms = append(denoms, foreign)
	}
	before := e.sheet(accts, denoms)
	err, _ := e.verifDeliver(call)
	after := e.sheet(accts, denoms)
	d := func(k string) *big.Int { return csDelta(before, after, k) }
	neg := func(x *big.Int) *big.Int { return new(big.Int).Neg(x) }
	if now > deadline || (now == deadline && nanos > 0) {
		verifCover("deadline-passed")
		verifAssert(err != nil, "liquidity message after its deadline is refused")
	}
	if err != nil {
		verifCover("rejected")
		for k := range before {
			verifAssert(d(k).Sign() == 0, "failed liquidity message moves nothing")
		}
		if op == 1 {
			// liveness at the boundaries: the first deposit into a new pool is refused only when its deadline has
			// passed, when the shares it mints (the standard amount) are fewer than the stated minimum, or when the
			// sender cannot pay the deposit plus the pool-creation fee
			late := now > deadline || (now == deadline && nanos > 0)
			needStd := new(big.Int).Set(a2)
			if params.PoolCreationFee.Denom == csStd {
				needStd = verifAdd(needStd, params.PoolCreationFee.Amount.BigInt())
			}
			poor := before["sender/"+csStd].Cmp(needStd) < 0 || before["sender/btc"].Cmp(a1) < 0
			verifAssert(late || a3.Cmp(a2) > 0 || poor, "a first deposit that meets its own minimum, in time, from a sender who can pay, creates the pool")
		}
		return
	}
	verifCover("accepted")
	verifAssert(foreign == "", "only the pool's own share token withdraws liquidity")
	// nobody else is touched
	for _, dn := range denoms {
		verifAssert(d("other/"+dn).Sign() == 0 && d("holder/"+dn).Sign() == 0 && d("module/"+dn).Sign() == 0, "bystander accounts untouched")
		if dn != csStd || op != 1 {
			verifAssert(d("feecol/"+dn).Sign() == 0, "fee collector untouched")
		}
	}
	verifAssert(d("supply/btc").Sign() == 0 && d("supply/eth").Sign() == 0, "token supply unchanged")
	verifAssert(d("sender/eth").Sign() == 0 && d("pool/eth").Sign() == 0, "a denomination outside the pool never moves")
	minted := d("supply/" + lpt)
	verifAssert(d("sender/"+lpt).Cmp(minted) == 0 && d("pool/"+lpt).Sign() == 0, "shares are minted to / burned from the sender only")
	switch op {
	case 0, 1:
		paidTok, paidStd := neg(d("sender/btc")), neg(d("sender/"+csStd))
		fee := big.NewInt(0)
		if op == 1 {
			fee = params.PoolCreationFee.Amount.BigInt()
			tax := d("feecol/" + csStd)
			burned := neg(d("supply/" + csStd))
			verifAssert(verifAdd(tax, burned).Cmp(fee) == 0 && tax.Sign() >= 0 && burned.Sign() >= 0, "creation fee = tax to the fee collector + burned")
			// tax = floor(fee * taxRate)
			e18 := verifPow10(18)
			rate := params.TaxRate.BigInt()
			verifAssert(verifMul(tax, e18).Cmp(verifMul(fee, rate)) <= 0 && verifMul(verifAdd(tax, one), e18).Cmp(verifMul(fee, rate)) > 0, "tax = floor(fee*taxRate)")
		} else {
			verifAssert(d("supply/"+csStd).Sign() == 0, "standard supply unchanged")
		}
		verifAssert(paidTok.Cmp(a1) <= 0, "add takes at most the stated maximum of the token")
		verifAssert(paidTok.Sign() > 0, "add takes some token")
		verifAssert(verifSub(paidStd, fee).Cmp(a2) == 0, "add takes exactly the stated standard amount")
		verifAssert(minted.Cmp(a3) >= 0, "add mints at least the stated minimum of shares")
		verifAssert(d("pool/btc").Cmp(paidTok) == 0 && d("pool/"+csStd).Cmp(a2) == 0, "pool receives exactly what the sender deposited")
	case 2:
		gotTok, gotStd := d("sender/btc"), d("sender/"+csStd)
		verifAssert(neg(minted).Cmp(a1) == 0, "remove burns exactly the stated shares")
		verifAssert(gotTok.Cmp(a2) >= 0, "remove returns at least the stated minimum of the token")
		verifAssert(gotStd.Cmp(a3) >= 0, "remove returns at least the stated minimum of the standard coin")
		verifAssert(neg(d("pool/btc")).Cmp(gotTok) == 0 && neg(d("pool/"+csStd)).Cmp(gotStd) == 0, "pool pays exactly what the sender got")
		verifAssert(d("supply/"+csStd).Sign() == 0, "standard supply unchanged")
	case 3:
		otherSide := csStd
		if side == csStd {
			otherSide = "btc"
		}
		verifAssert(neg(d("sender/"+side)).Cmp(a1) == 0 && d("pool/"+side).Cmp(a1) == 0, "unilateral add takes exactly the stated amount into the pool")
		verifAssert(d("sender/"+otherSide).Sign() == 0 && d("pool/"+otherSide).Sign() == 0, "unilateral add does not touch the other side")
		verifAssert(minted.Cmp(a2) >= 0, "unilateral add mints at least the stated minimum of shares")
		verifAssert(d("supply/"+csStd).Sign() == 0, "standard supply unchanged")
	case 4:
		otherSide := csStd
		if side == csStd {
			otherSide = "btc"
		}
		got := d("sender/" + side)
		verifAssert(neg(minted).Cmp(a1) == 0, "unilateral remove burns exactly the stated shares")
		verifAssert(got.Cmp(a2) >= 0, "unilateral remove returns at least the stated minimum")
		verifAssert(neg(d("pool/"+side)).Cmp(got) == 0, "pool pays exactly what the sender got")
		verifAssert(d("sender/"+otherSide).Sign() == 0 && d("pool/"+otherSide).Sign() == 0, "unilateral remove does not touch the other side")
		verifAssert(d("supply/"+csStd).Sign() == 0, "standard supply unchanged")
	}
}

func verifC02Side() string { return csSide3() }

func VerifC02_AddLiquidity()        { verifC02Liquidity(0) }
func VerifC02_AddLiquidityNewPool() { verifC02Liquidity(1) }
func VerifC02_RemoveLiquidity()     { verifC02Liquidity(2) }
func VerifC02_AddUnilateral()       { verifC02Liquidity(3) }
func VerifC02_RemoveUnilateral()    { verifC02Liquidity(4) }
