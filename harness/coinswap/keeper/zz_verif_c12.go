package keeper

import (
	"math/big"

	sdk "github.com/cosmos/cosmos-sdk/types"

	"mods.irisnet.org/modules/coinswap/types"
)

// C12 coinswap: pools created through real AddLiquidity messages export to a genesis that validates,
// imports into a fresh store, yields an identical store and re-exports identically.
func VerifC12_Coinswap() {
	verifExpect("roundtrip")
	e := newCsEnv(true)
	one, w := big.NewInt(1), verifPow2(64)
	npools := verifChoice("pools", 4) // 0..3 pools
	// created in any order: export lists the pools by id, not by age
	denoms := [][]string{{"btc", "dai", "eth"}, {"btc", "eth", "dai"}, {"dai", "btc", "eth"}, {"dai", "eth", "btc"}, {"eth", "btc", "dai"}, {"eth", "dai", "btc"}}[verifChoice("creationOrder", 6)][:npools]
	for i, d := range denoms {
		n := []string{"1", "2", "3"}[i]
		e.bank.fund(e.sender, csStd, verifIntIn("std"+n, one, w).Add(e.k.GetParams(e.ctx).PoolCreationFee.Amount))
		amt := verifIntIn("tok"+n, one, w)
		e.bank.fund(e.sender, d, amt)
		msg := &types.MsgAddLiquidity{MaxToken: sdk.Coin{Denom: d, Amount: amt}, ExactStandardAmt: e.bank.get(e.sender, csStd).Sub(e.k.GetParams(e.ctx).PoolCreationFee.Amount), MinLiquidity: sdk.Coin{}.Amount, Deadline: 100, Sender: e.sender.String()}
		msg.MinLiquidity = msg.ExactStandardAmt
		verifAssume(msg.ValidateBasic() == nil)
		err, _ := e.verifDeliver(func() error { _, err := e.k.AddLiquidity(e.ctx, msg); return err })
		verifAssume(err == nil)
	}
	g := e.k.ExportGenesis(e.ctx)
	verifAssert(types.ValidateGenesis(g) == nil, "the exported genesis passes the module's own validation")
	e2 := newCsEnv(false)
	e2.store().ents = nil
	panicked, what := verifCatch(func() { e2.k.InitGenesis(e2.ctx, g) })
	if panicked {
		verifPrint(what)
	}
	verifAssert(!panicked, "the exported genesis imports without panic")
	verifCover("roundtrip")
	g2 := e2.k.ExportGenesis(e2.ctx)
	verifAssert(verifDeepEqual(g, g2), "a second export equals the first")
	for _, d := range denoms {
		p1, ok1 := e.k.GetPool(e.ctx, types.GetPoolId(d))
		p2, ok2 := e2.k.GetPool(e2.ctx, types.GetPoolId(d))
		verifAssert(ok1 && ok2 && verifDeepEqual(p1, p2), "pool queries answer identically after re-import")
		q1, okq := e2.k.GetPoolByLptDenom(e2.ctx, p1.LptDenom)
		verifAssert(okq && q1.Id == p1.Id, "share-denom index survives re-import")
	}
}
