package keeper

import (
	"math/big"
)

// C01 O1/O2: exact-input price.  bought = GetInputPrice(sold, Rin, Rout, fee)
//
//	O1: (Rin*1e18 + n*sold) * (Rout - bought) >= Rin*Rout*1e18        (n = 1e18 - fee*1e18)
//	O2: bought+1 breaks O1 (maximality)
func VerifC01_InputPrice() {
	verifExpect("priced")
	two128 := verifPow2(128)
	one := big.NewInt(1)
	e18 := verifPow10(18)
	sold := verifIntIn("sold", one, two128)
	rin := verifIntIn("rin", one, two128)
	rout := verifIntIn("rout", one, two128)
	fee := verifDec("fee", one, verifSub(e18, one)) // fee in (0,1)
	var bought *big.Int
	panicked, _ := verifCatch(func() {
		bought = GetInputPrice(sold, rin, rout, fee).BigInt()
	})
	if panicked {
		verifCover("overflow-panic")
		return
	}
	verifCover("priced")
	n := verifSub(e18, fee.BigInt())
	lhsA := verifAdd(verifMul(rin.BigInt(), e18), verifMul(n, sold.BigInt()))
	rhs := verifMul(rin.BigInt(), rout.BigInt(), e18)
	verifAssert(bought.Sign() >= 0, "bought>=0")
	verifAssert(bought.Cmp(rout.BigInt()) < 0, "bought<reserve")
	verifAssert(verifMul(lhsA, verifSub(rout.BigInt(), bought)).Cmp(rhs) >= 0, "O1 fee-inclusive constant product")
	b1 := verifAdd(bought, one)
	verifAssert(verifMul(lhsA, verifSub(rout.BigInt(), b1)).Cmp(rhs) < 0, "O2 maximality")
}

// C01 O1/O3: exact-output price.  paid = GetOutputPrice(bought, Rin, Rout, fee), bought < Rout
func VerifC01_OutputPrice() {
	verifExpect("priced")
	two128 := verifPow2(128)
	one := big.NewInt(1)
	e18 := verifPow10(18)
	bought := verifIntIn("bought", one, two128)
	rin := verifIntIn("rin", one, two128)
	rout := verifIntIn("rout", one, two128)
	verifAssume(bought.BigInt().Cmp(rout.BigInt()) < 0) // enforced by calculateWithExactOutput
	fee := verifDec("fee", one, verifSub(e18, one))
	var paid *big.Int
	panicked, _ := verifCatch(func() {
		paid = GetOutputPrice(bought, rin, rout, fee).BigInt()
	})
	if panicked {
		verifCover("overflow-panic")
		return
	}
	verifCover("priced")
	n := verifSub(e18, fee.BigInt())
	rhs := verifMul(rin.BigInt(), rout.BigInt(), e18)
	rem := verifSub(rout.BigInt(), bought.BigInt())
	lhs := func(p *big.Int) *big.Int {
		return verifMul(verifAdd(verifMul(rin.BigInt(), e18), verifMul(n, p)), rem)
	}
	verifAssert(paid.Sign() > 0, "paid>0")
	verifAssert(lhs(paid).Cmp(rhs) >= 0, "O1 fee-inclusive constant product")
	// near-minimality: paid-2 would break the rule (paid <= min+1)
	verifAssert(lhs(verifSub(paid, big.NewInt(2))).Cmp(rhs) < 0, "O3 near-minimality")
}
