package keeper

import (
	sdkmath "cosmossdk.io/math"
	"math/big"
	"time"

	sdk "github.com/cosmos/cosmos-sdk/types"

	"mods.irisnet.org/modules/coinswap/types"
)

type csSheet map[string]*big.Int

func (e *csEnv) sheet(accts map[string]sdk.AccAddress, denoms []string) csSheet {
	s := csSheet{}
	for n, a := range accts {
		for _, d := range denoms {
			s[n+"/"+d] = e.bank.get(a, d).BigInt()
		}
	}
	for _, d := range denoms {
		s["supply/"+d] = e.bank.supplyOf(d).BigInt()
	}
	return s
}

func csDelta(a, b csSheet, k string) *big.Int { return verifSub(b[k], a[k]) }

// C02: one single-pool MsgSwapOrder through the message server, from arbitrary
// balances: only the traded coins move, between the right parties.
func VerifC02_SwapSingle() {
	verifExpect("accepted", "rejected", "deadline-passed")
	e := newCsEnv(true)
	one, zero := big.NewInt(1), big.NewInt(0)
	w := verifAmt(64)
	pool := e.seedPool("btc", verifIntIn("S", one, w), verifIntIn("T", one, w), verifIntIn("L", one, w))
	poolAddr := types.GetReservePoolAddr(pool.LptDenom)
	inDenom, outDenom := csStd, "btc"
	if verifChoice("dir", 2) == 1 {
		inDenom, outDenom = "btc", csStd
	}
	buy := verifChoice("buy", 2) == 1
	var recipient sdk.AccAddress
	recStr := ""
	switch verifChoice("recipient", 3) {
	case 0:
		recipient, recStr = e.sender, e.sender.String()
	case 1:
		recipient, recStr = e.other, e.other.String()
	case 2:
		recipient, recStr = e.sender, "" // empty output address means the sender
	}
	inAmt, outAmt := verifIntIn("in", one, w), verifIntIn("out", one, w)
	for _, d := range []string{csStd, "btc"} {
		e.bank.fund(e.sender, d, verifIntIn("balS_"+d, zero, verifAmt(66)))
		e.bank.fund(e.other, d, verifIntIn("balO_"+d, zero, verifAmt(66)))
	}
	now, deadline := verifInt64("now"), verifInt64("deadline")
	verifAssume(now >= 0 && now < 1<<40 && deadline < 1<<40)
	// block times carry nanoseconds: the block may lie inside the deadline's second, just after it
	nanos := int64(verifChoice("halfSecondLater", 2)) * 500000000
	ctx := e.ctx.WithBlockTime(time.Unix(now, nanos))
	msg := &types.MsgSwapOrder{
		Input:      types.Input{Address: e.sender.String(), Coin: sdk.Coin{Denom: inDenom, Amount: inAmt}},
		Output:     types.Output{Address: recStr, Coin: sdk.Coin{Denom: outDenom, Amount: outAmt}},
		Deadline:   deadline,
		IsBuyOrder: buy,
	}
	verifAssume(msg.ValidateBasic() == nil)
	accts := map[string]sdk.AccAddress{"sender": e.sender, "other": e.other, "pool": poolAddr,
		"module": vModuleAddr(types.ModuleName), "feecol": vModuleAddr(csFeeCollector), "holder": e.holder}
	denoms := []string{csStd, "btc", pool.LptDenom}
	before := e.sheet(accts, denoms)
	err, _ := e.verifDeliver(func() error { _, err := NewMsgServerImpl(e.k).SwapCoin(ctx, msg); return err })
	after := e.sheet(accts, denoms)
	if now > deadline || (now == deadline && nanos > 0) {
		verifCover("deadline-passed")
		verifAssert(err != nil, "order after its deadline is refused")
	}
	if err != nil {
		verifCover("rejected")
		for k := range before {
			verifAssert(csDelta(before, after, k).Sign() == 0, "failed swap moves nothing")
		}
		return
	}
	verifCover("accepted")
	sold := new(big.Int).Neg(csDelta(before, after, "sender/"+inDenom))
	if recipient.Equals(e.sender) {
		bought := csDelta(before, after, "sender/"+outDenom)
		verifAssert(csDelta(before, after, "other/"+inDenom).Sign() == 0 && csDelta(before, after, "other/"+outDenom).Sign() == 0, "third party untouched")
		verifAssert(csDelta(before, after, "pool/"+inDenom).Cmp(sold) == 0, "pool receives exactly what the sender paid")
		verifAssert(new(big.Int).Neg(csDelta(before, after, "pool/"+outDenom)).Cmp(bought) == 0, "pool pays exactly what the recipient got")
		csBounds(buy, sold, bought, inAmt.BigInt(), outAmt.BigInt())
	} else {
		bought := csDelta(before, after, "other/"+outDenom)
		verifAssert(csDelta(before, after, "sender/"+outDenom).Sign() == 0, "sender receives nothing when a recipient is named")
		verifAssert(csDelta(before, after, "other/"+inDenom).Sign() == 0, "recipient pays nothing")
		verifAssert(csDelta(before, after, "pool/"+inDenom).Cmp(sold) == 0, "pool receives exactly what the sender paid")
		verifAssert(new(big.Int).Neg(csDelta(before, after, "pool/"+outDenom)).Cmp(bought) == 0, "pool pays exactly what the recipient got")
		csBounds(buy, sold, bought, inAmt.BigInt(), outAmt.BigInt())
	}
	for _, a := range []string{"module", "feecol", "holder"} {
		for _, d := range denoms {
			verifAssert(csDelta(before, after, a+"/"+d).Sign() == 0, "bystander accounts untouched")
		}
	}
	for _, d := range denoms {
		verifAssert(csDelta(before, after, "supply/"+d).Sign() == 0, "swap mints/burns nothing")
	}
	for _, a := range []string{"sender", "other", "pool"} {
		verifAssert(csDelta(before, after, a+"/"+pool.LptDenom).Sign() == 0, "swap moves no shares")
	}
}

func csBounds(buy bool, sold, bought, inAmt, outAmt *big.Int) {
	verifAssert(sold.Sign() > 0 && bought.Sign() >= 0, "coins flow in the right direction")
	if buy {
		verifAssert(bought.Cmp(outAmt) == 0, "buy order: exactly the requested amount")
		verifAssert(sold.Cmp(inAmt) <= 0, "buy order: at most the stated maximum")
	} else {
		verifAssert(sold.Cmp(inAmt) == 0, "sell order: exactly the stated input")
		verifAssert(bought.Cmp(outAmt) >= 0, "sell order: at least the stated minimum")
	}
}

// C02: double-hop order (neither side is the standard coin): the intermediate
// standard coin must net to zero for sender and recipient.
func VerifC02_SwapDouble() {
	csDoubleHop(false)
}

// The same order over pools of a few fixed SHAPES (balanced, strongly imbalanced either way, tiny) under
// the default fee, with the order amounts symbolic: divisions are then by constants, so the relations the
// fully symbolic harness leaves to nonlinear reasoning (e.g. re-pricing the rounded-up first hop) are
// decided quickly.  A finite case split over reserves, not a proof over all reserves.
func VerifC02_SwapDoubleShapes() { csDoubleHop(true) }

func csDoubleHop(shapes bool) {
	verifExpect("accepted", "rejected")
	one, zero := big.NewInt(1), big.NewInt(0)
	w := verifAmt(40)
	var e *csEnv
	var p1, p2 types.Pool
	if shapes {
		e = newCsEnv(false)
		shape := func(n string) (sdkmath.Int, sdkmath.Int) {
			switch verifChoice(n, 4) {
			case 1:
				return sdkmath.NewInt(1000000), sdkmath.NewInt(1000)
			case 2:
				return sdkmath.NewInt(1000), sdkmath.NewInt(1000000)
			case 3:
				return sdkmath.NewInt(7), sdkmath.NewInt(3)
			}
			return sdkmath.NewInt(1000), sdkmath.NewInt(1000)
		}
		s1, t1 := shape("shape1")
		s2, t2 := shape("shape2")
		p1 = e.seedPool("btc", s1, t1, sdkmath.NewInt(1000))
		p2 = e.seedPool("eth", s2, t2, sdkmath.NewInt(1000))
	} else {
		e = newCsEnv(true)
		p1 = e.seedPool("btc", verifIntIn("S1", one, w), verifIntIn("T1", one, w), verifIntIn("L1", one, w))
		p2 = e.seedPool("eth", verifIntIn("S2", one, w), verifIntIn("T2", one, w), verifIntIn("L2", one, w))
	}
	a1, a2 := types.GetReservePoolAddr(p1.LptDenom), types.GetReservePoolAddr(p2.LptDenom)
	buy := verifChoice("buy", 2) == 1
	sameRecipient := verifChoice("recipient", 2) == 0
	recipient := e.sender
	if !sameRecipient {
		recipient = e.other
	}
	inAmt, outAmt := verifIntIn("in", one, w), verifIntIn("out", one, w)
	for _, d := range []string{csStd, "btc", "eth"} {
		e.bank.fund(e.sender, d, verifIntIn("balS_"+d, zero, verifAmt(42)))
		e.bank.fund(e.other, d, verifIntIn("balO_"+d, zero, verifAmt(42)))
	}
	msg := &types.MsgSwapOrder{
		Input:      types.Input{Address: e.sender.String(), Coin: sdk.Coin{Denom: "btc", Amount: inAmt}},
		Output:     types.Output{Address: recipient.String(), Coin: sdk.Coin{Denom: "eth", Amount: outAmt}},
		Deadline:   100,
		IsBuyOrder: buy,
	}
	verifAssume(msg.ValidateBasic() == nil)
	accts := map[string]sdk.AccAddress{"sender": e.sender, "other": e.other, "pool1": a1, "pool2": a2,
		"module": vModuleAddr(types.ModuleName), "feecol": vModuleAddr(csFeeCollector)}
	denoms := []string{csStd, "btc", "eth"}
	before := e.sheet(accts, denoms)
	err, _ := e.verifDeliver(func() error { _, err := NewMsgServerImpl(e.k).SwapCoin(e.ctx, msg); return err })
	after := e.sheet(accts, denoms)
	if err != nil {
		verifCover("rejected")
		for k := range before {
			verifAssert(csDelta(before, after, k).Sign() == 0, "failed swap moves nothing")
		}
		return
	}
	verifCover("accepted")
	// the listed known finding: with a recipient other than the sender, the first hop pays the
	// recipient and the second hop debits the sender again.
	verifAssertKnown(csDelta(before, after, "sender/"+csStd).Sign() == 0, "double hop: sender's standard coin nets to zero", "C02-doublehop-recipient", !sameRecipient)
	verifAssertKnown(csDelta(before, after, "other/"+csStd).Sign() == 0, "double hop: recipient's standard coin nets to zero", "C02-doublehop-recipient", !sameRecipient)
	sold := new(big.Int).Neg(csDelta(before, after, "sender/btc"))
	rec := "sender"
	if !sameRecipient {
		rec = "other"
		verifAssert(csDelta(before, after, "sender/eth").Sign() == 0, "sender receives nothing when a recipient is named")
		verifAssert(csDelta(before, after, "other/btc").Sign() == 0, "recipient pays nothing")
	}
	bought := csDelta(before, after, rec+"/eth")
	csBounds(buy, sold, bought, inAmt.BigInt(), outAmt.BigInt())
	verifAssert(csDelta(before, after, "pool1/btc").Cmp(sold) == 0, "first pool receives what the sender paid")
	verifAssert(new(big.Int).Neg(csDelta(before, after, "pool2/eth")).Cmp(bought) == 0, "second pool pays what the recipient got")
	verifAssert(verifAdd(csDelta(before, after, "pool1/"+csStd), csDelta(before, after, "pool2/"+csStd)).Sign() == 0, "standard coin only moves between the two pools")
	for _, d := range denoms {
		verifAssert(csDelta(before, after, "supply/"+d).Sign() == 0, "swap mints/burns nothing")
		verifAssert(csDelta(before, after, "module/"+d).Sign() == 0 && csDelta(before, after, "feecol/"+d).Sign() == 0, "bystander accounts untouched")
	}
	if shapes {
		// C01 on every leg of a routed order: the constant-product rule with the configured fee charged on the
		// input side - (reserve_in + (1-fee)*paid) * (reserve_out - received) >= reserve_in * reserve_out
		e18 := verifPow10(18)
		keep := verifSub(e18, e.k.GetParams(e.ctx).Fee.BigInt())
		leg := func(rin, rout, paid, received *big.Int, what string) {
			lhs := verifMul(verifAdd(verifMul(rin, e18), verifMul(keep, paid)), verifSub(rout, received))
			verifAssert(lhs.Cmp(verifMul(rin, rout, e18)) >= 0, what)
		}
		leg(before["pool1/btc"], before["pool1/"+csStd], csDelta(before, after, "pool1/btc"), new(big.Int).Neg(csDelta(before, after, "pool1/"+csStd)), "first leg of a routed order is priced fee-inclusive")
		leg(before["pool2/"+csStd], before["pool2/eth"], csDelta(before, after, "pool2/"+csStd), new(big.Int).Neg(csDelta(before, after, "pool2/eth")), "second leg of a routed order is priced fee-inclusive")
	}
}
