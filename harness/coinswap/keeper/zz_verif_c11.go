package keeper

import (
	"errors"
	"math/big"

	sdkmath "cosmossdk.io/math"
	sdk "github.com/cosmos/cosmos-sdk/types"

	"mods.irisnet.org/modules/coinswap/types"
)

// C11 (self-composition, process-local state): replica A executes a transaction that writes the module
// parameters and then fails as a whole (its state changes are rolled back), replica B - e.g. a node
// restarted at the block boundary - never saw it.  The same later swap and export must give the same
// results on both: nothing a rolled-back transaction did may survive in the keeper.
func VerifC11_RolledBackWrite() {
	verifExpect("compared")
	build := func() (*csEnv, types.Pool) {
		e := newCsEnv(true)
		one, w := big.NewInt(1), verifPow2(40)
		pool := e.seedPool("btc", verifIntIn("S", one, w), verifIntIn("T", one, w), verifIntIn("L", one, w))
		e.bank.fund(e.sender, csStd, verifIntIn("balStd", big.NewInt(0), verifPow2(66)))
		return e, pool
	}
	a, poolA := build()
	b, poolB := build()
	// the rolled-back transaction on replica A: a valid parameter change followed by a failing message
	p2 := a.k.GetParams(a.ctx)
	p2.Fee = verifDec("fee2", big.NewInt(0), verifPow10(18))
	p2.TaxRate = verifDec("tax2", big.NewInt(0), verifPow10(18))
	verifAssume(p2.Validate() == nil)
	err, _ := a.verifDeliver(func() error {
		if err := a.k.SetParams(a.ctx, p2); err != nil {
			return err
		}
		return errors.New("a later message of the same transaction failed")
	})
	verifAssume(err != nil)
	amt := verifIntIn("in", big.NewInt(1), verifPow2(40))
	swap := func(e *csEnv) error {
		msg := &types.MsgSwapOrder{Input: types.Input{Address: e.sender.String(), Coin: sdk.Coin{Denom: csStd, Amount: amt}},
			Output: types.Output{Address: e.sender.String(), Coin: sdk.Coin{Denom: "btc", Amount: sdkmath.OneInt()}}, Deadline: 100}
		err, _ := e.verifDeliver(func() error { return e.k.Swap(e.ctx, msg) })
		return err
	}
	ea, eb := swap(a), swap(b)
	verifCover("compared")
	verifAssert((ea == nil) == (eb == nil), "the same swap succeeds or fails on both replicas")
	sa, ta, _ := a.reserves(poolA)
	sb, tb, _ := b.reserves(poolB)
	verifAssert(sa.Cmp(sb) == 0 && ta.Cmp(tb) == 0, "the same swap moves the same amounts on both replicas")
	verifAssert(a.bank.get(a.sender, "btc").Equal(b.bank.get(b.sender, "btc")), "the trader receives the same amount on both replicas")
	verifAssert(verifDeepEqual(a.k.GetParams(a.ctx), b.k.GetParams(b.ctx)), "both replicas read the same parameters")
}
