package keeper

import (
	"math/big"

	sdkmath "cosmossdk.io/math"
	sdk "github.com/cosmos/cosmos-sdk/types"
	authtypes "github.com/cosmos/cosmos-sdk/x/auth/types"

	"mods.irisnet.org/modules/coinswap/types"
)

const (
	csStd          = "stake"
	csFeeCollector = "fee_collector"
)

type csEnv struct {
	*vEnv
	k      Keeper
	sender sdk.AccAddress
	other  sdk.AccAddress
	holder sdk.AccAddress // holds the pre-existing LPT supply
}

// newCsEnv builds a coinswap keeper over the stubs with symbolic (valid) params.
func newCsEnv(symbolicParams bool) *csEnv { return newCsEnvFee(symbolicParams, csStd) }

// newCsEnvFee: the same with the denomination of the pool-creation fee given by the caller
func newCsEnvFee(symbolicParams bool, feeDenom string) *csEnv {
	return newCsEnvWith(symbolicParams, feeDenom, false)
}

// newCsEnvWith: with unrestricted the three decimals and the fee amount are ANY values (absent, negative,
// above one ...) and only the repository's own Validate() narrows them
func newCsEnvWith(symbolicParams bool, feeDenom string, unrestricted bool) *csEnv {
	e := &csEnv{vEnv: newVEnv(types.StoreKey, 10, csStd, "btc", "eth")}
	e.bank.modules[types.ModuleName] = []string{authtypes.Minter, authtypes.Burner}
	e.bank.modules[csFeeCollector] = nil
	e.sender, e.other, e.holder = vAddr(1), vAddr(2), vAddr(3)
	e.k = NewKeeper(e.cdc, e.key, e.bank, e.acc, csFeeCollector, vAddr(9).String()) // the app's own constructor
	e.k.SetStandardDenom(e.ctx, csStd)
	p := types.DefaultParams()
	if symbolicParams {
		if unrestricted {
			p.Fee, p.UnilateralLiquidityFee, p.TaxRate = verifDecAny("fee"), verifDecAny("ufee"), verifDecAny("tax")
			p.PoolCreationFee = sdk.Coin{Denom: feeDenom, Amount: verifIntAny("pcf")}
		} else {
			e18 := verifPow10(18)
			p.Fee = verifDec("fee", big.NewInt(0), e18)
			p.UnilateralLiquidityFee = verifDec("ufee", big.NewInt(0), e18)
			p.TaxRate = verifDec("tax", big.NewInt(0), e18)
			p.PoolCreationFee = sdk.Coin{Denom: feeDenom, Amount: verifIntIn("pcf", big.NewInt(0), verifPow2(128))}
		}
		var vErr error
		vPanicked, _ := verifCatch(func() { vErr = p.Validate() })
		verifAssume(!vPanicked && vErr == nil) // the repository's own validation is the precondition
	}
	if err := e.k.SetParams(e.ctx, p); err != nil {
		verifFail("SetParams rejected validated params")
	}
	return e
}

// seedPool creates the pool for denom with reserves (S std, T token) and LPT supply L held by holder.
func (e *csEnv) seedPool(denom string, S, T, L sdkmath.Int) types.Pool {
	pool := e.k.CreatePool(e.ctx, denom)
	addr := types.GetReservePoolAddr(pool.LptDenom)
	e.bank.fund(addr, csStd, S)
	e.bank.fund(addr, denom, T)
	e.bank.fund(e.holder, pool.LptDenom, L)
	return pool
}

func (e *csEnv) reserves(pool types.Pool) (S, T, L *big.Int) {
	addr := types.GetReservePoolAddr(pool.LptDenom)
	return e.bank.get(addr, csStd).BigInt(), e.bank.get(addr, pool.CounterpartyDenom).BigInt(), e.bank.supplyOf(pool.LptDenom).BigInt()
}

// donate: somebody sent coins of a third denomination straight to the pool's escrow address (anyone can).
func (e *csEnv) donate(pool types.Pool, denom string) {
	e.bank.fund(types.GetReservePoolAddr(pool.LptDenom), denom, verifIntIn("donated_"+denom, big.NewInt(0), verifPow2(40)))
}

// csSide3: the denomination a one-sided liquidity message names: the pool's token, the standard coin, or
// a denomination that is not part of the pool at all.
func csSide3() string {
	switch verifChoice("side", 3) {
	case 1:
		return csStd
	case 2:
		return "eth"
	}
	return "btc"
}
