package keeper

import (
	"math/big"

	sdkmath "cosmossdk.io/math"
	sdk "github.com/cosmos/cosmos-sdk/types"

	"mods.irisnet.org/modules/coinswap/types"
)

// C16 coinswap: params change only by authority; a set the validation rejects (or panics on) is
// never stored; what is stored is what was sent.
func VerifC16_UpdateParams() {
	verifExpect("stored", "refused")
	e := newCsEnv(false)
	before := e.k.GetParams(e.ctx)
	p := types.Params{Fee: verifDecAny("fee"), TaxRate: verifDecAny("tax"), UnilateralLiquidityFee: verifDecAny("ufee"),
		PoolCreationFee: sdk.Coin{Denom: verifDenomAny("pcfDenom", csStd), Amount: verifIntAny("pcf")}}
	rightAuthority := verifChoice("authority", 2) == 0
	auth := e.k.authority
	if !rightAuthority {
		auth = e.sender.String()
	}
	var vErr error
	vPanicked, _ := verifCatch(func() { vErr = p.Validate() })
	err, _ := e.verifDeliver(func() error {
		_, err := NewMsgServerImpl(e.k).UpdateParams(e.ctx, &types.MsgUpdateParams{Authority: auth, Params: p})
		return err
	})
	after := e.k.GetParams(e.ctx)
	if err != nil {
		verifCover("refused")
		verifAssert(after.Fee.Equal(before.Fee) && after.TaxRate.Equal(before.TaxRate) && after.UnilateralLiquidityFee.Equal(before.UnilateralLiquidityFee) && after.PoolCreationFee.IsEqual(before.PoolCreationFee), "refused update leaves params unchanged")
		return
	}
	verifCover("stored")
	verifAssert(rightAuthority, "only the configured authority changes params")
	verifAssert(!vPanicked && vErr == nil, "a parameter set rejected by validation is never stored")
	verifAssert(after.Fee.Equal(p.Fee) && after.TaxRate.Equal(p.TaxRate) && after.UnilateralLiquidityFee.Equal(p.UnilateralLiquidityFee) && after.PoolCreationFee.IsEqual(p.PoolCreationFee), "stored params are the submitted ones")
}

// C16 coinswap consumers: under every validated parameter set, the operations that work under
// the defaults end in success or an ordinary error - never a panic.
func VerifC16_Consumers() {
	verifExpect("ok")
	e := newCsEnvWith(true, verifDenomAny("pcfDenom", csStd), true) // ANY params with Validate()==nil assumed
	one, w := big.NewInt(1), verifPow2(40)
	e.seedPool("btc", verifIntIn("S", one, w), verifIntIn("T", one, w), verifIntIn("L", one, w))
	for _, d := range []string{csStd, "btc", "eth", "uother"} {
		e.bank.fund(e.sender, d, verifIntIn("bal_"+d, big.NewInt(0), verifPow2(132)))
	}
	amt := verifIntIn("amt", one, w)
	var what string
	var panicked bool
	switch verifChoice("op", 4) {
	case 0: // new pool: pays the creation fee (tax split)
		msg := &types.MsgAddLiquidity{MaxToken: sdk.Coin{Denom: "eth", Amount: amt}, ExactStandardAmt: verifIntIn("std", one, w), MinLiquidity: sdkmath.OneInt(), Deadline: 100, Sender: e.sender.String()}
		_, panicked = e.verifDeliver(func() error { _, err := e.k.AddLiquidity(e.ctx, msg); return err })
		what = "AddLiquidity(new pool)"
	case 1:
		msg := &types.MsgSwapOrder{Input: types.Input{Address: e.sender.String(), Coin: sdk.Coin{Denom: csStd, Amount: amt}},
			Output: types.Output{Address: e.sender.String(), Coin: sdk.Coin{Denom: "btc", Amount: sdkmath.OneInt()}}, Deadline: 100, IsBuyOrder: verifChoice("buy", 2) == 1}
		_, panicked = e.verifDeliver(func() error { return e.k.Swap(e.ctx, msg) })
		what = "Swap"
	case 2:
		msg := &types.MsgAddUnilateralLiquidity{CounterpartyDenom: "btc", ExactToken: sdk.Coin{Denom: "btc", Amount: amt}, MinLiquidity: sdkmath.ZeroInt(), Deadline: 100, Sender: e.sender.String()}
		_, panicked = e.verifDeliver(func() error { _, err := e.k.AddUnilateralLiquidity(e.ctx, msg); return err })
		what = "AddUnilateralLiquidity"
	case 3:
		e.bank.set(e.sender, "lpt-1", amt)
		msg := &types.MsgRemoveUnilateralLiquidity{CounterpartyDenom: "btc", MinToken: sdk.Coin{Denom: "btc", Amount: sdkmath.ZeroInt()}, ExactLiquidity: amt, Deadline: 100, Sender: e.sender.String()}
		_, panicked = e.verifDeliver(func() error { _, err := e.k.RemoveUnilateralLiquidity(e.ctx, msg); return err })
		what = "RemoveUnilateralLiquidity"
	}
	verifCover("ok")
	verifAssert(!panicked, "validated params never make a handler panic: "+what)
}
