package service

import (
	"math/big"

	storetypes "cosmossdk.io/store/types"
	sdk "github.com/cosmos/cosmos-sdk/types"

	"mods.irisnet.org/modules/service/keeper"
	"mods.irisnet.org/modules/service/types"
)

// C11 (what a node did besides the committed history leaves no trace), service: two replicas apply the same
// committed history - a service is defined; later a second service is defined and a provider binds both.
// In between, the second replica alone goes through something that is not part of the history: a transaction
// that defined (and read) the second service and was rolled back, the same on a state branch that is never
// written back (CheckTx, simulation), or a process restart (a new keeper over the same stores). Both replicas
// must accept and refuse the same messages, spend the same gas and end with the same stores and balances.
func VerifC11_ServiceOffChainDisturbance() {
	verifExpect("rolled-back", "discarded-branch", "restart", "undisturbed")
	disturbance := verifChoice("disturbance", 4)
	dep := verifIntIn("deposit", big.NewInt(6000), verifPow2(64))
	const second = "second-svc"
	type outcome struct {
		errs [4]bool
		gas  uint64
	}
	run := func(disturbed bool) (*svEnv, outcome) {
		var o outcome
		e := newSvEnv()
		e.bank.fund(e.owner, svDenom, dep.Add(dep))
		if err := e.k.AddServiceDefinition(e.ctx, svService, "desc", []string{"t1"}, e.owner, "author", c12Schemas); err != nil {
			verifFail("a valid definition is refused")
		}
		define2 := func(ctx sdk.Context, k keeper.Keeper) error {
			if err := k.AddServiceDefinition(ctx, second, "desc", []string{"t2"}, e.owner, "author", c12Schemas); err != nil {
				return err
			}
			_, found := k.GetServiceDefinition(ctx, second)
			if !found {
				verifFail("a definition just added is not found")
			}
			_, _ = k.GetServiceDefinition(ctx, svService)
			return nil
		}
		if disturbed {
			switch disturbance {
			case 1:
				_, _ = e.verifDeliver(func() error {
					if err := define2(e.ctx, e.k); err != nil {
						return err
					}
					return types.ErrUnknownServiceDefinition // a later message of the transaction fails
				})
				verifCover("rolled-back")
			case 2:
				cctx, _ := e.ctx.CacheContext()
				_ = define2(cctx, e.k)
				verifCover("discarded-branch")
			case 3:
				_, _ = e.k.GetServiceDefinition(e.ctx, svService) // the running process has looked the definition up before
				e.k = keeper.NewKeeper(e.cdc, e.key, e.acc, e.bank, svFeeCollector, vAddr(9).String())
				verifCover("restart")
			default:
				verifCover("undisturbed")
			}
		} else if disturbance == 3 {
			_, _ = e.k.GetServiceDefinition(e.ctx, svService) // same look-up on the replica that keeps running
		}
		// the next block's transactions, metered
		ctx := e.ctx.WithBlockHeight(svHeight + 1).WithGasMeter(storetypes.NewInfiniteGasMeter())
		o.errs[0] = e.k.AddServiceDefinition(ctx, second, "desc", []string{"t2"}, e.owner, "author", c12Schemas) != nil
		o.errs[1] = e.k.AddServiceBinding(ctx, svService, e.p1, sdk.Coins{sdk.Coin{Denom: svDenom, Amount: dep}}, c12Pricing, 5, "{}", e.owner) != nil
		o.errs[2] = e.k.AddServiceBinding(ctx, second, e.p1, sdk.Coins{sdk.Coin{Denom: svDenom, Amount: dep}}, c12Pricing, 5, "{}", e.owner) != nil
		o.errs[3] = e.k.AddServiceDefinition(ctx, svService, "desc", []string{"t1"}, e.owner, "author", c12Schemas) == nil
		o.gas = ctx.GasMeter().GasConsumed()
		return e, o
	}
	ea, oa := run(false)
	eb, ob := run(true)
	verifAssert(oa.errs == ob.errs, "both replicas accept and refuse the same messages")
	verifAssert(!oa.errs[0] && !oa.errs[1] && !oa.errs[2] && !oa.errs[3], "the committed history is accepted: new definition, two bindings; a duplicate definition refused")
	verifAssert(oa.gas == ob.gas, "both replicas spend the same gas on the same transactions")
	verifAssert(verifFingerprint([]*vEnv{ea.vEnv}).equal(verifFingerprint([]*vEnv{eb.vEnv})), "both replicas end with the same stores and balances")
}
