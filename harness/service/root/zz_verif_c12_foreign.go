package service

import (
	"math/big"

	sdkmath "cosmossdk.io/math"
	sdk "github.com/cosmos/cosmos-sdk/types"

	"mods.irisnet.org/modules/service/types"
)

// C12 service, bindings priced in another denomination: while the fee denomination is unrestricted a provider
// is bound with a price in a denomination other than the base one (the minimum deposit follows the exchange
// rate served by the oracle module service), possibly next to a binding priced in the base denomination;
// afterwards the authority may restrict the fee denomination (existing bindings stay as they are). The export
// validates, imports without panic, and bindings, pricing, owners and params answer identically.
func VerifC12_ServiceForeignPrice() {
	verifExpect("restricted-later", "unrestricted")
	e := newSvEnv()
	const foreign = "uforeign"
	e.bank.fund(vAddr(9), foreign, sdkmath.NewInt(1000000)) // the denomination exists: it has supply
	rateTxt := []string{"0.5", "2", "1"}[verifChoice("rate", 3)]
	err := e.k.RegisterModuleService(types.RegisterModuleName, &types.ModuleService{ServiceName: types.OraclePriceServiceName, Provider: types.OraclePriceServiceProvider,
		ReuquestService: func(ctx sdk.Context, input string) (string, string) {
			return `{"code":200,"message":""}`, `{"header":{},"body":{"rate":"` + rateTxt + `"}}`
		}})
	if err != nil {
		verifFail("module service refused")
	}
	err = e.k.AddServiceDefinition(e.ctx, svService, "desc", []string{"t1"}, e.owner, "author", c12Schemas)
	verifAssert(err == nil, "a valid definition is added")
	dep := verifIntIn("deposit", big.NewInt(6000), verifPow2(64))
	e.bank.fund(e.owner, svDenom, dep.Add(dep))
	err = e.k.AddServiceBinding(e.ctx, svService, e.p1, sdk.Coins{sdk.Coin{Denom: svDenom, Amount: dep}}, `{"price":"2`+foreign+`"}`, 5, "{}", e.owner)
	if err != nil {
		verifPrint(err.Error())
	}
	verifAssert(err == nil, "while the fee denomination is unrestricted a binding may be priced in any denomination that has supply and an exchange rate")
	if verifChoice("secondBinding", 2) == 1 {
		err = e.k.AddServiceBinding(e.ctx, svService, e.p2, sdk.Coins{sdk.Coin{Denom: svDenom, Amount: dep}}, c12Pricing, 7, "{}", e.owner)
		verifAssert(err == nil, "a second valid binding is added")
	}
	if verifChoice("restrictedLater", 2) == 1 {
		par := e.k.GetParams(e.ctx)
		par.RestrictedServiceFeeDenom = true
		if perr := e.k.SetParams(e.ctx, par); perr != nil {
			verifFail("valid params rejected: " + perr.Error())
		}
		verifCover("restricted-later")
	} else {
		verifCover("unrestricted")
	}
	g := ExportGenesis(e.ctx, e.k)
	verr := types.ValidateGenesis(*g)
	if verr != nil {
		verifPrint(verr.Error())
	}
	verifAssert(verr == nil, "the exported genesis passes the module's own validation")
	if verr != nil {
		return
	}
	e2 := newSvEnv()
	e2.bank.restore(e.bank.snapshot())
	panicked, what := verifCatch(func() { InitGenesis(e2.ctx, e2.k, *g) })
	if panicked {
		verifPrint(what)
	}
	verifAssert(!panicked, "the exported genesis imports without panic")
	for _, p := range []sdk.AccAddress{e.p1, e.p2} {
		b1, ok1 := e.k.GetServiceBinding(e.ctx, svService, p)
		b2, ok2 := e2.k.GetServiceBinding(e2.ctx, svService, p)
		verifAssert(ok1 == ok2 && (!ok1 || verifDeepEqual(b1, b2)), "every binding answers identically after re-import")
		o1, f1 := e.k.GetOwner(e.ctx, p)
		o2, f2 := e2.k.GetOwner(e2.ctx, p)
		verifAssert(f1 == f2 && o1.Equals(o2), "every provider keeps its owner after re-import")
		verifAssert(verifDeepEqual(e.k.GetPricing(e.ctx, svService, p), e2.k.GetPricing(e2.ctx, svService, p)), "every binding keeps its pricing after re-import")
	}
	// the owner's providers (the index withdrawals by the owner walk)
	listProviders := func(x *svEnv) (ps []string) {
		it := x.k.OwnerProvidersIterator(x.ctx, x.owner)
		defer it.Close()
		for ; it.Valid(); it.Next() {
			ps = append(ps, string(it.Key()))
		}
		return
	}
	verifAssert(verifDeepEqual(listProviders(e), listProviders(e2)), "the owner's providers are listed identically after re-import")
	verifAssert(verifDeepEqual(e.k.GetParams(e.ctx), e2.k.GetParams(e2.ctx)), "the params answer identically after re-import")
	g2 := ExportGenesis(e2.ctx, e2.k)
	verifAssert(verifDeepEqual(*g, *g2), "a second export equals the first")
}
