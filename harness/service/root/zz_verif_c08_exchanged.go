package service

import (
	"math/big"

	sdkmath "cosmossdk.io/math"
	sdk "github.com/cosmos/cosmos-sdk/types"

	"mods.irisnet.org/modules/service/types"
)

const svDenom2 = "uatom"

// C07/C08/C13, pricing in a denomination other than the base denomination: the provider's price is
// quoted in uatom, the consumer's fee cap in the base denomination; the end-block handler converts with the
// exchange rate the oracle module's price service reports (a stub module service here: a rate, or the
// answer "no fresh value").  Whatever the oracle answers, the handler does not abort, the queue entry of
// this height is consumed, a running context keeps exactly one schedule entry (an in-flight or skipped
// batch's expiration, so that a repeated context goes on with batch n+1), the provider is eligible iff
// floor(price x rate) <= cap, and the consumer pays - in the price's own denomination - exactly the fees
// recorded on the requests issued, into the request escrow.
func VerifC08_NewBatchExchanged() {
	verifExpect("issued", "not-issued", "no-rate")
	e := newSvEnv()
	one, w := big.NewInt(1), verifAmt(40)
	rateSel := verifChoice("rate", 4)
	rateTxt := []string{"0.5", "2", "0.000001", ""}[rateSel]
	rateNum, rateDen := []int64{1, 2, 1, 0}[rateSel], []int64{2, 1, 1000000, 1}[rateSel]
	asked := 0
	err := e.k.RegisterModuleService(types.RegisterModuleName, &types.ModuleService{ServiceName: types.OraclePriceServiceName, Provider: types.OraclePriceServiceProvider,
		ReuquestService: func(ctx sdk.Context, input string) (string, string) {
			asked++
			if rateTxt == "" {
				return `{"code":402,"message":"feed value expired"}`, ""
			}
			return `{"code":200,"message":""}`, `{"header":{},"body":{"rate":"` + rateTxt + `"}}`
		}})
	if err != nil {
		verifFail("module service refused")
	}
	price1 := verifIntIn("price1", one, w)
	b := types.NewServiceBinding(svService, e.p1, sdk.Coins{sdk.Coin{Denom: svDenom, Amount: sdkmath.NewInt(5000)}}, "{}", 5, "{}", true, e.ctx.BlockTime(), e.owner)
	e.k.SetServiceBinding(e.ctx, b)
	e.k.SetOwnerServiceBinding(e.ctx, b)
	e.k.SetOwner(e.ctx, e.p1, e.owner)
	e.k.SetOwnerProvider(e.ctx, e.owner, e.p1)
	e.k.SetPricing(e.ctx, svService, e.p1, types.Pricing{Price: sdk.Coins{sdk.Coin{Denom: svDenom2, Amount: price1}}})
	providers := []sdk.AccAddress{e.p1}
	two := verifChoice("providers", 2) == 1
	price2 := sdkmath.ZeroInt()
	if two {
		price2 = verifIntIn("price2", one, w)
		e.bind(e.p2, price2, sdkmath.NewInt(5000), sdkmath.LegacyDec{}, 5, true)
		providers = append(providers, e.p2)
	}
	capAmt := verifIntIn("feeCap", one, w)
	repeated := verifChoice("repeated", 2) == 1
	rc0 := e.context(providers, capAmt, 1, types.RUNNING, repeated)
	rc0.RepeatedTotal = -1
	e.k.SetRequestContext(e.ctx, e.ctxID, rc0)
	e.k.AddNewRequestBatch(e.ctx, e.ctxID, svHeight)
	e.bank.fund(e.consumer, svDenom, verifIntIn("wallet", big.NewInt(0), verifAmt(42)))
	e.bank.fund(e.consumer, svDenom2, verifIntIn("wallet2", big.NewInt(0), verifAmt(42)))
	bal2 := func(a sdk.AccAddress) *big.Int { return e.bank.get(a, svDenom2).BigInt() }
	c0, r0, c20, r20 := e.bal(e.consumer), e.reqEscrow(), bal2(e.consumer), bal2(vModuleAddr(types.RequestAccName))
	panicked, what := verifCatch(func() { EndBlocker(e.ctx, e.k) })
	if panicked {
		verifPrint(what)
	}
	verifAssert(!panicked, "end-block never panics")
	charged, charged2 := verifSub(c0, e.bal(e.consumer)), verifSub(c20, bal2(e.consumer))
	verifAssert(verifSub(e.reqEscrow(), r0).Cmp(charged) == 0 && verifSub(bal2(vModuleAddr(types.RequestAccName)), r20).Cmp(charged2) == 0, "what the consumer pays goes into the request escrow, denomination by denomination")
	if rateTxt == "" {
		verifCover("no-rate")
	}
	verifAssert(!e.store().Has(types.GetNewRequestBatchKey(e.ctxID, svHeight)), "no new-batch entry stays queued at a height that has passed")
	rc, found := e.k.GetRequestContext(e.ctx, e.ctxID)
	verifAssert(found, "the context survives its batch start")
	// the fees recorded on the requests issued, per denomination
	fees, fees2 := big.NewInt(0), big.NewInt(0)
	var got []string
	it := e.k.RequestsIteratorByReqCtx(e.ctx, e.ctxID, rc.BatchCounter)
	for ; it.Valid(); it.Next() {
		r, ok := e.k.GetRequest(e.ctx, it.Key()[1:])
		if !ok {
			verifFail("compact request without context")
		}
		got = append(got, r.Provider)
		fees, fees2 = verifAdd(fees, r.ServiceFee.AmountOf(svDenom).BigInt()), verifAdd(fees2, r.ServiceFee.AmountOf(svDenom2).BigInt())
	}
	it.Close()
	if rc.State == types.RUNNING {
		// whatever happened to this batch, the context stays scheduled: an expiration entry for the batch in
		// flight (or for its skipped slot), from which the next batch of a repeated context is derived
		verifAssert(e.k.HasRequestBatchExpiration(e.ctx, e.ctxID) && !e.k.HasNewRequestBatch(e.ctx, e.ctxID), "a running context keeps exactly one schedule entry, in the future")
	} else {
		verifAssert(rc.State == types.PAUSED && !e.k.HasNewRequestBatch(e.ctx, e.ctxID) && len(got) == 0 && charged.Sign() == 0 && charged2.Sign() == 0, "a context that could not pay is paused, unscheduled and charged nothing")
		verifCover("not-issued")
		return
	}
	verifAssert(charged.Cmp(fees) == 0 && charged2.Cmp(fees2) == 0, "the consumer is charged exactly the sum of the fees recorded on the requests issued, in each fee's own denomination")
	if len(got) == 0 {
		verifCover("not-issued")
		return
	}
	verifCover("issued")
	verifAssert(rateTxt != "", "no request priced in another denomination goes out without an exchange rate")
	// eligibility of the provider priced in uatom: floor(price * rate) <= cap
	exch := new(big.Int).Quo(verifMul(price1.BigInt(), big.NewInt(rateNum)), big.NewInt(rateDen))
	want1 := exch.Cmp(capAmt.BigInt()) <= 0
	has1, has2 := false, false
	for _, p := range got {
		if p == e.p1.String() {
			has1 = true
		}
		if p == e.p2.String() {
			has2 = true
		}
	}
	verifAssert(has1 == want1, "a provider priced in another denomination is addressed iff its exchanged price is within the fee cap")
	if two {
		verifAssert(has2 == (price2.BigInt().Cmp(capAmt.BigInt()) <= 0), "a provider priced in the base denomination is addressed iff its price is within the fee cap")
	}
	if has1 {
		verifAssert(fees2.Cmp(price1.BigInt()) == 0 && asked > 0, "the fee is recorded in the price's own denomination")
	}
}
