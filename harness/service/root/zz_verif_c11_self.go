package service

// C11 (self-composition of whole histories): the histories of real operations written for the export/import
// and block-handler properties are executed twice on the same symbolic inputs under independent symbolic map
// orders and host-clock readings, in one process; both executions must end in the same stores and balances
// (verifSelfCompose, harness/rt).
// (the export/import history VerifC12_Service is NOT self-composed: two executions of it under symbolic map orders
// and clock readings did not finish within 50 minutes on 16 cores, pinned choices included; the service module's
// C11 coverage is the end-block unit, the three histories below and VerifC11_ServiceOffChainDisturbance)
func VerifC11_Self_C08_BatchExpiry() { verifSelfCompose(VerifC08_BatchExpiry) }
func VerifC11_Self_C08_Respond()     { verifSelfCompose(VerifC08_Respond) }
func VerifC11_Self_C08_Callback()    { verifSelfCompose(VerifC08_Callback) }
