package service

// C11 (self-composition of whole histories): the histories of real operations written for the export/import
// and block-handler properties are executed twice on the same symbolic inputs under independent symbolic map
// orders and host-clock readings, in one process; both executions must end in the same stores and balances
// (verifSelfCompose, harness/rt).
func VerifC11_SelfT_C12_Service()    { verifSelfCompose(VerifC12_Service) }
func VerifC11_Self_C08_BatchExpiry() { verifSelfCompose(VerifC08_BatchExpiry) }
func VerifC11_Self_C08_Respond()     { verifSelfCompose(VerifC08_Respond) }
func VerifC11_Self_C08_Callback()    { verifSelfCompose(VerifC08_Callback) }
