package service

// C11 (self-composition of whole histories): the histories of real operations written for the export/import
// and block-handler properties are executed twice on the same symbolic inputs under independent symbolic map
// orders and host-clock readings, in one process; both executions must end in the same stores and balances
// (verifSelfCompose, harness/rt).
func VerifC11_SelfT_C12_Service() {
	// two bindings, a withdraw address, default params, a context created running whose first batch the
	// end-block handler starts; what happens later, the kind of context and the export mode stay free
	verifAssume(verifChoice("changedParams", 2) == 0 && verifChoice("secondBinding", 2) == 1 && verifChoice("withdrawAddress", 2) == 1)
	verifAssume(verifChoice("createdPaused", 2) == 0 && verifChoice("endBlock", 2) == 1)
	verifSelfCompose(VerifC12_Service)
}
func VerifC11_Self_C08_BatchExpiry() { verifSelfCompose(VerifC08_BatchExpiry) }
func VerifC11_Self_C08_Respond()     { verifSelfCompose(VerifC08_Respond) }
func VerifC11_Self_C08_Callback()    { verifSelfCompose(VerifC08_Callback) }
