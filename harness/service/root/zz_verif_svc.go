package service

import (
	"bytes"
	"math/big"
	"time"

	sdkmath "cosmossdk.io/math"
	tmbytes "github.com/cometbft/cometbft/libs/bytes"
	sdk "github.com/cosmos/cosmos-sdk/types"
	authtypes "github.com/cosmos/cosmos-sdk/x/auth/types"

	"mods.irisnet.org/modules/service/keeper"
	"mods.irisnet.org/modules/service/types"
)

const (
	svFeeCollector = "fee_collector"
	svDenom        = "stake"
	svService      = "price-svc"
	svHeight       = int64(20)
	svTimeout      = int64(10)
)

type svEnv struct {
	*vEnv
	k                       keeper.Keeper
	owner, p1, p2, consumer sdk.AccAddress
	ctxID                   tmbytes.HexBytes
}

func newSvEnv() *svEnv {
	e := &svEnv{vEnv: newVEnv(types.StoreKey, svHeight, svDenom)}
	e.bank.modules[types.DepositAccName] = []string{authtypes.Burner}
	e.bank.modules[types.RequestAccName] = nil
	e.bank.modules[svFeeCollector] = nil
	e.owner, e.p1, e.p2, e.consumer = vAddr(1), vAddr(3), vAddr(4), vAddr(5)
	e.k = keeper.NewKeeper(e.cdc, e.key, e.acc, e.bank, svFeeCollector, vAddr(9).String())
	p := types.DefaultParams()
	e18 := verifPow10(18)
	p.ServiceFeeTax = verifDec("feeTax", big.NewInt(0), e18)
	p.SlashFraction = verifDec("slashFraction", big.NewInt(0), e18)
	verifAssume(p.Validate() == nil)
	if err := e.k.SetParams(e.ctx, p); err != nil {
		verifFail("validated params rejected")
	}
	e.ctxID = types.GenerateRequestContextID(bytes.Repeat([]byte{7}, 32), 0)
	e.ctx = e.ctx.WithBlockTime(time.Unix(1700000000, 0))
	return e
}

// bind stores a binding with its pricing as AddServiceBinding would (records written directly;
// the JSON pricing string is not re-parsed by the code under test).
func (e *svEnv) bind(provider sdk.AccAddress, price, deposit sdkmath.Int, discount sdkmath.LegacyDec, qos uint64, available bool) {
	b := types.NewServiceBinding(svService, provider, sdk.Coins{sdk.Coin{Denom: svDenom, Amount: deposit}}, "{}", qos, "{}", available, time.Time{}, e.owner)
	e.k.SetServiceBinding(e.ctx, b)
	e.k.SetOwnerServiceBinding(e.ctx, b)
	e.k.SetOwner(e.ctx, provider, e.owner)
	e.k.SetOwnerProvider(e.ctx, e.owner, provider)
	pr := types.Pricing{Price: sdk.Coins{sdk.Coin{Denom: svDenom, Amount: price}}}
	if !discount.IsNil() {
		pr.PromotionsByVolume = []types.PromotionByVolume{{Volume: 1, Discount: discount}}
	}
	e.k.SetPricing(e.ctx, svService, provider, pr)
	e.bank.fund(vModuleAddr(types.DepositAccName), svDenom, deposit)
}

func (e *svEnv) context(providers []sdk.AccAddress, feeCap sdkmath.Int, threshold uint32, state types.RequestContextState, repeated bool) types.RequestContext {
	ps := make([]string, len(providers))
	for i, p := range providers {
		ps[i] = p.String()
	}
	rc := types.RequestContext{ServiceName: svService, Providers: ps, Consumer: e.consumer.String(), Input: "{}",
		ServiceFeeCap: sdk.Coins{sdk.Coin{Denom: svDenom, Amount: feeCap}}, Timeout: svTimeout, Repeated: repeated, RepeatedFrequency: uint64(svTimeout) + 5,
		RepeatedTotal: 3, ResponseThreshold: threshold, BatchState: types.BATCHCOMPLETED, State: state}
	e.k.SetRequestContext(e.ctx, e.ctxID, rc)
	return rc
}

func (e *svEnv) bal(a sdk.AccAddress) *big.Int { return e.bank.get(a, svDenom).BigInt() }
func (e *svEnv) reqEscrow() *big.Int           { return e.bal(vModuleAddr(types.RequestAccName)) }

// requests of the tracked context's current batch
func (e *svEnv) batchRequests(counter uint64) (ids []tmbytes.HexBytes, fees *big.Int) {
	fees = big.NewInt(0)
	it := e.k.RequestsIteratorByReqCtx(e.ctx, e.ctxID, counter)
	defer it.Close()
	for ; it.Valid(); it.Next() {
		id := tmbytes.HexBytes(it.Key()[1:])
		r, ok := e.k.GetRequest(e.ctx, id)
		if !ok {
			verifFail("compact request without context")
		}
		ids = append(ids, id)
		fees = verifAdd(fees, r.ServiceFee.AmountOf(svDenom).BigInt())
	}
	return
}

// C07/C08/C13: a new batch of a running context is issued in end-block: the consumer is charged
// exactly the sum of the fees recorded on the requests issued, the request escrow grows by the same,
// each eligible provider gets one active request; no panic.
func VerifC07_NewBatch() { svNewBatch(true) }

// the same batch start without the charge identity (a C07 concern): outcomes and bookkeeping only
func VerifC08_NewBatch() { svNewBatch(false) }

func svNewBatch(checkCharge bool) {
	verifExpect("issued", "not-issued")
	e := newSvEnv()
	one, w := big.NewInt(1), verifAmt(40)
	e18 := verifPow10(18)
	two := verifChoice("providers", 2) == 1
	hasDiscount := verifChoice("discount", 2) == 1
	disc := sdkmath.LegacyDec{}
	if hasDiscount {
		disc = verifDec("volumeDiscount", big.NewInt(0), e18)
	}
	price1 := verifIntIn("price1", one, w)
	e.bind(e.p1, price1, verifIntIn("deposit1", one, w), disc, 5, verifBool("available1"))
	providers := []sdk.AccAddress{e.p1}
	if two {
		e.bind(e.p2, verifIntIn("price2", one, w), verifIntIn("deposit2", one, w), sdkmath.LegacyDec{}, 5, true)
		providers = append(providers, e.p2)
	}
	if verifChoice("volume", 2) == 1 {
		e.k.SetRequestVolume(e.ctx, e.consumer, svService, e.p1, 3) // the volume discount applies
	}
	threshold := uint32(verifChoice("threshold", 2) + 1)
	// the context may have been paused by its consumer after this batch was queued
	paused := verifChoice("paused", 2) == 1
	ctxState := types.RUNNING
	if paused {
		ctxState = types.PAUSED
	}
	rc0 := e.context(providers, verifIntIn("feeCap", one, w), threshold, ctxState, verifChoice("repeated", 2) == 1)
	// arbitrary state left behind by earlier batches of a repeated context
	prevBatches := verifUint64("prevBatches")
	prevReq, prevResp := verifUint32("prevRequestCount"), verifUint32("prevResponseCount")
	verifAssume(prevBatches < 1<<40 && prevResp <= prevReq && prevReq <= 2)
	if !rc0.Repeated {
		verifAssume(prevBatches == 0 && prevReq == 0)
	}
	rc0.BatchCounter, rc0.BatchRequestCount, rc0.BatchResponseCount = prevBatches, prevReq, prevResp
	rc0.RepeatedTotal = -1
	e.k.SetRequestContext(e.ctx, e.ctxID, rc0)
	e.k.AddNewRequestBatch(e.ctx, e.ctxID, svHeight)
	e.bank.fund(e.consumer, svDenom, verifIntIn("wallet", big.NewInt(0), verifAmt(42)))
	c0, r0 := e.bal(e.consumer), e.reqEscrow()
	panicked, what := verifCatch(func() { EndBlocker(e.ctx, e.k) })
	if panicked {
		verifPrint(what)
	}
	verifAssert(!panicked, "end-block never panics")
	charged := verifSub(c0, e.bal(e.consumer))
	verifAssert(verifSub(e.reqEscrow(), r0).Cmp(charged) == 0, "what the consumer pays goes into the request escrow")
	verifAssert(!e.k.HasNewRequestBatch(e.ctx, e.ctxID) && !e.store().Has(types.GetNewRequestBatchKey(e.ctxID, svHeight)), "the new-batch entry is consumed at its due height (also for a paused context)")
	rc, found := e.k.GetRequestContext(e.ctx, e.ctxID)
	verifAssert(found, "the context survives its batch start")
	if paused {
		idsP, _ := e.batchRequests(rc.BatchCounter)
		verifAssert(charged.Sign() == 0 && rc.BatchCounter == prevBatches && len(idsP) == 0 && rc.State == types.PAUSED, "a paused context issues nothing and is charged nothing")
		verifCover("not-issued")
		return
	}
	ids, fees := e.batchRequests(rc.BatchCounter)
	if rc.State == types.PAUSED {
		// the consumer could not pay: the context was paused automatically and the batch must not go out
		idsNext, _ := e.batchRequests(prevBatches + 1)
		verifAssert(charged.Sign() == 0 && rc.BatchCounter == prevBatches && len(idsNext) == 0 && !e.k.HasRequestBatchExpiration(e.ctx, e.ctxID), "a context paused for lack of funds issues nothing and is charged nothing")
		verifCover("not-issued")
		return
	}
	if len(ids) == 0 {
		verifCover("not-issued")
		verifAssert(charged.Sign() == 0, "nothing is charged when no request is issued")
		return
	}
	verifCover("issued")
	discounted := hasDiscount && charged.Cmp(fees) != 0
	if !checkCharge {
		// (the charge identity under a discount is the subject of the listed C07 finding; without a
		// discount it must hold here as well)
		if !hasDiscount {
			verifAssert(charged.Cmp(fees) == 0, "the consumer is charged exactly the sum of the fees recorded on the requests issued (no discount)")
		}
	} else {
		verifAssertKnown(charged.Cmp(fees) == 0, "the consumer is charged exactly the sum of the fees recorded on the requests issued", "C07-undiscounted-charge", discounted)
	}
	verifAssert(rc.BatchCounter == prevBatches+1 && rc.BatchState == types.BATCHRUNNING && int(rc.BatchRequestCount) == len(ids) && len(ids) >= int(threshold), "batch bookkeeping matches the requests issued")
	verifAssert(rc.BatchResponseCount == 0 && rc.BatchResponseThreshold == threshold, "a new batch starts with no responses counted")
	verifAssert(e.k.HasRequestBatchExpiration(e.ctx, e.ctxID), "a running batch has an expiration entry")
	for _, id := range ids {
		verifAssert(e.k.IsRequestActive(e.ctx, id), "every issued request is active")
	}
}

// C07/C08/C13: a batch expiring in end-block: every still-active request is refunded in full to the
// consumer and its provider's deposit slashed by floor(deposit*fraction) into the fee pool; answered
// requests are left alone; a one-shot context is removed; no panic.
func VerifC08_BatchExpiry() {
	verifExpect("expired")
	e := newSvEnv()
	one, w := big.NewInt(1), verifAmt(40)
	dep1, dep2 := verifIntIn("deposit1", one, w), verifIntIn("deposit2", one, w)
	// a binding may have been disabled (by its owner or by an earlier slash) after the requests were issued
	e.bind(e.p1, sdkmath.NewInt(10), dep1, sdkmath.LegacyDec{}, 5, verifBool("available1"))
	e.bind(e.p2, sdkmath.NewInt(10), dep2, sdkmath.LegacyDec{}, 5, verifBool("available2"))
	repeated := verifChoice("repeated", 2) == 1
	rc := e.context([]sdk.AccAddress{e.p1, e.p2}, sdkmath.NewInt(1000), 1, types.RUNNING, repeated)
	// the next batch of a repeated context is due one frequency after this one: later than this block, or
	// - when the frequency equals the timeout (also the default) - in this very block
	sameBlock := repeated && verifChoice("frequencyEqualsTimeout", 2) == 1
	if sameBlock {
		rc.RepeatedFrequency = uint64(svTimeout)
	}
	// a repeated context runs for ever (total -1), has reached its total with this batch (total 1, counter 1), or
	// is still below it (total 2)
	rc.RepeatedTotal = []int64{-1, 1, 2}[verifChoice("total", 3)]
	lastBatch := repeated && rc.RepeatedTotal == 1
	e.bank.fund(e.consumer, svDenom, sdkmath.NewInt(1000000))
	fee1, fee2 := verifIntIn("fee1", one, w), verifIntIn("fee2", one, w)
	h0 := svHeight - svTimeout
	rc.BatchCounter, rc.BatchState, rc.BatchRequestCount = 1, types.BATCHRUNNING, 2
	mk := func(idx int16, p sdk.AccAddress, fee sdkmath.Int) tmbytes.HexBytes {
		id := types.GenerateRequestID(e.ctxID, 1, h0, idx)
		e.k.SetCompactRequest(e.ctx, id, types.NewCompactRequest(e.ctxID, 1, p, sdk.Coins{sdk.Coin{Denom: svDenom, Amount: fee}}, h0, svHeight))
		e.k.AddActiveRequest(e.ctx, svService, p, svHeight, id)
		return id
	}
	id1, id2 := mk(0, e.p1, fee1), mk(1, e.p2, fee2)
	e.bank.fund(vModuleAddr(types.RequestAccName), svDenom, fee1.Add(fee2).Add(verifIntIn("escrowOthers", big.NewInt(0), w)))
	answered := verifChoice("p1Answered", 2) == 1
	if answered {
		// provider 1 answered earlier: its request is no longer active and its fee already credited
		e.k.DeleteActiveRequest(e.ctx, svService, e.p1, svHeight, id1)
		e.k.SetResponse(e.ctx, id1, types.NewResponse(e.p1, e.consumer, `{"code":200}`, "", e.ctxID, 1))
		rc.BatchResponseCount = 1
	}
	e.k.SetRequestContext(e.ctx, e.ctxID, rc)
	e.k.AddRequestBatchExpiration(e.ctx, e.ctxID, svHeight)
	c0, r0, f0 := e.bal(e.consumer), e.reqEscrow(), e.bal(vModuleAddr(svFeeCollector))
	d0 := e.bal(vModuleAddr(types.DepositAccName))
	slash := e.k.SlashFraction(e.ctx).BigInt()
	panicked, what := verifCatch(func() { EndBlocker(e.ctx, e.k) })
	if panicked {
		verifPrint(what)
	}
	verifAssert(!panicked, "end-block never panics")
	verifCover("expired")
	refund := fee2.BigInt()
	if !answered {
		refund = verifAdd(refund, fee1.BigInt())
	}
	// when the next batch starts in this very block the consumer also pays that batch's fees
	newFees := big.NewInt(0)
	if sameBlock && !lastBatch {
		_, newFees = e.batchRequests(2)
	}
	verifAssert(verifSub(e.bal(e.consumer), c0).Cmp(verifSub(refund, newFees)) == 0, "each expired request's fee goes entirely back to the consumer, once")
	verifAssert(verifSub(r0, e.reqEscrow()).Cmp(verifSub(refund, newFees)) == 0, "refunds come out of the request escrow")
	verifAssert(!e.k.IsRequestActive(e.ctx, id1) && !e.k.IsRequestActive(e.ctx, id2), "no request stays active after its expiration height")
	verifAssert((sameBlock && !lastBatch) || !e.k.HasRequestBatchExpiration(e.ctx, e.ctxID), "the expiration entry is consumed")
	verifAssert(!e.store().Has(types.GetExpiredRequestBatchKey(e.ctxID, svHeight)), "no expiration entry at the current height remains")
	// slashing: floor(deposit*fraction) per expired request, deposit escrow -> fee pool, binding reduced by the same
	e18 := verifPow10(18)
	slashed := verifSub(e.bal(vModuleAddr(svFeeCollector)), f0)
	verifAssert(verifSub(d0, e.bal(vModuleAddr(types.DepositAccName))).Cmp(slashed) == 0, "slashed coins move from the deposit escrow to the fee pool")
	b1, _ := e.k.GetServiceBinding(e.ctx, svService, e.p1)
	b2, _ := e.k.GetServiceBinding(e.ctx, svService, e.p2)
	s1 := verifSub(dep1.BigInt(), b1.Deposit.AmountOf(svDenom).BigInt())
	s2 := verifSub(dep2.BigInt(), b2.Deposit.AmountOf(svDenom).BigInt())
	verifAssert(verifAdd(s1, s2).Cmp(slashed) == 0, "bindings' recorded deposits fall by exactly what was slashed")
	isFloor := func(s, dep *big.Int) bool {
		return verifMul(s, e18).Cmp(verifMul(dep, slash)) <= 0 && verifMul(verifAdd(s, one), e18).Cmp(verifMul(dep, slash)) > 0
	}
	verifAssert(isFloor(s2, dep2.BigInt()), "an expired request slashes floor(deposit*fraction)")
	if answered {
		verifAssert(s1.Sign() == 0, "a provider that answered is not slashed")
	} else {
		verifAssert(isFloor(s1, dep1.BigInt()), "an expired request slashes floor(deposit*fraction)")
	}
	_, still := e.k.GetRequestContext(e.ctx, e.ctxID)
	if !repeated {
		verifAssert(!still, "a one-shot context is removed after its batch")
	} else if lastBatch {
		verifAssert(!still && !e.k.HasNewRequestBatch(e.ctx, e.ctxID) && !e.store().Has(types.GetNewRequestBatchKey(e.ctxID, svHeight)), "a repeated context that has issued its total is removed after its last batch: no further batch")
	} else if !sameBlock {
		verifAssert(still && e.k.HasNewRequestBatch(e.ctx, e.ctxID), "a repeated context below its total schedules its next batch")
	} else {
		// due in this block: it must have been handled in this block (issued, or skipped if nobody is
		// eligible any more) - never left behind in the queue
		rc2, _ := e.k.GetRequestContext(e.ctx, e.ctxID)
		verifAssert(still && !e.store().Has(types.GetNewRequestBatchKey(e.ctxID, svHeight)), "a batch due in this block does not stay queued")
		verifAssert(rc2.BatchCounter == 2 && e.k.HasRequestBatchExpiration(e.ctx, e.ctxID), "batch n+1 starts exactly one frequency after batch n")
	}
}

// C08: a response is accepted iff it comes from the provider the request was addressed to while the
// request is still active; it is then counted once, the request becomes inactive (so neither a second
// answer nor the expiry handler touches it again), and the batch completes exactly when every request
// of the batch has been answered.  A rejected answer changes nothing.
func VerifC08_Respond() {
	verifExpect("accepted", "rejected")
	e := newSvEnv()
	one, w := big.NewInt(1), verifAmt(40)
	e.bind(e.p1, sdkmath.NewInt(10), verifIntIn("deposit1", one, w), sdkmath.LegacyDec{}, 5, true)
	e.bind(e.p2, sdkmath.NewInt(10), verifIntIn("deposit2", one, w), sdkmath.LegacyDec{}, 5, true)
	rc := e.context([]sdk.AccAddress{e.p1, e.p2}, sdkmath.NewInt(1000), 1, types.RUNNING, verifChoice("repeated", 2) == 1)
	fee1, fee2 := verifIntIn("fee1", one, w), verifIntIn("fee2", one, w)
	expiry := svHeight + 5
	rc.BatchCounter, rc.BatchState, rc.BatchRequestCount = 1, types.BATCHRUNNING, 2
	mk := func(idx int16, p sdk.AccAddress, fee sdkmath.Int) tmbytes.HexBytes {
		id := types.GenerateRequestID(e.ctxID, 1, svHeight-5, idx)
		e.k.SetCompactRequest(e.ctx, id, types.NewCompactRequest(e.ctxID, 1, p, sdk.Coins{sdk.Coin{Denom: svDenom, Amount: fee}}, svHeight-5, expiry))
		e.k.AddActiveRequest(e.ctx, svService, p, expiry, id)
		return id
	}
	id1, id2 := mk(0, e.p1, fee1), mk(1, e.p2, fee2)
	e.bank.fund(vModuleAddr(types.RequestAccName), svDenom, fee1.Add(fee2))
	otherAnswered := verifChoice("otherAnswered", 2) == 1
	if otherAnswered {
		e.k.DeleteActiveRequest(e.ctx, svService, e.p2, expiry, id2)
		e.k.SetResponse(e.ctx, id2, types.NewResponse(e.p2, e.consumer, `{"code":200}`, "", e.ctxID, 1))
		rc.BatchResponseCount = 1
	}
	alreadyAnswered := verifChoice("alreadyAnswered", 2) == 1
	if alreadyAnswered {
		e.k.DeleteActiveRequest(e.ctx, svService, e.p1, expiry, id1)
		e.k.SetResponse(e.ctx, id1, types.NewResponse(e.p1, e.consumer, `{"code":200}`, "", e.ctxID, 1))
		rc.BatchResponseCount++
	}
	e.k.SetRequestContext(e.ctx, e.ctxID, rc)
	e.k.AddRequestBatchExpiration(e.ctx, e.ctxID, expiry)
	e.k.SetRequestBatchExpirationHeight(e.ctx, e.ctxID, expiry)
	responder, rightProvider := e.p1, true
	if verifChoice("responder", 2) == 1 {
		responder, rightProvider = e.p2, false
	}
	earned0 := e.bank.get(vModuleAddr(svFeeCollector), svDenom).BigInt()
	rc0, _ := e.k.GetRequestContext(e.ctx, e.ctxID)
	err, _ := e.verifDeliver(func() error {
		_, _, err := e.k.AddResponse(e.ctx, id1, responder, `{"code":200,"message":""}`, "")
		return err
	})
	rc1, still := e.k.GetRequestContext(e.ctx, e.ctxID)
	if err != nil {
		verifCover("rejected")
		verifAssert(!rightProvider || alreadyAnswered, "the addressed provider's first answer to an active request is accepted")
		verifAssert(still && rc1.BatchResponseCount == rc0.BatchResponseCount && rc1.BatchState == rc0.BatchState, "a rejected answer changes nothing")
		verifAssert(e.k.IsRequestActive(e.ctx, id1) == !alreadyAnswered, "a rejected answer leaves the request as it was")
		verifAssert(e.bank.get(vModuleAddr(svFeeCollector), svDenom).BigInt().Cmp(earned0) == 0, "a rejected answer moves no fee")
		return
	}
	verifCover("accepted")
	verifAssert(rightProvider && !alreadyAnswered, "only the addressed provider answers, and only once")
	verifAssert(!e.k.IsRequestActive(e.ctx, id1), "an answered request is no longer active")
	verifAssert(still && rc1.BatchResponseCount == rc0.BatchResponseCount+1, "the answer is counted exactly once")
	verifAssert((rc1.BatchState == types.BATCHCOMPLETED) == otherAnswered, "the batch completes exactly when every request has been answered")
	_, found := e.k.GetResponse(e.ctx, id1)
	verifAssert(found, "the response is stored under the request id")
}
