package service

import (
	"math/big"
	"time"

	sdkmath "cosmossdk.io/math"
	tmbytes "github.com/cometbft/cometbft/libs/bytes"
	sdk "github.com/cosmos/cosmos-sdk/types"

	"mods.irisnet.org/modules/service/types"
)

const (
	c12Schemas = `{"input":{"type":"object"},"output":{"type":"object"}}`
	c12Pricing = `{"price":"2stake"}`
)

// C12 service: a state reached through the keeper's own operations - a definition, one or two bindings
// (one possibly disabled, possibly with its deposit refunded), an optional withdraw address, one request
// context (one-off or repeated, created paused or running, possibly with a batch started by the end-block
// handler, possibly paused again) - is exported after the module's prepare-for-zero-height step, or as is.
// The export validates, imports without panic into a fresh store, the definition / binding / pricing / owner /
// withdraw-address / context queries answer identically and a second export equals the first.
func VerifC12_Service() {
	verifExpect("roundtrip", "refunded", "batchStarted", "killed")
	e := newSvEnv()
	zero := big.NewInt(0)
	if verifChoice("changedParams", 2) == 1 {
		// a parameter set the authority has changed (figures differ from the defaults; the deposit and pricing
		// used below stay acceptable under it)
		par := e.k.GetParams(e.ctx)
		par.MaxRequestTimeout, par.MinDepositMultiple, par.TxSizeLimit = par.MaxRequestTimeout+11, par.MinDepositMultiple+7, par.TxSizeLimit+13
		par.ArbitrationTimeLimit, par.ComplaintRetrospect = par.ArbitrationTimeLimit+time.Minute, par.ComplaintRetrospect+time.Hour
		if perr := e.k.SetParams(e.ctx, par); perr != nil {
			verifFail("valid params rejected: " + perr.Error())
		}
	}
	err := e.k.AddServiceDefinition(e.ctx, svService, "desc", []string{"t1"}, e.owner, "author", c12Schemas)
	verifAssert(err == nil, "a valid definition is added")
	dep := verifIntIn("deposit", big.NewInt(6000), verifPow2(64)) // above the default minimum deposit
	e.bank.fund(e.owner, svDenom, dep.Add(dep))
	err = e.k.AddServiceBinding(e.ctx, svService, e.p1, sdk.Coins{sdk.Coin{Denom: svDenom, Amount: dep}}, c12Pricing, 5, "{}", e.owner)
	if err != nil {
		verifPrint(err.Error())
	}
	verifAssert(err == nil, "a valid binding is added")
	providers := []sdk.AccAddress{e.p1}
	if verifChoice("secondBinding", 2) == 1 {
		err = e.k.AddServiceBinding(e.ctx, svService, e.p2, sdk.Coins{sdk.Coin{Denom: svDenom, Amount: dep}}, c12Pricing, 7, "{}", e.owner)
		verifAssert(err == nil, "a second valid binding is added")
		providers = append(providers, e.p2)
	}
	if verifChoice("withdrawAddress", 2) == 1 {
		e.k.SetWithdrawAddress(e.ctx, e.owner, vAddr(6))
	}
	// the consumer's request context
	e.bank.fund(e.consumer, svDenom, verifIntIn("consumerWallet", zero, verifPow2(40)))
	repeated := verifBool("repeated")
	state := types.RUNNING
	if verifChoice("createdPaused", 2) == 1 {
		state = types.PAUSED
	}
	freq, total := uint64(0), int64(0)
	if repeated {
		freq, total = uint64(svTimeout)+5, int64(3)
	}
	id, err := e.k.CreateRequestContext(e.ctx, svService, providers, e.consumer, `{"header":{},"body":{}}`, sdk.Coins{sdk.Coin{Denom: svDenom, Amount: sdkmath.NewInt(10)}},
		svTimeout, repeated, freq, total, state, 1, "")
	if err != nil {
		verifPrint(err.Error())
	}
	verifAssert(err == nil, "a valid request context is created")
	started := false
	if verifChoice("endBlock", 2) == 1 {
		EndBlocker(e.ctx, e.k)
		rc, _ := e.k.GetRequestContext(e.ctx, id)
		started = rc.BatchCounter > 0
	}
	refunded := false
	switch verifChoice("later", 4) {
	case 3: // the consumer ends a repeated context for good: it stays in the store as COMPLETED
		err = e.k.KillRequestContext(e.ctx, id, e.consumer)
		verifAssume(err == nil)
		verifCover("killed")
	case 1: // the first binding is disabled; after the waiting time its deposit may be refunded
		err = e.k.DisableServiceBinding(e.ctx, svService, e.p1, e.owner)
		verifAssume(err == nil)
		if verifChoice("refund", 2) == 1 {
			wait := e.k.ArbitrationTimeLimit(e.ctx) + e.k.ComplaintRetrospect(e.ctx)
			later := e.ctx.WithBlockTime(e.ctx.BlockTime().Add(wait + time.Second))
			err = e.k.RefundDeposit(later, svService, e.p1, e.owner)
			verifAssume(err == nil)
			refunded = true
		}
	case 2:
		err = e.k.PauseRequestContext(e.ctx, id, e.consumer)
		verifAssume(err == nil)
	}
	prep := verifChoice("prepForZeroHeight", 2) == 1
	if prep {
		panicked, what := verifCatch(func() { PrepForZeroHeightGenesis(e.ctx, e.k) })
		if panicked {
			verifPrint(what)
		}
		verifAssert(!panicked, "the prepare-for-zero-height step does not abort")
		verifAssert(e.reqEscrow().Sign() == 0, "after the prepare-for-zero-height step nothing is left in the request escrow (fees of in-flight requests back with the consumer, earned fees paid out)")
	}
	g := ExportGenesis(e.ctx, e.k)
	verr := types.ValidateGenesis(*g)
	if verr != nil {
		verifPrint(verr.Error())
	}
	rcNow, _ := e.k.GetRequestContext(e.ctx, id)
	runningAsIs := !prep && (rcNow.State != types.PAUSED || rcNow.BatchState != types.BATCHCOMPLETED)
	verifAssertKnown(verr == nil, "the exported genesis passes the module's own validation", "C12-service-running-context-as-is", runningAsIs)
	if verr != nil {
		return
	}
	e2 := newSvEnv()
	e2.bank.restore(e.bank.snapshot())
	panicked, what := verifCatch(func() { InitGenesis(e2.ctx, e2.k, *g) })
	if panicked {
		verifPrint(what)
	}
	verifAssert(!panicked, "the exported genesis imports without panic")
	verifCover("roundtrip")
	if refunded {
		verifCover("refunded")
	}
	if started {
		verifCover("batchStarted")
	}
	d1, ok1 := e.k.GetServiceDefinition(e.ctx, svService)
	d2, ok2 := e2.k.GetServiceDefinition(e2.ctx, svService)
	verifAssert(ok1 && ok2 && verifDeepEqual(d1, d2), "the definition answers identically after re-import")
	for _, p := range []sdk.AccAddress{e.p1, e.p2} {
		b1, ok1 := e.k.GetServiceBinding(e.ctx, svService, p)
		b2, ok2 := e2.k.GetServiceBinding(e2.ctx, svService, p)
		verifAssert(ok1 == ok2 && (!ok1 || verifDeepEqual(b1, b2)), "every binding answers identically after re-import")
		o1, f1 := e.k.GetOwner(e.ctx, p)
		o2, f2 := e2.k.GetOwner(e2.ctx, p)
		verifAssert(f1 == f2 && o1.Equals(o2), "every provider keeps its owner after re-import")
		verifAssert(verifDeepEqual(e.k.GetPricing(e.ctx, svService, p), e2.k.GetPricing(e2.ctx, svService, p)), "every binding keeps its pricing after re-import")
	}
	verifAssert(len(e.k.GetOwnerServiceBindings(e.ctx, e.owner, svService)) == len(e2.k.GetOwnerServiceBindings(e2.ctx, e.owner, svService)), "the bindings-by-owner query answers identically after re-import")
	verifAssert(e.k.GetWithdrawAddress(e.ctx, e.owner).Equals(e2.k.GetWithdrawAddress(e2.ctx, e.owner)), "the withdraw address answers identically after re-import")
	r1, ok1 := e.k.GetRequestContext(e.ctx, tmbytes.HexBytes(id))
	r2, ok2 := e2.k.GetRequestContext(e2.ctx, tmbytes.HexBytes(id))
	verifAssert(ok1 && ok2 && verifDeepEqual(r1, r2), "the request context answers identically after re-import")
	// the owner's providers (the index withdrawals by the owner walk)
	listProviders := func(x *svEnv) (ps []string) {
		it := x.k.OwnerProvidersIterator(x.ctx, x.owner)
		defer it.Close()
		for ; it.Valid(); it.Next() {
			ps = append(ps, string(it.Key()))
		}
		return
	}
	verifAssert(verifDeepEqual(listProviders(e), listProviders(e2)), "the owner's providers are listed identically after re-import")
	verifAssert(verifDeepEqual(e.k.GetParams(e.ctx), e2.k.GetParams(e2.ctx)), "the params answer identically after re-import")
	g2 := ExportGenesis(e2.ctx, e2.k)
	verifAssert(verifDeepEqual(*g, *g2), "a second export equals the first")
}
