package service

import (
	"bytes"

	sdkmath "cosmossdk.io/math"
	sdk "github.com/cosmos/cosmos-sdk/types"

	"mods.irisnet.org/modules/service/keeper"
	"mods.irisnet.org/modules/service/types"
)

type svKV struct{ k, v []byte }

func (e *svEnv) dump() []svKV {
	var out []svKV
	it := e.store().Iterator(nil, nil)
	defer it.Close()
	for ; it.Valid(); it.Next() {
		out = append(out, svKV{append([]byte{}, it.Key()...), append([]byte{}, it.Value()...)})
	}
	return out
}

// changedKeys lists the store keys whose presence or value differs between two dumps.
func svChangedKeys(a, b []svKV) [][]byte {
	var out [][]byte
	find := func(s []svKV, k []byte) ([]byte, bool) {
		for _, e := range s {
			if bytes.Equal(e.k, k) {
				return e.v, true
			}
		}
		return nil, false
	}
	for _, x := range a {
		if v, ok := find(b, x.k); !ok || !bytes.Equal(v, x.v) {
			out = append(out, x.k)
		}
	}
	for _, y := range b {
		if _, ok := find(a, y.k); !ok {
			out = append(out, y.k)
		}
	}
	return out
}

// C08: pause / start / kill / update of a request context through the message server, from an arbitrary
// context state: only the consumer of a context that is not owned by a module may do it; pause needs a
// running repeated context, start a paused one, kill a repeated one, update a context that is not
// completed; the operation changes the context record as stated and NOTHING else - in particular the
// schedule (the in-flight batch's expiration entry or the queued next batch) stays as it is, so batch
// n+1 still starts exactly one frequency after batch n; only a paused context with nothing scheduled
// is queued for the current height when it is started.
func VerifC08_ContextControl() { svContextControl(false) }

// the same for MsgUpdateRequestContext with symbolic new settings
func VerifC08_ContextUpdate() { svContextControl(true) }

func svContextControl(update bool) {
	verifExpect("accepted", "rejected")
	e := newSvEnv()
	e.bind(e.p1, sdkmath.NewInt(10), sdkmath.NewInt(10000), sdkmath.LegacyDec{}, 5, true)
	e.bind(e.p2, sdkmath.NewInt(10), sdkmath.NewInt(10000), sdkmath.LegacyDec{}, 5, true)
	repeated := update || verifChoice("repeated", 2) == 1 // update does not depend on the kind of context
	state := []types.RequestContextState{types.RUNNING, types.PAUSED, types.COMPLETED}[verifChoice("state", 3)]
	rc := e.context([]sdk.AccAddress{e.p1, e.p2}, sdkmath.NewInt(1000), 1, state, repeated)
	moduleOwned := verifChoice("moduleOwned", 2) == 1
	if moduleOwned {
		rc.ModuleName = "oracle"
	}
	rc.BatchCounter = 2
	// schedule: 0 batch in flight (expires later), 1 next batch queued at a later height, 2 nothing scheduled
	sched := verifChoice("schedule", 3)
	verifAssume(!(state == types.RUNNING && sched == 2)) // a running context always has something scheduled
	verifAssume(!(state == types.COMPLETED && sched == 1))
	later := svHeight + 5
	if !update {
		later = svHeight + 1 + 4*int64(verifChoice("later", 2))
	}
	switch sched {
	case 0:
		rc.BatchState, rc.BatchRequestCount = types.BATCHRUNNING, 2
		e.k.AddRequestBatchExpiration(e.ctx, e.ctxID, later)
	case 1:
		e.k.AddNewRequestBatch(e.ctx, e.ctxID, later)
	}
	e.k.SetRequestContext(e.ctx, e.ctxID, rc)
	caller := e.consumer
	isConsumer := verifChoice("caller", 2) == 0
	if !isConsumer {
		caller = vAddr(7)
	}
	srv := keeper.NewMsgServerImpl(e.k)
	op := 3
	if !update {
		op = verifChoice("op", 3)
	}
	before := e.dump()
	rc0, _ := e.k.GetRequestContext(e.ctx, e.ctxID)
	var err error
	id := e.ctxID.String()
	var upd *types.MsgUpdateRequestContext
	switch op {
	case 0:
		msg := &types.MsgPauseRequestContext{RequestContextId: id, Consumer: caller.String()}
		verifAssume(msg.ValidateBasic() == nil)
		err, _ = e.verifDeliver(func() error { _, err := srv.PauseRequestContext(e.ctx, msg); return err })
	case 1:
		msg := &types.MsgStartRequestContext{RequestContextId: id, Consumer: caller.String()}
		verifAssume(msg.ValidateBasic() == nil)
		err, _ = e.verifDeliver(func() error { _, err := srv.StartRequestContext(e.ctx, msg); return err })
	case 2:
		msg := &types.MsgKillRequestContext{RequestContextId: id, Consumer: caller.String()}
		verifAssume(msg.ValidateBasic() == nil)
		err, _ = e.verifDeliver(func() error { _, err := srv.KillRequestContext(e.ctx, msg); return err })
	case 3:
		upd = &types.MsgUpdateRequestContext{RequestContextId: id, Consumer: caller.String(),
			Timeout: verifInt64("newTimeout"), RepeatedFrequency: verifUint64("newFrequency"), RepeatedTotal: verifInt64("newTotal")}
		switch verifChoice("newLists", 3) {
		case 1:
			upd.Providers = []string{e.p1.String()}
		case 2:
			upd.ServiceFeeCap = sdk.Coins{sdk.Coin{Denom: svDenom, Amount: sdkmath.NewInt(500)}}
		}
		verifAssume(upd.ValidateBasic() == nil)
		err, _ = e.verifDeliver(func() error { _, err := srv.UpdateRequestContext(e.ctx, upd); return err })
	}
	after := e.dump()
	changed := svChangedKeys(before, after)
	rc1, _ := e.k.GetRequestContext(e.ctx, e.ctxID)
	ctxKey := types.GetRequestContextKey(e.ctxID)
	if err != nil {
		verifCover("rejected")
		verifAssert(len(changed) == 0, "a rejected control message changes nothing")
		switch op {
		case 0:
			verifAssert(!(isConsumer && !moduleOwned && repeated && state == types.RUNNING), "the consumer can pause a running repeated context")
		case 1:
			verifAssert(!(isConsumer && !moduleOwned && state == types.PAUSED), "the consumer can start a paused context")
		case 2:
			verifAssert(!(isConsumer && !moduleOwned && repeated), "the consumer can kill a repeated context")
		}
		return
	}
	verifCover("accepted")
	verifAssert(isConsumer, "only the consumer controls a request context")
	verifAssert(!moduleOwned, "a context owned by a module is not controlled through messages")
	// everything but the state / updated settings is kept
	same := func(a, b types.RequestContext) bool {
		return a.ServiceName == b.ServiceName && a.Consumer == b.Consumer && a.Input == b.Input && a.ModuleName == b.ModuleName &&
			a.Repeated == b.Repeated && a.BatchCounter == b.BatchCounter && a.BatchState == b.BatchState &&
			a.BatchRequestCount == b.BatchRequestCount && a.BatchResponseCount == b.BatchResponseCount &&
			a.BatchResponseThreshold == b.BatchResponseThreshold && a.ResponseThreshold == b.ResponseThreshold
	}
	verifAssert(same(rc0, rc1), "identity, counters and batch bookkeeping of the context are untouched")
	sameSettings := rc0.Timeout == rc1.Timeout && rc0.RepeatedFrequency == rc1.RepeatedFrequency && rc0.RepeatedTotal == rc1.RepeatedTotal &&
		len(rc0.Providers) == len(rc1.Providers) && rc0.ServiceFeeCap.Equal(rc1.ServiceFeeCap)
	onlyContext := len(changed) == 0 || (len(changed) == 1 && bytes.Equal(changed[0], ctxKey))
	switch op {
	case 0:
		verifAssert(repeated && state == types.RUNNING, "only a running repeated context can be paused")
		verifAssert(rc1.State == types.PAUSED && sameSettings, "pause sets the state to paused and nothing else")
		verifAssert(onlyContext, "pause leaves the schedule and every other record alone")
	case 1:
		verifAssert(state == types.PAUSED, "only a paused context can be started")
		verifAssert(rc1.State == types.RUNNING && sameSettings, "start sets the state to running and nothing else")
		if sched == 2 {
			verifAssert(e.store().Has(types.GetNewRequestBatchKey(e.ctxID, svHeight)) && len(changed) == 3, "a paused context with nothing scheduled is queued for the current height, once")
		} else {
			verifAssert(onlyContext, "start keeps the schedule of the in-flight or queued batch")
		}
	case 2:
		verifAssert(repeated, "only a repeated context can be killed")
		verifAssert(rc1.State == types.COMPLETED && sameSettings, "kill completes the context and nothing else")
		verifAssert(onlyContext, "kill leaves the schedule and every other record alone")
	case 3:
		verifAssert(state != types.COMPLETED, "a completed context cannot be updated")
		verifAssert(rc1.State == rc0.State, "update does not change the state")
		verifAssert(onlyContext, "update leaves the schedule and every other record alone")
		effT := rc0.Timeout
		if upd.Timeout != 0 {
			effT = upd.Timeout
		}
		effF := rc0.RepeatedFrequency
		if upd.RepeatedFrequency != 0 {
			effF = upd.RepeatedFrequency
		}
		verifAssert(rc1.Timeout == effT && rc1.RepeatedFrequency == effF, "timeout and frequency take the given values (0 keeps the old one)")
		verifAssert(effT <= e.k.MaxRequestTimeout(e.ctx) && effF >= uint64(effT), "accepted settings respect the maximum timeout and frequency >= timeout")
		if upd.RepeatedTotal != 0 {
			verifAssert(rc1.RepeatedTotal == upd.RepeatedTotal, "the total takes the given value")
			verifAssert(upd.RepeatedTotal < 0 || upd.RepeatedTotal >= int64(rc0.BatchCounter), "the total is never set below the batches already issued")
		} else {
			verifAssert(rc1.RepeatedTotal == rc0.RepeatedTotal, "total kept")
		}
		if len(upd.Providers) > 0 {
			verifAssert(len(rc1.Providers) == 1 && rc1.Providers[0] == e.p1.String(), "providers take the given list")
		} else {
			verifAssert(len(rc1.Providers) == len(rc0.Providers), "providers kept")
		}
		if !upd.ServiceFeeCap.Empty() {
			verifAssert(rc1.ServiceFeeCap.Equal(upd.ServiceFeeCap), "fee cap takes the given value")
		} else {
			verifAssert(rc1.ServiceFeeCap.Equal(rc0.ServiceFeeCap), "fee cap kept")
		}
	}
}
