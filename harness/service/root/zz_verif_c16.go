package service

import (
	"mods.irisnet.org/modules/service/types"
)

// C16 by genesis (service): an otherwise default genesis whose parameters are arbitrary in the numeric and
// decimal figures.
func VerifC16_Genesis() {
	verifExpect("imported", "refused")
	e := newSvEnv()
	e2 := newSvEnv() // a fresh store to import into (newSvEnv stores validated parameters in its own store)
	_ = e
	g := types.DefaultGenesisState()
	g.Params.MaxRequestTimeout = verifInt64("maxRequestTimeout")
	g.Params.MinDepositMultiple = verifInt64("minDepositMultiple")
	g.Params.ServiceFeeTax = verifDecAny("serviceFeeTax")
	g.Params.SlashFraction = verifDecAny("slashFraction")
	g.Params.TxSizeLimit = verifUint64("txSizeLimit")
	var vErr error
	vPanicked, _ := verifCatch(func() { vErr = g.Params.Validate() })
	before := e2.k.GetParams(e2.ctx)
	panicked, what := verifCatch(func() { InitGenesis(e2.ctx, e2.k, *g) })
	if panicked {
		verifCover("refused")
		_ = what // (a genesis may be refused for reasons beyond the parameters: the cover label "imported" guards against vacuity)
		return
	}
	verifCover("imported")
	_ = before
	verifAssert(!vPanicked && vErr == nil, "a parameter set rejected by validation is never stored by genesis")
	verifAssert(verifDeepEqual(e2.k.GetParams(e2.ctx), g.Params), "the imported parameters are the ones in force")
}
