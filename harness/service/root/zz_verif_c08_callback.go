package service

import (
	"math/big"

	sdkmath "cosmossdk.io/math"
	tmbytes "github.com/cometbft/cometbft/libs/bytes"
	sdk "github.com/cosmos/cosmos-sdk/types"

	"mods.irisnet.org/modules/service/types"
)

type svCall struct {
	outputs int
	failed  bool
}

// C08 callbacks: for a context owned by a module, the registered response callback fires exactly once per
// batch - when the last request is answered, or when the batch expires, or (for a batch that could not be
// issued at all) when its skipped slot expires - with the outputs and no error iff the response threshold
// was met.
func VerifC08_Callback() {
	verifExpect("answered-last", "expired", "skipped")
	e := newSvEnv()
	var calls []svCall
	if err := e.k.RegisterResponseCallback("oracle", func(ctx sdk.Context, id tmbytes.HexBytes, outputs []string, err error) {
		calls = append(calls, svCall{len(outputs), err != nil})
	}); err != nil {
		verifFail("callback registration refused")
	}
	_ = e.k.RegisterStateCallback("oracle", func(ctx sdk.Context, id tmbytes.HexBytes, cause string) {})
	one, w := big.NewInt(1), verifAmt(40)
	threshold := uint32(1 + verifChoice("threshold", 2))
	repeated := verifChoice("repeated", 2) == 1
	scenario := verifChoice("scenario", 3)
	if scenario == 2 {
		// a batch that cannot be issued: nobody is eligible when its slot comes up
		e.bind(e.p1, sdkmath.NewInt(10), sdkmath.NewInt(10000), sdkmath.LegacyDec{}, 5, false)
		e.bind(e.p2, sdkmath.NewInt(10), sdkmath.NewInt(10000), sdkmath.LegacyDec{}, 5, false)
		rc := e.context([]sdk.AccAddress{e.p1, e.p2}, sdkmath.NewInt(1000), threshold, types.RUNNING, repeated)
		rc.ModuleName, rc.RepeatedTotal = "oracle", -1
		e.k.SetRequestContext(e.ctx, e.ctxID, rc)
		e.k.AddNewRequestBatch(e.ctx, e.ctxID, svHeight)
		e.bank.fund(e.consumer, svDenom, sdkmath.NewInt(100000))
		EndBlocker(e.ctx, e.k) // the slot comes up: nothing can be issued
		firedAt := int64(0)
		for h := svHeight + 1; h <= svHeight+svTimeout; h++ {
			EndBlocker(e.ctx.WithBlockHeight(h), e.k)
			if firedAt == 0 && len(calls) > 0 {
				firedAt = h
			}
		}
		verifCover("skipped")
		// a skipped batch occupies its slot like any other: it expires one timeout after it was due, so that the
		// next batch of a repeated context still starts one frequency after this one
		verifAssert(firedAt == svHeight+svTimeout, "a batch that could not be issued expires one timeout after it was due, not earlier")
		verifAssert(len(calls) == 1, "the callback fires exactly once for a batch that could not be issued")
		verifAssert(len(calls) == 1 && calls[0].failed && calls[0].outputs == 0, "a skipped batch is reported as failed, without outputs")
		return
	}
	e.bind(e.p1, sdkmath.NewInt(10), sdkmath.NewInt(10000), sdkmath.LegacyDec{}, 5, true)
	e.bind(e.p2, sdkmath.NewInt(10), sdkmath.NewInt(10000), sdkmath.LegacyDec{}, 5, true)
	rc := e.context([]sdk.AccAddress{e.p1, e.p2}, sdkmath.NewInt(1000), threshold, types.RUNNING, repeated)
	rc.ModuleName, rc.RepeatedTotal = "oracle", -1
	fee := verifIntIn("fee", one, w)
	expiry := svHeight + 5
	rc.BatchCounter, rc.BatchState, rc.BatchRequestCount, rc.BatchResponseThreshold = 1, types.BATCHRUNNING, 2, threshold
	mk := func(idx int16, p sdk.AccAddress) tmbytes.HexBytes {
		id := types.GenerateRequestID(e.ctxID, 1, svHeight-5, idx)
		e.k.SetCompactRequest(e.ctx, id, types.NewCompactRequest(e.ctxID, 1, p, sdk.Coins{sdk.Coin{Denom: svDenom, Amount: fee}}, svHeight-5, expiry))
		e.k.AddActiveRequest(e.ctx, svService, p, expiry, id)
		return id
	}
	id1, id2 := mk(0, e.p1), mk(1, e.p2)
	e.bank.fund(vModuleAddr(types.RequestAccName), svDenom, fee.Add(fee))
	e.k.SetRequestContext(e.ctx, e.ctxID, rc)
	e.k.AddRequestBatchExpiration(e.ctx, e.ctxID, expiry)
	e.k.SetRequestBatchExpirationHeight(e.ctx, e.ctxID, expiry)
	// the first provider's answer may be an ERROR answer: an error result and no output - it settles the
	// request like any answer, but contributes no output towards the threshold
	firstIsError := verifChoice("firstAnswerIsError", 2) == 1
	good := 0
	answer := func(id tmbytes.HexBytes, p sdk.AccAddress) {
		var err error
		if firstIsError && p.Equals(e.p1) {
			_, _, err = e.k.AddResponse(e.ctx, id, p, `{"code":400,"message":"cannot serve"}`, "")
		} else {
			_, _, err = e.k.AddResponse(e.ctx, id, p, `{"code":200,"message":""}`, `{"header":{},"body":{"rate":1}}`)
			good++
		}
		verifAssert(err == nil, "an active request is answered by the provider it was addressed to, with a result or with an error")
	}
	answers := 0
	if verifChoice("firstAnswered", 2) == 1 {
		answer(id1, e.p1)
		answers++
		verifAssert(len(calls) == 0, "no callback while requests of the batch are still open")
	}
	if scenario == 0 {
		// the remaining provider(s) answer: the batch completes with the last answer
		if answers == 0 {
			answer(id1, e.p1)
			answers++
			verifAssert(len(calls) == 0, "no callback while requests of the batch are still open")
		}
		answer(id2, e.p2)
		answers++
		verifCover("answered-last")
		verifAssert(len(calls) == 1, "the callback fires exactly once when the last request is answered")
		// the batch's expiration height passes afterwards: nothing more
		for h := svHeight; h <= expiry; h++ {
			EndBlocker(e.ctx.WithBlockHeight(h), e.k)
		}
		verifAssert(len(calls) == 1, "a completed batch is not reported again when its expiration height passes")
	} else {
		for h := svHeight; h <= expiry; h++ {
			EndBlocker(e.ctx.WithBlockHeight(h), e.k)
		}
		verifCover("expired")
		verifAssert(len(calls) == 1, "the callback fires exactly once when the batch expires")
	}
	if len(calls) == 1 {
		verifAssert(calls[0].outputs == good, "the callback receives the outputs of the answers given (error answers carry none)")
		verifAssert(calls[0].failed == (good < int(threshold)), "the callback reports success iff the response threshold was met by outputs")
	}
}
