package service

import (
	"time"

	"bytes"
	"math/big"

	sdkmath "cosmossdk.io/math"
	tmbytes "github.com/cometbft/cometbft/libs/bytes"
	sdk "github.com/cosmos/cosmos-sdk/types"

	"mods.irisnet.org/modules/service/types"
)

// C11 (self-composition): one end-block of the service module on a state with two or three request
// contexts of the same consumer due for a new batch at this height (and possibly one batch expiring),
// executed twice from the same state: the same store, key for key, and the same balances - whatever order
// the runtime iterates its maps in.  The consumer's wallet is symbolic, so it may cover all, some or none
// of the batches: which contexts are served and which are paused for lack of funds must not depend on
// anything but chain data.
func VerifC11_ServiceEndBlock() {
	verifExpect("allServed", "someUnfunded")
	e := newSvEnv()
	one := big.NewInt(1)
	price := verifIntIn("price", one, verifPow2(40))
	e.bind(e.p1, price, sdkmath.NewInt(6000), sdkmath.LegacyDec{}, 5, true)
	if verifChoice("timedPromotion", 2) == 1 {
		// the provider's price is halved during a window around the block time: what a request costs is a
		// matter of the BLOCK's time, whatever the host's clock says
		pr := e.k.GetPricing(e.ctx, svService, e.p1)
		bt := e.ctx.BlockTime()
		pr.PromotionsByTime = []types.PromotionByTime{{StartTime: bt.Add(-time.Hour), EndTime: bt.Add(time.Hour), Discount: sdkmath.LegacyNewDecWithPrec(5, 1)}}
		e.k.SetPricing(e.ctx, svService, e.p1, pr)
	}
	timed := verifChoice("timedPromotion", 2) == 1
	n := 2 + verifChoice("thirdContext", 2)
	var ids []tmbytes.HexBytes
	for i := 0; i < n; i++ {
		id := types.GenerateRequestContextID(bytes.Repeat([]byte{byte(7 + i)}, 32), 0)
		rc := types.RequestContext{ServiceName: svService, Providers: []string{e.p1.String()}, Consumer: e.consumer.String(), Input: "{}",
			ServiceFeeCap: sdk.Coins{sdk.Coin{Denom: svDenom, Amount: sdkmath.NewIntFromBigInt(verifPow2(41))}}, Timeout: svTimeout, Repeated: true, RepeatedFrequency: uint64(svTimeout) + 5,
			RepeatedTotal: -1, ResponseThreshold: 1, BatchState: types.BATCHCOMPLETED, State: types.RUNNING}
		e.k.SetRequestContext(e.ctx, id, rc)
		e.k.AddNewRequestBatch(e.ctx, id, svHeight)
		ids = append(ids, id)
	}
	wallet := verifIntIn("consumerWallet", big.NewInt(0), verifPow2(44))
	e.bank.fund(e.consumer, svDenom, wallet)
	snapBank := e.bank.snapshot()
	snapStore := append([]vKV{}, e.store().ents...)
	run := func() ([]svKV, *big.Int, *big.Int) {
		e.bank.restore(snapBank.snapshot())
		e.store().ents = append([]vKV{}, snapStore...)
		EndBlocker(e.ctx, e.k)
		return e.dump(), e.bal(e.consumer), e.reqEscrow()
	}
	verifMapOrderSymbolic(true)
	verifClockSymbolic(true)
	same := true
	for try := 0; try < verifTries() && same; try++ {
		d1, c1, q1 := run()
		d2, c2, q2 := run()
		same = len(svChangedKeys(d1, d2)) == 0 && c1.Cmp(c2) == 0 && q1.Cmp(q2) == 0
	}
	verifClockSymbolic(false)
	verifMapOrderSymbolic(false)
	served := 0
	for _, id := range ids {
		if rc, ok := e.k.GetRequestContext(e.ctx, id); ok && rc.BatchCounter == 1 {
			served++
		}
	}
	if served == n {
		verifCover("allServed")
	} else {
		verifCover("someUnfunded")
	}
	verifAssert(same, "two executions of the same end-block on the same state end in the same state")
	// and the fee of every request issued is the price in force at the BLOCK's time
	fee := price.BigInt()
	if timed {
		fee = new(big.Int).Quo(fee, big.NewInt(2))
	}
	for _, id := range ids {
		it := e.k.RequestsIteratorByReqCtx(e.ctx, id, 1)
		for ; it.Valid(); it.Next() {
			r, ok := e.k.GetRequest(e.ctx, tmbytes.HexBytes(it.Key()[1:]))
			verifAssert(ok && r.ServiceFee.AmountOf(svDenom).BigInt().Cmp(fee) == 0, "every request issued records the price in force at the block's time as its fee")
		}
		it.Close()
	}
}
