package keeper

import (
	"math/big"
	"time"

	sdkmath "cosmossdk.io/math"
	sdk "github.com/cosmos/cosmos-sdk/types"

	"mods.irisnet.org/modules/service/types"
)

// C07 deposits: one binding-lifecycle message (update / enable / disable / refund-deposit) through the
// message server, from an arbitrary binding state.  The deposit escrow keeps equalling the sum of the
// recorded deposits (tracked binding + the other bindings); coins move only between the owner and the
// escrow, by exactly the stated deposit (update, enable) or exactly the recorded deposit (refund, only
// once the binding is disabled and the waiting time is over); a stranger changes nothing; a refused
// message changes nothing.
func VerifC07_BindingDeposit() {
	verifExpect("done", "refused")
	e := newSvEnv(false)
	zero, one, w := big.NewInt(0), big.NewInt(1), verifAmt(64)
	recorded := verifIntIn("recorded", zero, w)
	others := verifIntIn("othersRecorded", zero, w)
	available := verifBool("available")
	disabledAt := verifInt64("disabledAt")
	now := verifInt64("now")
	verifAssume(disabledAt >= 0 && disabledAt <= now && now < 1<<32)
	dep := sdk.Coins{}
	if recorded.IsPositive() {
		dep = svCoins(svDenom, recorded)
	}
	b := types.NewServiceBinding(svService, e.p1, dep, "{}", 5, "{}", available, time.Time{}, e.owner)
	if !available {
		b.DisabledTime = time.Unix(disabledAt, 0)
	}
	e.k.SetServiceBinding(e.ctx, b)
	e.k.SetOwnerServiceBinding(e.ctx, b)
	e.k.SetOwner(e.ctx, e.p1, e.owner)
	e.k.SetOwnerProvider(e.ctx, e.owner, e.p1)
	e.k.SetPricing(e.ctx, svService, e.p1, types.Pricing{Price: svCoins(svDenom, verifIntIn("price", one, verifAmt(40)))})
	// the other bindings' deposits sit in the same escrow
	b2 := types.NewServiceBinding(svService, e.p2, svCoins(svDenom, others.Add(sdkmath.OneInt())), "{}", 5, "{}", true, time.Time{}, e.owner2)
	e.k.SetServiceBinding(e.ctx, b2)
	e.bank.fund(vModuleAddr(types.DepositAccName), svDenom, recorded.Add(others).Add(sdkmath.OneInt()))
	e.bank.fund(e.owner, svDenom, verifIntIn("ownerWallet", zero, verifAmt(66)))
	actor := e.owner
	isOwner := verifChoice("actor", 2) == 0
	if !isOwner {
		actor = e.owner2
		e.bank.fund(e.owner2, svDenom, verifIntIn("strangerWallet", zero, verifAmt(66)))
	}
	amt := verifIntIn("deposit", zero, w)
	var deposit sdk.Coins
	if amt.IsPositive() {
		deposit = svCoins(svDenom, amt)
	}
	ctx := e.ctx.WithBlockTime(time.Unix(now, 0))
	srv := NewMsgServerImpl(e.k)
	op := verifChoice("op", 4)
	esc0, w0, s0 := e.depEscrow(svDenom), e.bank.get(e.owner, svDenom).BigInt(), e.bank.get(e.owner2, svDenom).BigInt()
	var err error
	switch op {
	case 0: // update: deposit alone, or together with a new quality-of-service figure
		qos := uint64(verifChoice("newQoS", 3)) * 7 // 0 (unchanged), 7, 14
		msg := &types.MsgUpdateServiceBinding{ServiceName: svService, Provider: e.p1.String(), Deposit: deposit, QoS: qos, Owner: actor.String()}
		verifAssume(msg.ValidateBasic() == nil)
		err, _ = e.verifDeliver(func() error { _, err := srv.UpdateServiceBinding(ctx, msg); return err })
	case 1:
		msg := &types.MsgEnableServiceBinding{ServiceName: svService, Provider: e.p1.String(), Deposit: deposit, Owner: actor.String()}
		verifAssume(msg.ValidateBasic() == nil)
		err, _ = e.verifDeliver(func() error { _, err := srv.EnableServiceBinding(ctx, msg); return err })
	case 2:
		msg := &types.MsgDisableServiceBinding{ServiceName: svService, Provider: e.p1.String(), Owner: actor.String()}
		verifAssume(msg.ValidateBasic() == nil)
		err, _ = e.verifDeliver(func() error { _, err := srv.DisableServiceBinding(ctx, msg); return err })
	case 3:
		msg := &types.MsgRefundServiceDeposit{ServiceName: svService, Provider: e.p1.String(), Owner: actor.String()}
		verifAssume(msg.ValidateBasic() == nil)
		err, _ = e.verifDeliver(func() error { _, err := srv.RefundServiceDeposit(ctx, msg); return err })
	}
	b1, _ := e.k.GetServiceBinding(ctx, svService, e.p1)
	rec1 := b1.Deposit.AmountOf(svDenom).BigInt()
	esc1, w1, s1 := e.depEscrow(svDenom), e.bank.get(e.owner, svDenom).BigInt(), e.bank.get(e.owner2, svDenom).BigInt()
	// the escrow identity, whatever happened
	verifAssert(esc1.Cmp(verifAdd(rec1, others.BigInt(), one)) == 0, "the deposit escrow equals the sum of the recorded deposits")
	verifAssert(s1.Cmp(s0) == 0, "nobody but the binding's owner pays or receives deposit coins")
	if err != nil {
		verifCover("refused")
		verifAssert(esc1.Cmp(esc0) == 0 && w1.Cmp(w0) == 0 && rec1.Cmp(recorded.BigInt()) == 0 && b1.Available == available, "a refused binding message changes nothing")
		return
	}
	verifCover("done")
	verifAssert(isOwner, "only the binding's owner manages it")
	switch op {
	case 0, 1:
		verifAssert(verifSub(rec1, recorded.BigInt()).Cmp(amt.BigInt()) == 0 && verifSub(esc1, esc0).Cmp(amt.BigInt()) == 0 && verifSub(w0, w1).Cmp(amt.BigInt()) == 0,
			"exactly the stated deposit moves from the owner into the escrow and onto the record")
		if op == 1 {
			verifAssert(!available && b1.Available, "enable turns an unavailable binding available")
		}
	case 2:
		verifAssert(available && !b1.Available && rec1.Cmp(recorded.BigInt()) == 0 && esc1.Cmp(esc0) == 0, "disable moves no coins")
		verifAssert(b1.DisabledTime.Equal(ctx.BlockTime()), "disable records the block time")
	case 3:
		verifAssert(!available && recorded.IsPositive(), "only a disabled binding with a deposit is refunded")
		wait := e.k.ArbitrationTimeLimit(ctx) + e.k.ComplaintRetrospect(ctx)
		verifAssert(!ctx.BlockTime().Before(time.Unix(disabledAt, 0).Add(wait)), "the deposit is refunded only after the arbitration and complaint periods")
		verifAssert(rec1.Sign() == 0 && verifSub(esc0, esc1).Cmp(recorded.BigInt()) == 0 && verifSub(w1, w0).Cmp(recorded.BigInt()) == 0, "exactly the recorded deposit returns to the owner, once")
	}
}
