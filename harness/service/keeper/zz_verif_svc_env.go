package keeper

import (
	"math/big"

	sdkmath "cosmossdk.io/math"
	sdk "github.com/cosmos/cosmos-sdk/types"
	authtypes "github.com/cosmos/cosmos-sdk/x/auth/types"

	"mods.irisnet.org/modules/service/types"
)

const (
	svFeeCollector = "fee_collector"
	svDenom        = "stake"
	svDenom2       = "uatom"
	svService      = "price-svc"
)

type svEnv struct {
	*vEnv
	k                               Keeper
	owner, owner2, p1, p2, consumer sdk.AccAddress
}

func newSvEnv(symbolicParams bool) *svEnv {
	e := &svEnv{vEnv: newVEnv(types.StoreKey, 20, svDenom, svDenom2)}
	e.bank.modules[types.DepositAccName] = []string{authtypes.Burner}
	e.bank.modules[types.RequestAccName] = nil
	e.bank.modules[svFeeCollector] = nil
	e.owner, e.owner2, e.p1, e.p2, e.consumer = vAddr(1), vAddr(2), vAddr(3), vAddr(4), vAddr(5)
	e.k = NewKeeper(e.cdc, e.key, e.acc, e.bank, svFeeCollector, vAddr(9).String()) // the app's own constructor
	p := types.DefaultParams()
	if symbolicParams {
		e18 := verifPow10(18)
		p.ServiceFeeTax = verifDec("feeTax", big.NewInt(0), e18)
		p.SlashFraction = verifDec("slashFraction", big.NewInt(0), e18)
		verifAssume(p.Validate() == nil)
	}
	if err := e.k.SetParams(e.ctx, p); err != nil {
		verifFail("validated params rejected")
	}
	return e
}

func svCoins(d string, a sdkmath.Int) sdk.Coins { return sdk.Coins{sdk.Coin{Denom: d, Amount: a}} }
func (e *svEnv) reqEscrow(d string) *big.Int {
	return e.bank.get(vModuleAddr(types.RequestAccName), d).BigInt()
}
func (e *svEnv) depEscrow(d string) *big.Int {
	return e.bank.get(vModuleAddr(types.DepositAccName), d).BigInt()
}
func (e *svEnv) feeCol(d string) *big.Int { return e.bank.get(vModuleAddr(svFeeCollector), d).BigInt() }
func (e *svEnv) earned(p sdk.AccAddress, d string) *big.Int {
	f, _ := e.k.GetEarnedFees(e.ctx, p)
	return f.AmountOf(d).BigInt()
}
func (e *svEnv) ownerEarned(o sdk.AccAddress, d string) *big.Int {
	f, _ := e.k.GetOwnerEarnedFees(e.ctx, o)
	return f.AmountOf(d).BigInt()
}
