package keeper

import (
	"math/big"

	sdk "github.com/cosmos/cosmos-sdk/types"
)

// C07: answering a request credits the provider (and its owner's tally) with fee - floor(fee*tax)
// and sends floor(fee*tax) from the request escrow to the fee pool.
func VerifC07_AddEarnedFee() {
	verifExpect("credited")
	e := newSvEnv(true)
	zero, one, w := big.NewInt(0), big.NewInt(1), verifAmt(64)
	e.k.SetOwner(e.ctx, e.p1, e.owner)
	e.k.SetOwnerProvider(e.ctx, e.owner, e.p1)
	ep0 := verifIntIn("earnedProvider", zero, w)
	eo0 := verifIntIn("earnedOwnerOthers", zero, w) // earned by the owner's other providers
	if ep0.IsPositive() {
		e.k.SetEarnedFees(e.ctx, e.p1, svCoins(svDenom, ep0))
	}
	if ep0.Add(eo0).IsPositive() {
		e.k.SetOwnerEarnedFees(e.ctx, e.owner, svCoins(svDenom, ep0.Add(eo0)))
	}
	fee := verifIntIn("fee", one, w)
	escrow := verifIntIn("escrowOthers", zero, w)
	e.bank.fund(vModuleAddr("service_request_account"), svDenom, fee.Add(ep0).Add(eo0).Add(escrow)) // S2
	r0, c0 := e.reqEscrow(svDenom), e.feeCol(svDenom)
	tax := e.k.ServiceFeeTax(e.ctx).BigInt()
	err := e.k.AddEarnedFee(e.ctx, e.p1, svCoins(svDenom, fee))
	verifAssert(err == nil, "crediting an answered request's fee from an invariant state never fails")
	verifCover("credited")
	taxAmt := verifSub(e.feeCol(svDenom), c0)
	e18 := verifPow10(18)
	// taxAmt = floor(fee*tax)
	verifAssert(verifMul(taxAmt, e18).Cmp(verifMul(fee.BigInt(), tax)) <= 0 && verifMul(verifAdd(taxAmt, one), e18).Cmp(verifMul(fee.BigInt(), tax)) > 0, "the fee pool receives floor(fee*tax)")
	verifAssert(verifSub(r0, e.reqEscrow(svDenom)).Cmp(taxAmt) == 0, "only the tax leaves the request escrow")
	net := verifSub(fee.BigInt(), taxAmt)
	verifAssert(verifSub(e.earned(e.p1, svDenom), ep0.BigInt()).Cmp(net) == 0, "provider tally grows by fee minus tax")
	verifAssert(verifSub(e.ownerEarned(e.owner, svDenom), ep0.Add(eo0).BigInt()).Cmp(net) == 0, "owner tally grows by the same amount")
}

// C07: withdrawing pays exactly the tallies it deletes; afterwards the owner-side tally still equals
// the sum of the remaining provider tallies, per denom (no stale entry that could be paid twice).
func VerifC07_Withdraw() {
	verifExpect("withdrawn", "refused")
	e := newSvEnv(false)
	zero, w := big.NewInt(0), verifAmt(64)
	for _, p := range []sdk.AccAddress{e.p1, e.p2} {
		e.k.SetOwner(e.ctx, p, e.owner)
		e.k.SetOwnerProvider(e.ctx, e.owner, p)
	}
	// provider 1 earned in two denoms, provider 2 in the first only
	a1, b1, a2 := verifIntIn("p1stake", zero, w), verifIntIn("p1atom", zero, w), verifIntIn("p2stake", zero, w)
	set := func(p sdk.AccAddress, d string, a sdk.Coin) {
		if a.Amount.IsPositive() {
			e.k.SetEarnedFees(e.ctx, p, sdk.Coins{a})
		}
		_ = d
	}
	set(e.p1, svDenom, sdk.Coin{Denom: svDenom, Amount: a1})
	set(e.p1, svDenom2, sdk.Coin{Denom: svDenom2, Amount: b1})
	set(e.p2, svDenom, sdk.Coin{Denom: svDenom, Amount: a2})
	if a1.Add(a2).IsPositive() {
		e.k.SetOwnerEarnedFees(e.ctx, e.owner, svCoins(svDenom, a1.Add(a2)))
	}
	if b1.IsPositive() {
		e.k.SetOwnerEarnedFees(e.ctx, e.owner, svCoins(svDenom2, b1))
	}
	e.bank.fund(vModuleAddr("service_request_account"), svDenom, a1.Add(a2).Add(verifIntIn("restStake", zero, w)))
	e.bank.fund(vModuleAddr("service_request_account"), svDenom2, b1.Add(verifIntIn("restAtom", zero, w)))
	actor := e.owner
	if verifChoice("actor", 2) == 1 {
		actor = e.owner2
	}
	var provider sdk.AccAddress
	if verifChoice("which", 2) == 0 {
		provider = e.p1
	}
	w0s, w0a := e.bank.get(actor, svDenom).BigInt(), e.bank.get(actor, svDenom2).BigInt()
	r0s, r0a := e.reqEscrow(svDenom), e.reqEscrow(svDenom2)
	err, _ := e.verifDeliver(func() error { return e.k.WithdrawEarnedFees(e.ctx, actor, provider) })
	paidS, paidA := verifSub(e.bank.get(actor, svDenom).BigInt(), w0s), verifSub(e.bank.get(actor, svDenom2).BigInt(), w0a)
	if err != nil {
		verifCover("refused")
		verifAssert(paidS.Sign() == 0 && paidA.Sign() == 0 && e.reqEscrow(svDenom).Cmp(r0s) == 0, "a refused withdrawal pays nothing")
		return
	}
	verifCover("withdrawn")
	verifAssert(verifSub(r0s, e.reqEscrow(svDenom)).Cmp(paidS) == 0 && verifSub(r0a, e.reqEscrow(svDenom2)).Cmp(paidA) == 0, "what is paid comes out of the request escrow")
	if actor.Equals(e.owner2) {
		// a stranger owns nothing here: nothing may be paid to them
		verifAssert(paidS.Sign() == 0 && paidA.Sign() == 0 && provider == nil, "only the owner withdraws a provider's earnings")
		return
	}
	if provider != nil {
		verifAssert(paidS.Cmp(a1.BigInt()) == 0 && paidA.Cmp(b1.BigInt()) == 0, "withdrawal pays exactly the provider's tallies")
		verifAssert(e.earned(e.p1, svDenom).Sign() == 0 && e.earned(e.p1, svDenom2).Sign() == 0 && e.earned(e.p2, svDenom).Cmp(a2.BigInt()) == 0, "the withdrawn tallies are deleted, others untouched")
	} else {
		verifAssert(paidS.Cmp(a1.Add(a2).BigInt()) == 0 && paidA.Cmp(b1.BigInt()) == 0, "withdraw-all pays exactly the owner's tallies")
		verifAssert(e.earned(e.p1, svDenom).Sign() == 0 && e.earned(e.p2, svDenom).Sign() == 0 && e.earned(e.p1, svDenom2).Sign() == 0, "all provider tallies are deleted")
	}
	// S3: owner tally == sum of remaining provider tallies, per denom
	stale := provider != nil && b1.IsPositive() && a2.IsPositive()
	verifAssertKnown(e.ownerEarned(e.owner, svDenom).Cmp(verifAdd(e.earned(e.p1, svDenom), e.earned(e.p2, svDenom))) == 0 &&
		e.ownerEarned(e.owner, svDenom2).Cmp(e.earned(e.p1, svDenom2)) == 0,
		"owner-side tally equals the sum of its providers' tallies after a withdrawal", "C07-stale-owner-tally", stale)
}
