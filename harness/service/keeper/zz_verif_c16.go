package keeper

import (
	"math/big"
	"time"

	sdkmath "cosmossdk.io/math"
	sdk "github.com/cosmos/cosmos-sdk/types"

	"mods.irisnet.org/modules/service/types"
)

// svAnyParams: one group of parameters is arbitrary at a time (numbers / decimals / coins and
// denominations), the others keep their default values - the groups are validated independently.
func svAnyParams() types.Params {
	p := types.DefaultParams()
	switch verifChoice("group", 3) {
	case 0:
		p.MaxRequestTimeout, p.MinDepositMultiple = verifInt64("maxRequestTimeout"), verifInt64("minDepositMultiple")
		p.ComplaintRetrospect, p.ArbitrationTimeLimit = time.Duration(verifInt64("complaintRetrospect")), time.Duration(verifInt64("arbitrationTimeLimit"))
		p.TxSizeLimit, p.RestrictedServiceFeeDenom = verifUint64("txSizeLimit"), verifBool("restricted")
	case 1:
		p.ServiceFeeTax, p.SlashFraction = verifDecAny("feeTax"), verifDecAny("slashFraction")
	case 2:
		p.MinDeposit = sdk.Coins{sdk.Coin{Denom: verifDenomAny("minDepositDenom", svDenom), Amount: verifIntAny("minDeposit")}}
		p.BaseDenom = verifDenomAny("baseDenom", svDenom)
	}
	return p
}

// C16 service: params change only by authority; a set the validation rejects (or panics on) is never stored.
func VerifC16_UpdateParams() {
	verifExpect("stored", "refused")
	e := newSvEnv(false)
	before := e.k.GetParams(e.ctx)
	p := svAnyParams()
	rightAuthority := verifChoice("authority", 2) == 0
	auth := e.k.authority
	if !rightAuthority {
		auth = e.consumer.String()
	}
	var vErr error
	vPanicked, _ := verifCatch(func() { vErr = p.Validate() })
	err, _ := e.verifDeliver(func() error {
		_, err := NewMsgServerImpl(e.k).UpdateParams(e.ctx, &types.MsgUpdateParams{Authority: auth, Params: p})
		return err
	})
	after := e.k.GetParams(e.ctx)
	if err != nil {
		verifCover("refused")
		verifAssert(verifDeepEqual(before, after), "refused update leaves params unchanged")
		return
	}
	verifCover("stored")
	verifAssert(rightAuthority, "only the configured authority changes params")
	verifAssert(!vPanicked && vErr == nil, "a parameter set rejected by validation is never stored")
	verifAssert(verifDeepEqual(after, p), "stored params are the submitted ones")
}

// C16 service consumers: under every validated parameter set the operations that read the parameters end
// in success or an ordinary error - never a panic: the minimum deposit of a binding, crediting an answered
// request's fee (tax split), slashing a binding (fraction of the deposit in the base denomination).
func VerifC16_Consumers() {
	verifExpect("ok")
	e := newSvEnv(false)
	p := svAnyParams()
	var vErr error
	vPanicked, _ := verifCatch(func() { vErr = p.Validate() })
	verifAssume(!vPanicked && vErr == nil)
	if err := e.k.SetParams(e.ctx, p); err != nil {
		verifFail("validated params rejected")
	}
	one, w := big.NewInt(1), verifPow2(64)
	var what string
	var panicked bool
	switch verifChoice("op", 3) {
	case 0:
		price := verifIntIn("price", big.NewInt(0), w)
		_, panicked = e.verifDeliver(func() error {
			_, err := e.k.GetMinDeposit(e.ctx, types.Pricing{Price: sdk.Coins{sdk.Coin{Denom: p.BaseDenom, Amount: price}}})
			return err
		})
		what = "GetMinDeposit"
	case 1:
		fee := verifIntIn("fee", one, w)
		e.k.SetOwner(e.ctx, e.p1, e.owner)
		e.k.SetOwnerProvider(e.ctx, e.owner, e.p1)
		e.bank.fund(vModuleAddr(types.RequestAccName), svDenom, fee)
		_, panicked = e.verifDeliver(func() error { return e.k.AddEarnedFee(e.ctx, e.p1, svCoins(svDenom, fee)) })
		what = "AddEarnedFee"
	case 2:
		deposit := verifIntIn("deposit", one, w)
		b := types.NewServiceBinding(svService, e.p1, sdk.Coins{sdk.Coin{Denom: p.BaseDenom, Amount: deposit}}, "{}", 5, "{}", true, time.Time{}, e.owner)
		e.k.SetServiceBinding(e.ctx, b)
		e.k.SetPricing(e.ctx, svService, e.p1, types.Pricing{Price: sdk.Coins{sdk.Coin{Denom: p.BaseDenom, Amount: sdkmath.NewInt(10)}}})
		e.bank.denoms = append(e.bank.denoms, p.BaseDenom)
		e.bank.fund(vModuleAddr(types.DepositAccName), p.BaseDenom, deposit)
		rcID := types.GenerateRequestContextID(make([]byte, 32), 0)
		id := types.GenerateRequestID(rcID, 1, 10, 0)
		e.k.SetRequestContext(e.ctx, rcID, types.RequestContext{ServiceName: svService, Consumer: e.consumer.String()})
		e.k.SetCompactRequest(e.ctx, id, types.NewCompactRequest(rcID, 1, e.p1, sdk.Coins{sdk.Coin{Denom: p.BaseDenom, Amount: sdkmath.NewInt(1)}}, 10, 20))
		_, panicked = e.verifDeliver(func() error { return e.k.Slash(e.ctx, id) })
		what = "Slash"
	}
	verifCover("ok")
	verifAssert(!panicked, "validated params never make an operation panic: "+what)
}
