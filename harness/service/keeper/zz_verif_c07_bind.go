package keeper

import (
	"math/big"
	"time"

	sdkmath "cosmossdk.io/math"

	"mods.irisnet.org/modules/service/types"
)

const (
	svSchemas = `{"input":{"type":"object"},"output":{"type":"object"}}`
)

// C07 deposits, first step of a binding's life: MsgBindService through the message server, from a state
// with a definition, possibly an earlier binding of the same provider (same service or another one) and
// other owners' deposits in the escrow.  Accepted iff the service is defined, the (service, provider)
// pair is new, the provider is not owned by somebody else, the deposit is in the base denomination and
// at least max(price x multiple, configured minimum); then exactly the stated deposit moves from the
// owner's wallet into the deposit escrow and onto the record, the binding is available, priced as stated
// and owned by the sender.  The escrow keeps equalling the sum of all recorded deposits.  A refused
// message changes nothing.
func VerifC07_Bind() {
	verifExpect("bound", "refused")
	e := newSvEnv(false)
	zero, one, w := big.NewInt(0), big.NewInt(1), verifAmt(64)
	defined := verifChoice("defined", 2) == 1
	if defined {
		if err := e.k.AddServiceDefinition(e.ctx, svService, "desc", []string{"t1"}, e.owner2, "author", svSchemas); err != nil {
			verifFail("definition refused: " + err.Error())
		}
	}
	// what the provider address is already known for
	prior := verifChoice("prior", 4) // 0 nothing; 1 bound to ANOTHER service by the same owner; 2 ... by another owner; 3 bound to THIS service already
	others := verifIntIn("othersRecorded", zero, w)
	priorDep := sdkmath.ZeroInt()
	priorOwner := e.owner
	if prior == 2 {
		priorOwner = e.owner2
	}
	if prior != 0 {
		priorDep = verifIntIn("priorDeposit", one, w)
		name := "other-svc"
		if prior == 3 {
			name = svService
		}
		b := types.NewServiceBinding(name, e.p1, svCoins(svDenom, priorDep), `{"price":"1stake"}`, 5, "{}", true, time.Time{}, priorOwner)
		e.k.SetServiceBinding(e.ctx, b)
		e.k.SetOwnerServiceBinding(e.ctx, b)
		e.k.SetOwner(e.ctx, e.p1, priorOwner)
		e.k.SetOwnerProvider(e.ctx, priorOwner, e.p1)
	}
	b2 := types.NewServiceBinding(svService, e.p2, svCoins(svDenom, others.Add(sdkmath.OneInt())), `{"price":"1stake"}`, 5, "{}", true, time.Time{}, e.owner2)
	e.k.SetServiceBinding(e.ctx, b2)
	e.bank.fund(vModuleAddr(types.DepositAccName), svDenom, priorDep.Add(others).Add(sdkmath.OneInt()))
	e.bank.fund(e.owner, svDenom, verifIntIn("ownerWallet", zero, verifAmt(66)))
	e.bank.fund(e.owner, svDenom2, sdkmath.NewInt(1_000_000))
	amt := verifIntIn("deposit", one, w)
	depDenom := svDenom
	if verifChoice("depositDenom", 2) == 1 {
		depDenom = svDenom2
	}
	priceSel := verifChoice("price", 3)
	pricing := []string{`{"price":"2stake"}`, `{"price":"7stake"}`, `{"price":"0stake"}`}[priceSel]
	price := []int64{2, 7, 0}[priceSel]
	qos := uint64(5 + 200*verifChoice("qosTooLarge", 2))
	msg := &types.MsgBindService{ServiceName: svService, Provider: e.p1.String(), Deposit: svCoins(depDenom, amt), Pricing: pricing, QoS: qos, Options: "{}", Owner: e.owner.String()}
	verifAssume(msg.ValidateBasic() == nil)
	esc0, w0, o20 := e.depEscrow(svDenom), e.bank.get(e.owner, svDenom).BigInt(), e.bank.get(e.owner2, svDenom).BigInt()
	x0, wx0 := e.depEscrow(svDenom2), e.bank.get(e.owner, svDenom2).BigInt()
	err, _ := e.verifDeliver(func() error { _, err := NewMsgServerImpl(e.k).BindService(e.ctx, msg); return err })
	esc1, w1, o21 := e.depEscrow(svDenom), e.bank.get(e.owner, svDenom).BigInt(), e.bank.get(e.owner2, svDenom).BigInt()
	b1, found := e.k.GetServiceBinding(e.ctx, svService, e.p1)
	recorded := big.NewInt(0)
	if found && prior != 3 {
		recorded = b1.Deposit.AmountOf(svDenom).BigInt()
	}
	verifAssert(esc1.Cmp(verifAdd(recorded, priorDep.BigInt(), others.BigInt(), one)) == 0, "the deposit escrow equals the sum of the recorded deposits")
	verifAssert(o21.Cmp(o20) == 0 && e.depEscrow(svDenom2).Cmp(x0) == 0 && e.bank.get(e.owner, svDenom2).BigInt().Cmp(wx0) == 0, "nothing but the owner's base-denomination deposit moves")
	if err != nil {
		verifCover("refused")
		verifAssert(esc1.Cmp(esc0) == 0 && w1.Cmp(w0) == 0 && found == (prior == 3), "a refused binding changes nothing")
		minDep := big.NewInt(price * e.k.MinDepositMultiple(e.ctx))
		if pm := e.k.MinDeposit(e.ctx).AmountOf(svDenom).BigInt(); price != 0 && minDep.Cmp(pm) < 0 {
			minDep = pm
		}
		mustAccept := defined && (prior == 0 || prior == 1) && depDenom == svDenom && qos == 5 && amt.BigInt().Cmp(minDep) >= 0 && w0.Cmp(amt.BigInt()) >= 0
		verifAssert(!mustAccept, "a well-formed binding with a sufficient deposit by the provider's owner is accepted")
		return
	}
	verifCover("bound")
	verifAssert(defined, "only a defined service can be bound")
	verifAssert(prior == 0 || prior == 1, "a provider bound to this service already, or owned by somebody else, is refused")
	verifAssert(depDenom == svDenom, "deposits are accepted in the base denomination only")
	verifAssert(qos == 5, "a quality-of-service figure above the maximum request timeout is refused")
	verifAssert(recorded.Cmp(amt.BigInt()) == 0 && verifSub(esc1, esc0).Cmp(amt.BigInt()) == 0 && verifSub(w0, w1).Cmp(amt.BigInt()) == 0, "exactly the stated deposit moves from the owner into the escrow and onto the record")
	minDep := big.NewInt(price * e.k.MinDepositMultiple(e.ctx))
	if pm := e.k.MinDeposit(e.ctx).AmountOf(svDenom).BigInt(); price != 0 && minDep.Cmp(pm) < 0 {
		minDep = pm
	}
	verifAssert(amt.BigInt().Cmp(minDep) >= 0, "the deposit covers max(price x multiple, configured minimum)")
	verifAssert(b1.Available && b1.DisabledTime.IsZero() && b1.Owner == e.owner.String() && b1.QoS == qos && b1.Pricing == pricing, "the binding is available, owned by the sender and recorded as stated")
	pr := e.k.GetPricing(e.ctx, svService, e.p1)
	verifAssert(pr.Price.AmountOf(svDenom).Equal(sdkmath.NewInt(price)), "the price charged later is the stated price")
	ow, has := e.k.GetOwner(e.ctx, e.p1)
	verifAssert(has && ow.Equals(e.owner), "the provider belongs to the sender")
}
