package keeper

import (
	"time"

	tmbytes "github.com/cometbft/cometbft/libs/bytes"
	sdk "github.com/cosmos/cosmos-sdk/types"

	"mods.irisnet.org/modules/oracle/types"
	serviceexported "mods.irisnet.org/modules/service/exported"
)

type c11Service struct{ types.ServiceKeeper }

func (c11Service) RegisterResponseCallback(string, serviceexported.ResponseCallback) error {
	return nil
}
func (c11Service) RegisterStateCallback(string, serviceexported.StateCallback) error  { return nil }
func (c11Service) RegisterModuleService(string, *serviceexported.ModuleService) error { return nil }

// C11 (self-composition): the oracle's built-in price service answers a request as a function of chain
// data only: two executions on the same state and block, at two different host-clock readings, agree.
func VerifC11_OracleModuleService() {
	verifExpect("same", "fresh-value", "old-value")
	e := newVEnv(types.StoreKey, 10)
	k := NewKeeper(e.cdc, e.key, c11Service{})
	var valueTime time.Time
	if verifSymbolic() {
		vt := verifInt64("valueTime")
		verifAssume(vt >= 1577836800 && vt < 1<<32)
		valueTime = time.Unix(vt, 0)
	} else {
		// natively the clock cannot be chosen, the stored timestamp can: 150 ms before the 5-minute edge
		valueTime = time.Now().Add(-5*time.Minute + 150*time.Millisecond)
	}
	blockTime := valueTime.Add(time.Duration(verifChoice("blockAfter", 2)) * 10 * time.Minute)
	ctx := e.ctx.WithBlockTime(blockTime)
	feed := types.Feed{FeedName: "pair", AggregateFunc: "avg", ValueJsonPath: "rate", LatestHistory: 5, RequestContextID: tmbytes.HexBytes{1}.String(), Creator: vAddr(1).String()}
	k.SetFeed(ctx, feed)
	k.SetFeedValue(ctx, "pair", 1, 5, types.FeedValue{Data: "1.50000000", Timestamp: valueTime})
	input := `{"header":{},"body":{"pair":"pair"}}`
	verifClockSymbolic(true)
	r1, o1 := k.ModuleServiceRequest(ctx, input)
	verifSleepMs(400)
	r2, o2 := k.ModuleServiceRequest(ctx, input)
	verifClockSymbolic(false)
	if blockTime.Sub(valueTime) > 5*time.Minute {
		verifCover("old-value")
	} else {
		verifCover("fresh-value")
	}
	verifCover("same")
	verifAssertKnown(r1 == r2 && o1 == o2, "the same request on the same chain state gets the same answer whatever the host clock says", "C11-oracle-hostclock", true)
	_ = sdk.AccAddress{}
}
