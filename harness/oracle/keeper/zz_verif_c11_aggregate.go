package keeper

import (
	"github.com/tidwall/gjson"

	"mods.irisnet.org/modules/oracle/types"
)

// C11 aggregates: the value a feed stores is a function of the batch's responses in the order the service
// module hands them over - computed twice under independent map iteration orders (whatever containers the
// aggregate functions use internally) it is the same text. Three distinct responses of a magnitude at which
// binary64 addition is visibly not associative within the 8 decimals stored.
func VerifC11_AggregateOrder() {
	verifExpect("compared")
	sets := [][]float64{
		{3172450906.53, 3172450899.12, 3172450894.72},
		{1e15 + 0.3, -1e15, 0.7},
		{2.5, 2.5, 100},
	}
	nums := sets[verifChoice("responses", len(sets))]
	name := []string{"avg", "max", "min"}[verifChoice("aggregate", 3)]
	fn, err := types.GetAggregateFunc(name)
	if err != nil {
		verifFail("aggregate function not registered")
	}
	run := func() string {
		verifMapOrderSymbolic(true)
		defer verifMapOrderSymbolic(false)
		var args []types.ArgsType
		for _, x := range nums {
			args = append(args, gjson.Result{Type: gjson.Number, Num: x})
		}
		return fn(args)
	}
	for try := 0; try < verifTries(); try++ {
		a, b := run(), run()
		verifAssert(a == b, "the aggregate of a batch does not depend on map iteration order")
	}
	verifCover("compared")
}
