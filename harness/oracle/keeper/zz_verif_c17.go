package keeper

import (
	"errors"
	"strconv"
	"time"

	tmbytes "github.com/cometbft/cometbft/libs/bytes"
	sdk "github.com/cosmos/cosmos-sdk/types"

	"mods.irisnet.org/modules/oracle/types"
	serviceexported "mods.irisnet.org/modules/service/exported"
)

// c17Service stands for the service module: it holds the request context of the feed and records what
// the oracle asks it to do.
type c17Service struct {
	types.ServiceKeeper
	rc          *serviceexported.RequestContext
	exists      bool
	failControl bool // the service module refuses the start/pause/update (e.g. insufficient funds)
	calls       *[]string
}

func (s c17Service) RegisterResponseCallback(string, serviceexported.ResponseCallback) error {
	return nil
}
func (s c17Service) RegisterStateCallback(string, serviceexported.StateCallback) error  { return nil }
func (s c17Service) RegisterModuleService(string, *serviceexported.ModuleService) error { return nil }
func (s c17Service) GetRequestContext(sdk.Context, tmbytes.HexBytes) (serviceexported.RequestContext, bool) {
	return *s.rc, s.exists
}
func (s c17Service) StartRequestContext(sdk.Context, tmbytes.HexBytes, sdk.AccAddress) error {
	*s.calls = append(*s.calls, "start")
	if s.failControl {
		return errors.New("refused by the service module")
	}
	s.rc.State = serviceexported.RUNNING
	return nil
}
func (s c17Service) PauseRequestContext(sdk.Context, tmbytes.HexBytes, sdk.AccAddress) error {
	*s.calls = append(*s.calls, "pause")
	if s.failControl {
		return errors.New("refused by the service module")
	}
	s.rc.State = serviceexported.PAUSED
	return nil
}
func (s c17Service) UpdateRequestContext(sdk.Context, tmbytes.HexBytes, []sdk.AccAddress, uint32, sdk.Coins, int64, uint64, int64, sdk.AccAddress) error {
	*s.calls = append(*s.calls, "update")
	if s.failControl {
		return errors.New("refused by the service module")
	}
	return nil
}

// the values a provider may report; 1, 2 and 3 are also the values the feed's history holds (the newest stored
// value is the number of values stored), so a batch's aggregate may equal the value the feed reports already
var c17Numbers = []string{"-2.5", "0", "3.25", "100", "-0.125", "1", "2", "3"}

func c17Env(history int, latest uint64) (*vEnv, Keeper, c17Service, types.Feed) {
	e := newVEnv(types.StoreKey, 10)
	// batches that failed (threshold not met) stored no value: the batch counters of the stored values may have
	// a gap after the first value, and the batch reported now may come after further failed batches
	gapIn, gapAfter := uint64(verifChoice("failedBatchInHistory", 2)), uint64(verifChoice("failedBatchBefore", 2))
	// the batch counters run from 1 - or straddle a byte boundary of the counter (254, 255, 256, 257, ...)
	base := uint64(253 * verifChoice("countersAround256", 2))
	batchOf := func(b int) uint64 {
		if b >= 2 {
			return base + uint64(b) + gapIn
		}
		return base + uint64(b)
	}
	rc := &serviceexported.RequestContext{State: serviceexported.RUNNING, BatchCounter: batchOf(history) + 1 + gapAfter}
	if history == 0 {
		rc.BatchCounter = base + 1 + gapAfter
	}
	calls := []string{}
	sk := c17Service{rc: rc, exists: true, calls: &calls}
	k := NewKeeper(e.cdc, e.key, sk)
	feed := types.Feed{FeedName: "pair", AggregateFunc: []string{"max", "min", "avg"}[verifChoice("aggregate", 3)], ValueJsonPath: "rate",
		LatestHistory: latest, RequestContextID: tmbytes.HexBytes{1}.String(), Creator: vAddr(1).String()}
	k.SetFeed(e.ctx, feed)
	for b := 1; b <= history; b++ {
		k.SetFeedValue(e.ctx, "pair", batchOf(b), latest, types.FeedValue{Data: strconv.Itoa(b) + ".00000000", Timestamp: time.Unix(int64(1000+b), 0)})
	}
	// neighbouring feeds whose names are a proper prefix / an extension of the feed's name, with histories of
	// their own: every feed's history is its own
	for i, name := range c17Neighbours {
		k.SetFeed(e.ctx, types.Feed{FeedName: name, AggregateFunc: "avg", ValueJsonPath: "rate", LatestHistory: 3,
			RequestContextID: tmbytes.HexBytes{byte(7 + i)}.String(), Creator: vAddr(2).String()})
		for b := 1; b <= 2; b++ {
			k.SetFeedValue(e.ctx, name, uint64(b), 3, types.FeedValue{Data: strconv.Itoa(70+10*i+b) + ".00000000", Timestamp: time.Unix(int64(900+b), 0)})
		}
	}
	return e, k, sk, feed
}

var c17Neighbours = []string{"pai", "pairs"}

// c17NeighboursIntact: the neighbouring feeds still hold exactly their own two values, newest first.
func c17NeighboursIntact(k Keeper, ctx sdk.Context) bool {
	for i, name := range c17Neighbours {
		vs := k.GetFeedValues(ctx, name)
		if len(vs) != 2 || vs[0].Data != strconv.Itoa(70+10*i+2)+".00000000" || vs[1].Data != strconv.Itoa(70+10*i+1)+".00000000" {
			return false
		}
	}
	return true
}

// C17 keeper side: one batch result handed over by the service module.  A value is appended iff the batch
// carried responses and no error (i.e. met its threshold); it is the configured aggregate of the
// responses, stamped with the block time, stored under the batch counter; the feed keeps only the newest
// latest-history values, newest first; a failed or empty batch changes nothing.
func VerifC17_HandlerResponse() {
	verifExpect("appended", "ignored")
	latest := uint64(1 + verifChoice("latestHistory", 3)) // 1..3
	history := verifChoice("stored", 4)                   // 0..3 values stored so far
	verifAssume(uint64(history) <= latest)
	e, k, _, _ := c17Env(history, latest)
	n := verifChoice("responses", 3) // 0..2 responses
	var outputs []string
	var nums []float64
	for i := 0; i < n; i++ {
		nn := len(c17Numbers)
		if i > 0 && verifTier() == 0 {
			nn = 4 // quick tier: the second provider reports one of the first four values
		}
		s := c17Numbers[verifChoice("value"+strconv.Itoa(i), nn)]
		f, _ := strconv.ParseFloat(s, 64)
		nums = append(nums, f)
		outputs = append(outputs, `{"header":{},"body":{"rate":`+s+`}}`)
	}
	var batchErr error
	if verifChoice("batchFailed", 2) == 1 {
		batchErr = errors.New("batch did not reach its response threshold")
	}
	verifAssume(n > 0 || batchErr != nil) // the service module never reports an empty success
	bt := verifInt64("blockTime")
	verifAssume(bt > 2000 && bt < 1<<32)
	// block times carry nanoseconds
	ctx := e.ctx.WithBlockTime(time.Unix(bt, 123456789))
	before := k.GetFeedValues(ctx, "pair")
	verifAssert(len(before) == history, "a feed's history holds its own values only")
	for i := range before {
		verifAssert(before[i].Data == strconv.Itoa(history-i)+".00000000", "a feed's history lists its own values, newest first")
	}
	k.HandlerResponse(ctx, tmbytes.HexBytes{1}, outputs, batchErr)
	after := k.GetFeedValues(ctx, "pair")
	verifAssert(c17NeighboursIntact(k, ctx), "a batch result of one feed leaves the histories of the other feeds alone")
	if n == 0 || batchErr != nil {
		verifCover("ignored")
		verifAssert(verifDeepEqual(before, after), "a failed or empty batch appends nothing")
		return
	}
	verifCover("appended")
	want := nums[0]
	switch k.mustFeed(ctx).AggregateFunc {
	case "max":
		for _, f := range nums {
			if f > want {
				want = f
			}
		}
	case "min":
		for _, f := range nums {
			if f < want {
				want = f
			}
		}
	case "avg":
		sum := 0.0
		for _, f := range nums {
			sum += f
		}
		want = sum / float64(len(nums))
	}
	expLen := history + 1
	if uint64(expLen) > latest {
		expLen = int(latest)
	}
	verifAssert(len(after) == expLen, "the feed keeps only the newest latest-history values")
	verifAssert(len(after) > 0 && after[0].Data == strconv.FormatFloat(want, 'f', 8, 64), "the appended value is the configured aggregate of the responses with 8 decimals, newest first")
	verifAssert(len(after) > 0 && after[0].Timestamp.Equal(ctx.BlockTime()), "the value is stamped with the block time")
	for i := 1; i < len(after); i++ {
		// older values: the previously newest ones, in order
		verifAssert(verifDeepEqual(after[i], before[i-1]), "older values are kept newest first, the oldest dropped")
	}
}

func (k Keeper) mustFeed(ctx sdk.Context) types.Feed { f, _ := k.GetFeed(ctx, "pair"); return f }

// C17 control: only the feed's creator starts, pauses or edits it; the feed's running/paused mark follows
// the request context exactly (it moves iff the service module performed the change); shrinking
// latest-history drops the oldest values.
func VerifC17_FeedControl() {
	verifExpect("done", "refused")
	latest := uint64(3)
	history := verifChoice("stored", 4)
	e, k, sk, _ := c17Env(history, latest)
	running := verifChoice("running", 2) == 1
	if running {
		sk.rc.State = serviceexported.RUNNING
		k.Enqueue(e.ctx, "pair", serviceexported.RUNNING)
	} else {
		sk.rc.State = serviceexported.PAUSED
		k.Enqueue(e.ctx, "pair", serviceexported.PAUSED)
	}
	sk.failControl = verifChoice("serviceRefuses", 2) == 1
	k.sk = sk
	caller := vAddr(1)
	isCreator := verifChoice("caller", 2) == 0
	if !isCreator {
		caller = vAddr(2)
	}
	op := verifChoice("op", 3)
	var err error
	newLatest := uint64(verifChoice("newLatestHistory", 4)) // 0 = keep
	beforeVals := k.GetFeedValues(e.ctx, "pair")
	switch op {
	case 0:
		err = k.StartFeed(e.ctx, &types.MsgStartFeed{FeedName: "pair", Creator: caller.String()})
	case 1:
		err = k.PauseFeed(e.ctx, &types.MsgPauseFeed{FeedName: "pair", Creator: caller.String()})
	case 2:
		err = k.EditFeed(e.ctx, &types.MsgEditFeed{FeedName: "pair", Creator: caller.String(), LatestHistory: newLatest, Description: types.DoNotModify})
	}
	st := e.store()
	markRunning := st.Has(types.GetFeedStateKey("pair", serviceexported.RUNNING))
	markPaused := st.Has(types.GetFeedStateKey("pair", serviceexported.PAUSED))
	verifAssert(markRunning != markPaused, "the feed carries exactly one of the running / paused marks")
	verifAssert(markRunning == (sk.rc.State == serviceexported.RUNNING), "the feed's mark mirrors the state of its request context")
	afterVals := k.GetFeedValues(e.ctx, "pair")
	if err != nil {
		verifCover("refused")
		verifAssert(verifDeepEqual(beforeVals, afterVals) && k.mustFeed(e.ctx).LatestHistory == latest, "a refused control message changes nothing")
		if !isCreator {
			verifAssert(len(*sk.calls) == 0, "a stranger's message never reaches the service module")
		}
		return
	}
	verifCover("done")
	verifAssert(isCreator, "only the feed's creator starts, pauses or edits it")
	verifAssert(!sk.failControl, "the feed follows the service module: no change when it refuses")
	switch op {
	case 0:
		verifAssert(!running, "only a feed that is not running can be started")
	case 1:
		verifAssert(running, "only a running feed can be paused")
	case 2:
		exp := history
		if newLatest > 0 && int(newLatest) < exp {
			exp = int(newLatest)
		}
		verifAssert(len(afterVals) == exp, "shrinking latest-history drops the oldest values")
		for i := range afterVals {
			verifAssert(verifDeepEqual(afterVals[i], beforeVals[i]), "the newest values are kept, newest first")
		}
		wantLatest := latest
		if newLatest > 0 {
			wantLatest = newLatest
		}
		verifAssert(k.mustFeed(e.ctx).LatestHistory == wantLatest, "latest-history takes the given value (0 keeps it)")
	}
}

// C17 state callback: when the service module reports a state change of the request context (e.g. the
// automatic pause of a consumer that ran out of funds) the feed's mark follows.
func VerifC17_StateCallback() {
	verifExpect("followed")
	e, k, sk, _ := c17Env(0, 3)
	wasRunning := verifChoice("wasRunning", 2) == 1
	if wasRunning {
		k.Enqueue(e.ctx, "pair", serviceexported.RUNNING)
	} else {
		k.Enqueue(e.ctx, "pair", serviceexported.PAUSED)
	}
	// the context changed to the other state
	if wasRunning {
		sk.rc.State = serviceexported.PAUSED
	} else {
		sk.rc.State = serviceexported.RUNNING
	}
	k.HandlerStateChanged(e.ctx, tmbytes.HexBytes{1}, "insufficient balances")
	st := e.store()
	verifCover("followed")
	verifAssert(st.Has(types.GetFeedStateKey("pair", serviceexported.RUNNING)) == !wasRunning && st.Has(types.GetFeedStateKey("pair", serviceexported.PAUSED)) == wasRunning, "the feed's mark follows a state change reported by the service module")
}
