package keeper

import (
	"time"

	tmbytes "github.com/cometbft/cometbft/libs/bytes"
	sdk "github.com/cosmos/cosmos-sdk/types"

	"mods.irisnet.org/modules/oracle/types"
	serviceexported "mods.irisnet.org/modules/service/exported"
)

// C11 off-chain disturbances, oracle (verifOffChain, harness/rt): a feed holds one value; the side work
// reports a batch, edits and pauses the feed; afterwards two batches are reported (the history is trimmed),
// the feed is edited and paused by its creator.
func VerifC11_OracleOffChainDisturbance() {
	verifOffChain(func() vReplica {
		e := newVEnv(types.StoreKey, 10)
		e.ctx = e.ctx.WithBlockTime(time.Unix(1700000000, 0))
		rc := &serviceexported.RequestContext{State: serviceexported.RUNNING, BatchCounter: 1}
		calls := []string{}
		sk := c17Service{rc: rc, exists: true, calls: &calls}
		k := NewKeeper(e.cdc, e.key, sk)
		ctxID := tmbytes.HexBytes{1}
		report := func(ctx sdk.Context, batch uint64, num string) {
			rc.BatchCounter = batch
			k.HandlerResponse(ctx, ctxID, []string{`{"header":{},"body":{"rate":` + num + `}}`}, nil)
		}
		var r vReplica
		r.env = e
		r.first = func() {
			k.SetFeed(e.ctx, types.Feed{FeedName: "pair", AggregateFunc: "avg", ValueJsonPath: "rate", LatestHistory: 2, RequestContextID: ctxID.String(), Creator: vAddr(1).String()})
			k.Enqueue(e.ctx, "pair", serviceexported.RUNNING)
			report(e.ctx, 1, "1.5")
		}
		r.side = func(ctx sdk.Context) error {
			report(ctx, 2, "7")
			if err := k.EditFeed(ctx, &types.MsgEditFeed{FeedName: "pair", Creator: vAddr(1).String(), LatestHistory: 1, Description: "edited"}); err != nil {
				return err
			}
			return k.PauseFeed(ctx, &types.MsgPauseFeed{FeedName: "pair", Creator: vAddr(1).String()})
		}
		r.restart = func() { k = NewKeeper(e.cdc, e.key, sk) }
		r.second = func(ctx sdk.Context) []bool {
			rc.State = serviceexported.RUNNING // whatever the discarded work told the service module is discarded with it
			report(ctx, 2, "2.5")
			report(ctx, 3, "3.5")
			vals := k.GetFeedValues(ctx, "pair")
			e0 := k.EditFeed(ctx, &types.MsgEditFeed{FeedName: "pair", Creator: vAddr(1).String(), LatestHistory: 1, Description: types.DoNotModify})
			e1 := k.PauseFeed(ctx, &types.MsgPauseFeed{FeedName: "pair", Creator: vAddr(1).String()})
			return []bool{len(vals) != 2 || vals[0].Data != "3.50000000" || vals[1].Data != "2.50000000", e0 != nil, e1 != nil, len(k.GetFeedValues(ctx, "pair")) != 1}
		}
		return r
	})
}
