package types

import (
	"github.com/tidwall/gjson"
)

var c17Avg bool

// the average needs FP addition/division (expensive to bit-blast): 1..2 responses in both tiers.  With three
// responses the thorough tier ran 52 minutes and returned models that do not reproduce natively (the
// solver's floating-point division of a three-term sum and Go's agree only up to the last bit, which the
// 8-decimal comparison then amplifies): three-response averages are outside the claim.
func c17MaxN() int {
	if c17Avg {
		return 2
	}
	return 3
}

func c17Inputs() ([]ArgsType, []float64) {
	n := verifChoice("n", c17MaxN()) + 1
	var args []ArgsType
	var xs []float64
	for i := 0; i < n; i++ {
		x := verifFloat64([]string{"x0", "x1", "x2"}[i])
		verifAssume(x >= -1e6 && x <= 1e6)             // finite, either sign; 8-decimal rendering is faithful in this range
		verifAssume(x == 0 || x >= 1e-7 || x <= -1e-7) // below 1e-7 the 8-decimal rendering cannot tell values apart
		xs = append(xs, x)
		args = append(args, gjson.Result{Type: gjson.Number, Num: x})
	}
	return args, xs
}

func c17Check(m float64, xs []float64, isMax bool) {
	// exact comparisons first (cheap); the comparison with the rendering's tolerance (FP subtraction, expensive)
	// is reached only on paths where the exact one fails - there it yields a counterexample that differs by
	// more than 8 decimals can hide
	member := false
	for _, x := range xs {
		if verifFloatEq8(m, x) {
			member = true
		}
		if isMax {
			if verifFloatGe8(m, x) {
				verifAssert(verifFloatGe8(m, x), "max is at least every response")
			} else {
				verifAssertKnown(verifFloatGe8Tol(m, x), "max is at least every response", "C17-max-seed", c17AllBelowSeed(xs))
			}
		} else if verifFloatGe8(x, m) {
			verifAssert(verifFloatGe8(x, m), "min is at most every response")
		} else {
			verifAssert(verifFloatGe8Tol(x, m), "min is at most every response")
		}
	}
	if member {
		verifAssert(member, "the aggregate is one of the responses")
	} else {
		near := false
		for _, x := range xs {
			if verifFloatEq8Tol(m, x) {
				near = true
			}
		}
		if isMax {
			verifAssertKnown(near, "max is one of the responses", "C17-max-seed", c17AllBelowSeed(xs))
		} else {
			verifAssert(near, "min is one of the responses")
		}
	}
}

// class predicate of the listed finding: every response is below the positive seed Max starts from
func c17AllBelowSeed(xs []float64) bool {
	for _, x := range xs {
		if x > 0 {
			return false
		}
	}
	return true
}

// C17: the stored aggregate is the max / min / average of the numeric responses (8 decimals).
func VerifC17_Max() {
	verifExpect("aggregated")
	args, xs := c17Inputs()
	m := verifFloatOf(Max(args))
	verifCover("aggregated")
	c17Check(m, xs, true)
}

func VerifC17_Min() {
	verifExpect("aggregated")
	args, xs := c17Inputs()
	m := verifFloatOf(Min(args))
	verifCover("aggregated")
	c17Check(m, xs, false)
}

func VerifC17_Avg() {
	verifExpect("aggregated")
	c17Avg = true
	args, xs := c17Inputs()
	m := verifFloatOf(Avg(args))
	verifCover("aggregated")
	lo, hi := xs[0], xs[0]
	for _, x := range xs {
		if x < lo {
			lo = x
		}
		if x > hi {
			hi = x
		}
	}
	if verifFloatGe8(m, lo) && verifFloatGe8(hi, m) {
		verifAssert(verifFloatGe8(m, lo) && verifFloatGe8(hi, m), "average lies between the smallest and the largest response")
	} else {
		verifAssert(verifFloatGe8Tol(m, lo) && verifFloatGe8Tol(hi, m), "average lies between the smallest and the largest response")
	}
}
