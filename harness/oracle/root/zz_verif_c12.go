package oracle

import (
	"strconv"
	"time"

	tmbytes "github.com/cometbft/cometbft/libs/bytes"
	sdk "github.com/cosmos/cosmos-sdk/types"

	"mods.irisnet.org/modules/oracle/keeper"
	"mods.irisnet.org/modules/oracle/types"
	serviceexported "mods.irisnet.org/modules/service/exported"
)

// c12Service stands for the service module (which exports and re-imports its request contexts itself,
// keeping their batch counters): it answers the request-context lookups of the oracle genesis code.
type c12Service struct {
	types.ServiceKeeper
	rcs map[string]*serviceexported.RequestContext
}

func (s c12Service) RegisterResponseCallback(string, serviceexported.ResponseCallback) error {
	return nil
}
func (s c12Service) RegisterStateCallback(string, serviceexported.StateCallback) error { return nil }
func (s c12Service) RegisterModuleService(string, *serviceexported.ModuleService) error {
	return nil
}
func (s c12Service) GetRequestContext(_ sdk.Context, id tmbytes.HexBytes) (serviceexported.RequestContext, bool) {
	rc, ok := s.rcs[id.String()]
	if !ok {
		return serviceexported.RequestContext{}, false
	}
	return *rc, true
}

func c12OracleEnv(sk c12Service) (*vEnv, keeper.Keeper) {
	e := newVEnv(types.StoreKey, 10)
	return e, keeper.NewKeeper(e.cdc, e.key, sk)
}

// C12 oracle: one or two feeds, each with a value history written the way the response handler writes
// it (one value per completed batch, keyed by the batch counter of that batch, trimmed to the feed's
// latest-history), running or paused, exported as is or after the module's prepare-for-zero-height step.
// The export validates, imports without panic into a fresh store (the service module answering with the
// same request contexts), every feed / feed-value / by-state query answers identically, and a second
// export equals the first.
func VerifC12_Oracle() {
	verifExpect("roundtrip", "multiHistory")
	rcs := map[string]*serviceexported.RequestContext{}
	sk := c12Service{rcs: rcs}
	e, k := c12OracleEnv(sk)
	nFeeds := 1 + verifChoice("feeds", 2)
	names := []string{"pair", "rate"}[:nFeeds]
	multi := false
	for i, name := range names {
		id := tmbytes.HexBytes{byte(i + 1)}
		// the second feed, when present, has a fixed shape: two of its three values kept, one batch open
		latest, batches, skipped, open := uint64(2), 3, 0, 1
		state := serviceexported.RUNNING
		if i == 0 {
			latest = uint64(1 + verifChoice("latestHistory", 3)) // 1..3
			batches = verifChoice("batches", 5)                  // 0..4 completed batches so far
			skipped = verifChoice("failedBatches", 2)            // batches that produced no value
			open = verifChoice("openBatch", 2)
			if verifChoice("paused", 2) == 1 {
				state = serviceexported.PAUSED
			}
		}
		feed := types.Feed{FeedName: name, AggregateFunc: "avg", ValueJsonPath: "rate", LatestHistory: latest,
			RequestContextID: id.String(), Creator: vAddr(1).String(), Description: "d"}
		k.SetFeed(e.ctx, feed)
		k.Enqueue(e.ctx, name, state)
		counter := uint64(0)
		for b := 1; b <= batches; b++ {
			counter += 1 + uint64(skipped)
			ts := verifInt64("ts" + strconv.Itoa(i) + "_" + strconv.Itoa(b))
			verifAssume(ts >= 0 && ts < 1<<33)
			k.SetFeedValue(e.ctx, name, counter, latest, types.FeedValue{Data: strconv.Itoa(b) + ".00000000", Timestamp: time.Unix(ts, 0).UTC()})
		}
		rcs[id.String()] = &serviceexported.RequestContext{State: state, BatchCounter: counter + uint64(open)}
		if batches >= 2 && latest >= 2 {
			multi = true
		}
	}
	if verifChoice("prepForZeroHeight", 2) == 1 {
		// the application runs the service module's step first (every context paused), then the oracle's
		for _, rc := range rcs {
			rc.State = serviceexported.PAUSED
		}
		PrepForZeroHeightGenesis(e.ctx, k)
	}
	g := ExportGenesis(e.ctx, k)
	verifAssert(types.ValidateGenesis(*g) == nil, "the exported genesis passes the module's own validation")
	e2, k2 := c12OracleEnv(sk)
	panicked, what := verifCatch(func() { InitGenesis(e2.ctx, k2, *g) })
	if panicked {
		verifPrint(what)
	}
	verifAssert(!panicked, "the exported genesis imports without panic")
	verifCover("roundtrip")
	if multi {
		verifCover("multiHistory")
	}
	for _, name := range names {
		f1, ok1 := k.GetFeed(e.ctx, name)
		f2, ok2 := k2.GetFeed(e2.ctx, name)
		verifAssert(ok1 && ok2 && verifDeepEqual(f1, f2), "every feed answers identically after re-import")
		v1, v2 := k.GetFeedValues(e.ctx, name), k2.GetFeedValues(e2.ctx, name)
		verifAssert(len(v1) == len(v2), "every feed keeps the length of its value history after re-import")
		verifAssert(verifDeepEqual(v1, v2), "every feed keeps its value history, newest first, after re-import")
	}
	for _, st := range []serviceexported.RequestContextState{serviceexported.RUNNING, serviceexported.PAUSED} {
		var a, b []string
		k.IteratorFeedsByState(e.ctx, st, func(f types.Feed) { a = append(a, f.FeedName) })
		k2.IteratorFeedsByState(e2.ctx, st, func(f types.Feed) { b = append(b, f.FeedName) })
		verifAssert(verifDeepEqual(a, b), "the feeds-by-state query answers identically after re-import")
	}
	g2 := ExportGenesis(e2.ctx, k2)
	verifAssert(verifDeepEqual(*g, *g2), "a second export equals the first")
}
