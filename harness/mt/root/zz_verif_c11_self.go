package mt

// C11 (self-composition of whole histories): the histories of real operations written for the export/import
// and block-handler properties are executed twice on the same symbolic inputs under independent symbolic map
// orders and host-clock readings, in one process; both executions must end in the same stores and balances
// (verifSelfCompose, harness/rt).
func VerifC11_SelfT_C12_MT() {
	// the history without its optional third and fourth token (the map orders of the export multiply with
	// every further token: beyond the path budget)
	verifAssume(verifChoice("moreTokens", 2) == 0)
	verifSelfCompose(VerifC12_MT)
}
