package mt

import (
	"mods.irisnet.org/modules/mt/keeper"
	"mods.irisnet.org/modules/mt/types"
)

// C12 mt: classes/tokens/balances created through real messages survive export -> import -> export.
func VerifC12_MT() {
	verifExpect("roundtrip", "fully-burned")
	e := newVEnv(types.StoreKey, 10)
	k := keeper.NewKeeper(e.cdc, e.key)
	owner, alice := vAddr(1), vAddr(2)
	srv := keeper.NewMsgServerImpl(k)
	_, err := srv.IssueDenom(e.ctx, &types.MsgIssueDenom{Name: "class", Sender: owner.String(), Data: []byte("d")})
	verifAssume(err == nil)
	denomID := k.GetDenoms(e.ctx)[0].Id
	a1, a2 := verifUint64("mint1"), verifUint64("mint2")
	verifAssume(a1 >= 1 && a2 >= 1 && a1 < 1<<62 && a2 < 1<<62)
	_, err = srv.MintMT(e.ctx, &types.MsgMintMT{DenomId: denomID, Amount: a1, Sender: owner.String(), Recipient: owner.String(), Data: []byte("m")})
	verifAssume(err == nil)
	mtID := k.GetMTs(e.ctx, denomID)[0].GetID()
	if verifChoice("second", 2) == 1 {
		_, err = srv.MintMT(e.ctx, &types.MsgMintMT{Id: mtID, DenomId: denomID, Amount: a2, Sender: owner.String(), Recipient: alice.String()})
		verifAssume(err == nil)
	}
	if verifChoice("moreTokens", 2) == 1 {
		// two more tokens of the class, one of them held by two accounts: several balances per owner and class
		_, err = srv.MintMT(e.ctx, &types.MsgMintMT{DenomId: denomID, Amount: 7, Sender: owner.String(), Recipient: owner.String()})
		verifAssume(err == nil)
		_, err = srv.MintMT(e.ctx, &types.MsgMintMT{DenomId: denomID, Amount: 8, Sender: owner.String(), Recipient: alice.String()})
		verifAssume(err == nil)
	}
	if verifChoice("transfer", 2) == 1 {
		t := verifUint64("xfer")
		verifAssume(t >= 1 && t <= a1)
		_, err = srv.TransferMT(e.ctx, &types.MsgTransferMT{Id: mtID, DenomId: denomID, Sender: owner.String(), Recipient: alice.String(), Amount: t})
		verifAssume(err == nil)
	}
	if verifChoice("burn", 2) == 1 {
		// the owner burns part or ALL of what they hold (a fully burned token keeps its record)
		b := verifUint64("burn1")
		verifAssume(b >= 1 && b <= k.GetBalance(e.ctx, denomID, mtID, owner))
		_, err = srv.BurnMT(e.ctx, &types.MsgBurnMT{Id: mtID, DenomId: denomID, Sender: owner.String(), Amount: b})
		verifAssume(err == nil)
		if k.GetMTSupply(e.ctx, denomID, mtID) == 0 {
			verifCover("fully-burned")
		}
	}
	g := ExportGenesis(e.ctx, k)
	verifAssert(types.ValidateGenesis(*g) == nil, "the exported genesis passes the module's own validation")
	e2 := newVEnv(types.StoreKey, 10)
	k2 := keeper.NewKeeper(e2.cdc, e2.key)
	panicked, what := verifCatch(func() { InitGenesis(e2.ctx, k2, *g) })
	if panicked {
		verifPrint(what)
	}
	verifAssert(!panicked, "the exported genesis imports without panic")
	verifCover("roundtrip")
	verifAssert(k2.GetMTSupply(e2.ctx, denomID, mtID) == k.GetMTSupply(e.ctx, denomID, mtID), "supply survives re-import")
	verifAssert(k2.GetBalance(e2.ctx, denomID, mtID, owner) == k.GetBalance(e.ctx, denomID, mtID, owner) && k2.GetBalance(e2.ctx, denomID, mtID, alice) == k.GetBalance(e.ctx, denomID, mtID, alice), "balances survive re-import")
	verifAssert(k2.GetDenomSupply(e2.ctx, denomID) == k.GetDenomSupply(e.ctx, denomID), "class token count survives re-import")
	d2, ok := k2.GetDenom(e2.ctx, denomID)
	verifAssert(ok && d2.Owner == owner.String(), "class and its owner survive re-import")
	g2 := ExportGenesis(e2.ctx, k2)
	verifAssert(len(g2.Collections) == len(g.Collections) && len(g2.Owners) == len(g.Owners), "a second export has the same shape")
	verifAssert(verifDeepEqual(*g2, *g), "a second export equals the first")
	// life goes on: the same next operations - a new class, a new token in the old class - on the original
	// chain and on the restarted one hand out the same, fresh, ids
	srv2 := keeper.NewMsgServerImpl(k2)
	for _, c := range []struct {
		s keeper.Keeper
		x *vEnv
	}{{k, e}, {k2, e2}} {
		sv := srv
		if c.x == e2 {
			sv = srv2
		}
		_, errD := sv.IssueDenom(c.x.ctx, &types.MsgIssueDenom{Name: "second class", Sender: alice.String()})
		_, errM := sv.MintMT(c.x.ctx, &types.MsgMintMT{DenomId: denomID, Amount: 5, Sender: owner.String(), Recipient: alice.String(), Data: []byte("n")})
		verifAssert(errD == nil && errM == nil, "after a restart the module accepts the operations it accepted before")
	}
	ids := func(kk keeper.Keeper, x *vEnv) (ds, ms []string) {
		for _, d := range kk.GetDenoms(x.ctx) {
			ds = append(ds, d.Id)
		}
		for _, m := range kk.GetMTs(x.ctx, denomID) {
			ms = append(ms, m.GetID())
		}
		return
	}
	dA, mA := ids(k, e)
	dB, mB := ids(k2, e2)
	distinct := func(xs []string) bool {
		for i := range xs {
			for j := i + 1; j < len(xs); j++ {
				if xs[i] == xs[j] {
					return false
				}
			}
		}
		return true
	}
	verifAssert(len(dA) == 2 && len(mA) == len(g.Collections[0].Mts)+1 && distinct(dA) && distinct(mA), "new classes and tokens get ids nobody has")
	verifAssert(verifDeepEqual(dA, dB) && verifDeepEqual(mA, mB), "the restarted chain hands out the ids the original chain would have handed out (none reused)")
}
