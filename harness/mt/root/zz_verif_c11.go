package mt

import (
	"mods.irisnet.org/modules/mt/keeper"
	"mods.irisnet.org/modules/mt/types"
)

// C11 (self-composition): exporting the same state twice yields the same genesis, whatever order the
// runtime iterates its maps in.
func VerifC11_MTExport() {
	verifExpect("exported")
	e := newVEnv(types.StoreKey, 10)
	k := keeper.NewKeeper(e.cdc, e.key)
	owner, alice, bob := vAddr(1), vAddr(2), vAddr(3)
	srv := keeper.NewMsgServerImpl(k)
	_, err := srv.IssueDenom(e.ctx, &types.MsgIssueDenom{Name: "class", Sender: owner.String()})
	verifAssume(err == nil)
	denomID := k.GetDenoms(e.ctx)[0].Id
	a1, a2 := verifUint64("amtAlice"), verifUint64("amtBob")
	verifAssume(a1 >= 1 && a2 >= 1 && a1 < 1<<62 && a2 < 1<<62)
	_, err = srv.MintMT(e.ctx, &types.MsgMintMT{DenomId: denomID, Amount: a1, Sender: owner.String(), Recipient: alice.String()})
	verifAssume(err == nil)
	mtID := k.GetMTs(e.ctx, denomID)[0].GetID()
	_, err = srv.MintMT(e.ctx, &types.MsgMintMT{Id: mtID, DenomId: denomID, Amount: a2, Sender: owner.String(), Recipient: bob.String()})
	verifAssume(err == nil)
	// a second and a third token of the same class, all three held by alice (several balances of one owner in
	// one class), and a second class with a token of its own
	for i := 0; i < 2; i++ {
		_, err = srv.MintMT(e.ctx, &types.MsgMintMT{DenomId: denomID, Amount: uint64(3 + i), Sender: owner.String(), Recipient: alice.String()})
		verifAssume(err == nil)
	}
	_, err = srv.IssueDenom(e.ctx, &types.MsgIssueDenom{Name: "class2", Sender: owner.String()})
	verifAssume(err == nil)
	for _, d := range k.GetDenoms(e.ctx) {
		if d.Id != denomID {
			_, err = srv.MintMT(e.ctx, &types.MsgMintMT{DenomId: d.Id, Amount: 9, Sender: owner.String(), Recipient: alice.String()})
			verifAssume(err == nil)
		}
	}
	verifMapOrderSymbolic(true)
	same := true
	for try := 0; try < verifTries() && same; try++ {
		g1 := ExportGenesis(e.ctx, k)
		g2 := ExportGenesis(e.ctx, k)
		same = verifDeepEqual(g1.Owners, g2.Owners) && verifDeepEqual(g1.Collections, g2.Collections)
	}
	verifMapOrderSymbolic(false)
	verifCover("exported")
	verifAssertKnown(same, "two exports of the same state are identical", "C11-mt-export-order", true)
}
