package keeper

import (
	sdk "github.com/cosmos/cosmos-sdk/types"

	"mods.irisnet.org/modules/mt/types"
)

// C11 off-chain disturbances, mt (verifOffChain, harness/rt): a class and a token are created; the side work
// creates another class and token and mints; afterwards a second token is minted, the first one minted again,
// transferred and burned. Ids (derived from stored sequences), balances and gas must not depend on what the
// node did besides the committed history.
func VerifC11_MTOffChainDisturbance() {
	a1, a2 := verifUint64("a1"), verifUint64("a2")
	verifAssume(a1 >= 1 && a2 >= 1 && a1 < 1<<62 && a2 < 1<<62)
	verifOffChain(func() vReplica {
		e := newVEnv(types.StoreKey, 10)
		k := NewKeeper(e.cdc, e.key)
		alice, bob := vAddr(1), vAddr(2)
		var r vReplica
		r.env = e
		r.first = func() {
			srv := NewMsgServerImpl(k)
			if _, err := srv.IssueDenom(e.ctx, &types.MsgIssueDenom{Name: "one", Sender: alice.String()}); err != nil {
				verifFail("class refused")
			}
			d := k.GetDenoms(e.ctx)[0]
			if _, err := srv.MintMT(e.ctx, &types.MsgMintMT{DenomId: d.Id, Amount: a1, Sender: alice.String(), Recipient: alice.String()}); err != nil {
				verifFail("mint refused")
			}
		}
		r.side = func(ctx sdk.Context) error {
			srv := NewMsgServerImpl(k)
			if _, err := srv.IssueDenom(ctx, &types.MsgIssueDenom{Name: "side", Sender: bob.String()}); err != nil {
				return err
			}
			d := k.GetDenoms(ctx)[0]
			_, err := srv.MintMT(ctx, &types.MsgMintMT{DenomId: d.Id, Amount: 5, Sender: alice.String(), Recipient: bob.String()})
			return err
		}
		r.restart = func() { k = NewKeeper(e.cdc, e.key) }
		r.second = func(ctx sdk.Context) []bool {
			srv := NewMsgServerImpl(k)
			d := k.GetDenoms(ctx)[0]
			first := k.GetMTs(ctx, d.Id)[0]
			_, e0 := srv.IssueDenom(ctx, &types.MsgIssueDenom{Name: "two", Sender: bob.String()})
			_, e1 := srv.MintMT(ctx, &types.MsgMintMT{DenomId: d.Id, Amount: a2, Sender: alice.String(), Recipient: bob.String()})
			_, e2 := srv.MintMT(ctx, &types.MsgMintMT{Id: first.GetID(), DenomId: d.Id, Amount: a2, Sender: alice.String(), Recipient: alice.String()})
			_, e3 := srv.TransferMT(ctx, &types.MsgTransferMT{Id: first.GetID(), DenomId: d.Id, Amount: a1, Sender: alice.String(), Recipient: bob.String()})
			_, e4 := srv.BurnMT(ctx, &types.MsgBurnMT{Id: first.GetID(), DenomId: d.Id, Amount: a2, Sender: alice.String()})
			return []bool{e0 != nil, e1 != nil, e2 != nil, e3 != nil, e4 != nil}
		}
		return r
	})
}
