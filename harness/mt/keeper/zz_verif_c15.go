package keeper

import (
	"math/big"

	sdk "github.com/cosmos/cosmos-sdk/types"

	"mods.irisnet.org/modules/mt/types"
)

type mtEnv struct {
	*vEnv
	k                    Keeper
	owner, alice, bob    sdk.AccAddress
	denomID, mtID        string
	b1, b2, rest, supply uint64
}

func u(x uint64) *big.Int { return new(big.Int).SetUint64(x) }

// newMtEnv: one class owned by `owner`, one MT with symbolic balances of alice (b1), bob (b2),
// a remainder held by others (rest) and the supply record; invariant M1: b1+b2+rest == supply over Z.
func newMtEnv() *mtEnv {
	e := &mtEnv{vEnv: newVEnv(types.StoreKey, 10)}
	e.k = NewKeeper(e.cdc, e.key)
	e.owner, e.alice, e.bob = vAddr(1), vAddr(2), vAddr(3)
	e.denomID, e.mtID = "denom1", "mt1"
	e.k.SetDenom(e.ctx, types.Denom{Id: e.denomID, Name: "class", Owner: e.owner.String()})
	e.k.SetMT(e.ctx, e.denomID, types.NewMT(e.mtID, 0, []byte("data")))
	e.b1, e.b2, e.rest, e.supply = verifUint64("b1"), verifUint64("b2"), verifUint64("rest"), verifUint64("supply")
	verifAssume(verifAdd(u(e.b1), u(e.b2), u(e.rest)).Cmp(u(e.supply)) == 0)
	st := e.store()
	st.Set(types.KeyBalance(e.alice, e.denomID, e.mtID), types.MustMarshalAmount(e.cdc, e.b1))
	if verifChoice("bobHasRecord", 2) == 1 {
		st.Set(types.KeyBalance(e.bob, e.denomID, e.mtID), types.MustMarshalAmount(e.cdc, e.b2))
	} else {
		verifAssume(e.b2 == 0)
	}
	st.Set(types.KeyBalance(vAddr(7), e.denomID, e.mtID), types.MustMarshalAmount(e.cdc, e.rest))
	st.Set(types.KeySupply(e.denomID, e.mtID), types.MustMarshalSupply(e.cdc, e.supply))
	return e
}

func (e *mtEnv) read() (b1, b2, rest, supply *big.Int) {
	return u(e.k.GetBalance(e.ctx, e.denomID, e.mtID, e.alice)), u(e.k.GetBalance(e.ctx, e.denomID, e.mtID, e.bob)),
		u(e.k.GetBalance(e.ctx, e.denomID, e.mtID, vAddr(7))), u(e.k.GetMTSupply(e.ctx, e.denomID, e.mtID))
}

func (e *mtEnv) assertInv(b1, b2, rest, supply *big.Int) {
	verifAssert(verifAdd(b1, b2, rest).Cmp(supply) == 0, "M1 balances add up to supply (over the integers)")
}

// C15 transfer: moves exactly `amount`, needs balance >= amount, never wraps.
func VerifC15_Transfer() {
	verifExpect("moved", "refused", "self")
	e := newMtEnv()
	amt := verifUint64("amt")
	to := e.bob
	self := verifChoice("to", 2) == 1
	if self {
		to = e.alice
	}
	msg := &types.MsgTransferMT{Id: e.mtID, DenomId: e.denomID, Sender: e.alice.String(), Recipient: to.String(), Amount: amt}
	verifAssume(msg.ValidateBasic() == nil)
	err, _ := e.verifDeliver(func() error { _, err := NewMsgServerImpl(e.k).TransferMT(e.ctx, msg); return err })
	b1, b2, rest, sup := e.read()
	e.assertInv(b1, b2, rest, sup)
	verifAssert(sup.Cmp(u(e.supply)) == 0 && rest.Cmp(u(e.rest)) == 0, "transfer leaves supply and third parties alone")
	if err != nil {
		verifCover("refused")
		verifAssert(e.b1 < amt, "a transfer is refused only for lack of balance")
		verifAssert(b1.Cmp(u(e.b1)) == 0 && b2.Cmp(u(e.b2)) == 0, "refused transfer changes nothing")
		return
	}
	verifAssert(e.b1 >= amt, "transfer needs balance >= amount")
	if self {
		verifCover("self")
		verifAssert(b1.Cmp(u(e.b1)) == 0 && b2.Cmp(u(e.b2)) == 0, "self-transfer changes nothing")
		return
	}
	verifCover("moved")
	verifAssert(verifSub(u(e.b1), b1).Cmp(u(amt)) == 0, "sender loses exactly the amount")
	verifAssert(verifSub(b2, u(e.b2)).Cmp(u(amt)) == 0, "recipient gains exactly the amount")
}

// C15 burn: balance and supply fall by the same amount; underflow impossible.
func VerifC15_Burn() {
	verifExpect("burned", "refused")
	e := newMtEnv()
	amt := verifUint64("amt")
	msg := &types.MsgBurnMT{Id: e.mtID, DenomId: e.denomID, Sender: e.alice.String(), Amount: amt}
	verifAssume(msg.ValidateBasic() == nil)
	err, _ := e.verifDeliver(func() error { _, err := NewMsgServerImpl(e.k).BurnMT(e.ctx, msg); return err })
	b1, b2, rest, sup := e.read()
	e.assertInv(b1, b2, rest, sup)
	if err != nil {
		verifCover("refused")
		verifAssert(e.b1 < amt, "a burn is refused only for lack of balance")
		verifAssert(b1.Cmp(u(e.b1)) == 0 && sup.Cmp(u(e.supply)) == 0, "refused burn changes nothing")
		return
	}
	verifCover("burned")
	verifAssert(verifSub(u(e.b1), b1).Cmp(u(amt)) == 0, "holder loses exactly the burned amount")
	verifAssert(verifSub(u(e.supply), sup).Cmp(u(amt)) == 0, "supply falls by exactly the burned amount")
	verifAssert(b2.Cmp(u(e.b2)) == 0 && rest.Cmp(u(e.rest)) == 0, "burn touches nobody else")
}

// C15 mint of an existing MT: only the class owner; both overflow checks.
func VerifC15_Mint() {
	verifExpect("minted", "refused")
	e := newMtEnv()
	// in this step the class belongs to alice (a tracked holder); bob is the stranger
	e.k.SetDenom(e.ctx, types.Denom{Id: e.denomID, Name: "class", Owner: e.alice.String()})
	amt := verifUint64("amt")
	actor, isOwner := e.alice, true
	if verifChoice("actor", 2) == 1 {
		actor, isOwner = e.bob, false
	}
	// the recipient: named explicitly (the owner or the other account) or left empty (= the sender)
	recipient, recStr := actor, ""
	switch verifChoice("recipient", 3) {
	case 1:
		recipient, recStr = e.alice, e.alice.String()
	case 2:
		recipient, recStr = e.bob, e.bob.String()
	}
	msg := &types.MsgMintMT{Id: e.mtID, DenomId: e.denomID, Amount: amt, Sender: actor.String(), Recipient: recStr}
	verifAssume(msg.ValidateBasic() == nil)
	err, _ := e.verifDeliver(func() error { _, err := NewMsgServerImpl(e.k).MintMT(e.ctx, msg); return err })
	b1, b2, rest, sup := e.read()
	e.assertInv(b1, b2, rest, sup)
	r0, r1 := u(e.b1), b1
	if recipient.Equals(e.bob) {
		r0, r1 = u(e.b2), b2
	}
	two64 := verifPow2(64)
	fits := verifAdd(u(e.supply), u(amt)).Cmp(two64) < 0 && verifAdd(r0, u(amt)).Cmp(two64) < 0
	if err != nil {
		verifCover("refused")
		verifAssert(b1.Cmp(u(e.b1)) == 0 && b2.Cmp(u(e.b2)) == 0 && sup.Cmp(u(e.supply)) == 0, "refused mint changes nothing")
		verifAssert(!(isOwner && fits), "the class owner can mint to anybody as long as nothing overflows")
		return
	}
	verifCover("minted")
	verifAssert(isOwner, "only the class owner mints")
	verifAssert(verifSub(r1, r0).Cmp(u(amt)) == 0, "recipient gains exactly the minted amount")
	verifAssert(verifSub(sup, u(e.supply)).Cmp(u(amt)) == 0, "supply grows by exactly the minted amount (no wrap)")
}

// C15 class governance: edit and class handover only by the class owner.
func VerifC15_OwnerOnly() {
	verifExpect("done", "refused")
	e := newMtEnv()
	actor, isOwner := e.owner, true
	if verifChoice("actor", 2) == 1 {
		actor, isOwner = e.bob, false
	}
	var err error
	if verifChoice("op", 2) == 0 {
		msg := &types.MsgEditMT{Id: e.mtID, DenomId: e.denomID, Sender: actor.String(), Data: []byte("new")}
		verifAssume(msg.ValidateBasic() == nil)
		err, _ = e.verifDeliver(func() error { _, err := NewMsgServerImpl(e.k).EditMT(e.ctx, msg); return err })
	} else {
		msg := &types.MsgTransferDenom{Id: e.denomID, Sender: actor.String(), Recipient: e.alice.String()}
		verifAssume(msg.ValidateBasic() == nil)
		err, _ = e.verifDeliver(func() error { _, err := NewMsgServerImpl(e.k).TransferDenom(e.ctx, msg); return err })
	}
	d, _ := e.k.GetDenom(e.ctx, e.denomID)
	b1, b2, rest, sup := e.read()
	e.assertInv(b1, b2, rest, sup)
	if err != nil {
		verifCover("refused")
		verifAssert(!isOwner, "the owner is never refused")
		verifAssert(d.Owner == e.owner.String(), "refused op leaves the owner")
		return
	}
	verifCover("done")
	verifAssert(isOwner, "only the class owner edits or hands over")
}
