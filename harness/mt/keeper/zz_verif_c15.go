package keeper

import (
	"math/big"

	sdk "github.com/cosmos/cosmos-sdk/types"

	"mods.irisnet.org/modules/mt/types"
)

type mtEnv struct {
	*vEnv
	k                    Keeper
	owner, alice, bob    sdk.AccAddress
	denomID, mtID        string
	b1, b2, rest, supply uint64
}

func u(x uint64) *big.Int { return new(big.Int).SetUint64(x) }

// newMtEnv: one class owned by `owner`, one MT with symbolic balances of alice (b1), bob (b2),
// a remainder held by others (rest) and the supply record; invariant M1: b1+b2+rest == supply over Z.
func newMtEnv() *mtEnv {
	e := &mtEnv{vEnv: newVEnv(types.StoreKey, 10)}
	e.k = NewKeeper(e.cdc, e.key)
	e.owner, e.alice, e.bob = vAddr(1), vAddr(2), vAddr(3)
	e.denomID, e.mtID = "denom1", "mt1"
	e.k.SetDenom(e.ctx, types.Denom{Id: e.denomID, Name: "class", Owner: e.owner.String()})
	e.k.SetMT(e.ctx, e.denomID, types.NewMT(e.mtID, 0, []byte("data")))
	e.b1, e.b2, e.rest, e.supply = verifUint64("b1"), verifUint64("b2"), verifUint64("rest"), verifUint64("supply")
	verifAssume(verifAdd(u(e.b1), u(e.b2), u(e.rest)).Cmp(u(e.supply)) == 0)
	st := e.store()
	st.Set(types.KeyBalance(e.alice, e.denomID, e.mtID), types.MustMarshalAmount(e.cdc, e.b1))
	if verifChoice("bobHasRecord", 2) == 1 {
		st.Set(types.KeyBalance(e.bob, e.denomID, e.mtID), types.MustMarshalAmount(e.cdc, e.b2))
	} else {
		verifAssume(e.b2 == 0)
	}
	st.Set(types.KeyBalance(vAddr(7), e.denomID, e.mtID), types.MustMarshalAmount(e.cdc, e.rest))
	st.Set(types.KeySupply(e.denomID, e.mtID), types.MustMarshalSupply(e.cdc, e.supply))
	return e
}

func (e *mtEnv) read() (b1, b2, rest, supply *big.Int) {
	return u(e.k.GetBalance(e.ctx, e.denomID, e.mtID, e.alice)), u(e.k.GetBalance(e.ctx, e.denomID, e.mtID, e.bob)),
		u(e.k.GetBalance(e.ctx, e.denomID, e.mtID, vAddr(7))), u(e.k.GetMTSupply(e.ctx, e.denomID, e.mtID))
}

func (e *mtEnv) assertInv(b1, b2, rest, supply *big.Int) {
	verifAssert(verifAdd(b1, b2, rest).Cmp(supply) == 0, "M1 balances add up to supply (over the integers)")
}

// C15 transfer: moves exactly `amount`, needs balance >= amount, never wraps.
func VerifC15_Transfer() {
	verifExpect("moved", "refused", "self")
	e := newMtEnv()
	amt := verifUint64("amt")
	to := e.bob
	self := verifChoice("to", 2) == 1
	if self {
		to = e.alice
	}
	msg := &types.MsgTransferMT{Id: e.mtID, DenomId: e.denomID, Sender: e.alice.String(), Recipient: to.String(), Amount: amt}
	verifAssume(msg.ValidateBasic() == nil)
	err, _ := e.verifDeliver(func() error { _, err := NewMsgServerImpl(e.k).TransferMT(e.ctx, msg); return err })
	b1, b2, rest, sup := e.read()
	e.assertInv(b1, b2, rest, sup)
	verifAssert(sup.Cmp(u(e.supply)) == 0 && rest.Cmp(u(e.rest)) == 0, "transfer leaves supply and third parties alone")
	if err != nil {
		verifCover("refused")
		verifAssert(e.b1 < amt, "a transfer is refused only for lack of balance")
		verifAssert(b1.Cmp(u(e.b1)) == 0 && b2.Cmp(u(e.b2)) == 0, "refused transfer changes nothing")
		return
	}
	verifAssert(e.b1 >= amt, "transfer needs balance >= amount")
	if self {
		verifCover("self")
		verifAssert(b1.Cmp(u(e.b1)) == 0 && b2.Cmp(u(e.b2)) == 0, "self-transfer changes nothing")
		return
	}
	verifCover("moved")
	verifAssert(verifSub(u(e.b1), b1).Cmp(u(amt)) == 0, "sender loses exactly the amount")
	verifAssert(verifSub(b2, u(e.b2)).Cmp(u(amt)) == 0, "recipient gains exactly the amount")
}

// C15 burn: balance and supply fall by the same amount; underflow impossible.
func VerifC15_Burn() {
	verifExpect("burned", "refused")
	e := newMtEnv()
	amt := verifUint64("amt")
	msg := &types.MsgBurnMT{Id: e.mtID, DenomId: e.denomID, Sender: e.alice.String(), Amount: amt}
	verifAssume(msg.ValidateBasic() == nil)
	err, _ := e.verifDeliver(func() error { _, err := NewMsgServerImpl(e.k).BurnMT(e.ctx, msg); return err })
	b1, b2, rest, sup := e.read()
	e.assertInv(b1, b2, rest, sup)
	if err != nil {
		verifCover("refused")
		verifAssert(e.b1 < amt, "a burn is refused only for lack of balance")
		verifAssert(b1.Cmp(u(e.b1)) == 0 && sup.Cmp(u(e.supply)) == 0, "refused burn changes nothing")
		return
	}
	verifCover("burned")
	verifAssert(verifSub(u(e.b1), b1).Cmp(u(amt)) == 0, "holder loses exactly the burned amount")
	verifAssert(verifSub(u(e.supply), sup).Cmp(u(amt)) == 0, "supply falls by exactly the burned amount")
	verifAssert(b2.Cmp(u(e.b2)) == 0 && rest.Cmp(u(e.rest)) == 0, "burn touches nobody else")
}

// C15 mint of an existing MT: only the class owner; both overflow checks.
func VerifC15_Mint() {
	verifExpect("minted", "refused")
	e := newMtEnv()
	// in this step the class belongs to alice (a tracked holder); bob is the stranger
	e.k.SetDenom(e.ctx, types.Denom{Id: e.denomID, Name: "class", Owner: e.alice.String()})
	amt := verifUint64("amt")
	actor, isOwner := e.alice, true
	if verifChoice("actor", 2) == 1 {
		actor, isOwner = e.bob, false
	}
	// the recipient: named explicitly (the owner or the other account) or left empty (= the sender)
	recipient, recStr := actor, ""
	switch verifChoice("recipient", 3) {
	case 1:
		recipient, recStr = e.alice, e.alice.String()
	case 2:
		recipient, recStr = e.bob, e.bob.String()
	}
	msg := &types.MsgMintMT{Id: e.mtID, DenomId: e.denomID, Amount: amt, Sender: actor.String(), Recipient: recStr}
	verifAssume(msg.ValidateBasic() == nil)
	err, _ := e.verifDeliver(func() error { _, err := NewMsgServerImpl(e.k).MintMT(e.ctx, msg); return err })
	b1, b2, rest, sup := e.read()
	e.assertInv(b1, b2, rest, sup)
	r0, r1 := u(e.b1), b1
	if recipient.Equals(e.bob) {
		r0, r1 = u(e.b2), b2
	}
	two64 := verifPow2(64)
	fits := verifAdd(u(e.supply), u(amt)).Cmp(two64) < 0 && verifAdd(r0, u(amt)).Cmp(two64) < 0
	if err != nil {
		verifCover("refused")
		verifAssert(b1.Cmp(u(e.b1)) == 0 && b2.Cmp(u(e.b2)) == 0 && sup.Cmp(u(e.supply)) == 0, "refused mint changes nothing")
		verifAssert(!(isOwner && fits), "the class owner can mint to anybody as long as nothing overflows")
		return
	}
	verifCover("minted")
	verifAssert(isOwner, "only the class owner mints")
	verifAssert(verifSub(r1, r0).Cmp(u(amt)) == 0, "recipient gains exactly the minted amount")
	verifAssert(verifSub(sup, u(e.supply)).Cmp(u(amt)) == 0, "supply grows by exactly the minted amount (no wrap)")
}

// C15 class governance: edit and class handover only by the class owner.
func VerifC15_OwnerOnly() {
	verifExpect("done", "refused")
	e := newMtEnv()
	actor, isOwner := e.owner, true
	if verifChoice("actor", 2) == 1 {
		actor, isOwner = e.bob, false
	}
	var err error
	op := verifChoice("op", 2)
	newData := []string{"new", types.DoNotModify}[verifChoice("editData", 2)]
	if op == 0 {
		msg := &types.MsgEditMT{Id: e.mtID, DenomId: e.denomID, Sender: actor.String(), Data: []byte(newData)}
		verifAssume(msg.ValidateBasic() == nil)
		err, _ = e.verifDeliver(func() error { _, err := NewMsgServerImpl(e.k).EditMT(e.ctx, msg); return err })
	} else {
		msg := &types.MsgTransferDenom{Id: e.denomID, Sender: actor.String(), Recipient: e.alice.String()}
		verifAssume(msg.ValidateBasic() == nil)
		err, _ = e.verifDeliver(func() error { _, err := NewMsgServerImpl(e.k).TransferDenom(e.ctx, msg); return err })
	}
	d, _ := e.k.GetDenom(e.ctx, e.denomID)
	b1, b2, rest, sup := e.read()
	e.assertInv(b1, b2, rest, sup)
	if err != nil {
		verifCover("refused")
		verifAssert(!isOwner, "the owner is never refused")
		verifAssert(d.Owner == e.owner.String(), "refused op leaves the owner")
		return
	}
	verifCover("done")
	verifAssert(isOwner, "only the class owner edits or hands over")
	m, merr := e.k.GetMT(e.ctx, e.denomID, e.mtID)
	if op == 0 {
		want := "data" // what the token carried before
		if newData != types.DoNotModify {
			want = newData
		}
		verifAssert(merr == nil && string(m.GetData()) == want && d.Owner == e.owner.String(), "an edit stores the new metadata (the do-not-modify sentinel keeps the old) and nothing else")
	} else {
		verifAssert(d.Owner == e.alice.String() && merr == nil && string(m.GetData()) == "data", "a handover changes the class owner and nothing else")
	}
}

// C15 ids: classes and tokens created one after the other - from any position of the two id sequences - get
// ids of their own: never an id that exists already, never the same id twice; a new token starts with
// exactly the minted amount as its supply, held by the recipient; the class counts its tokens (a further
// mint of an existing token does not count again); only the class owner creates tokens in it.
func VerifC15_NewIds() {
	verifExpect("created")
	e := &mtEnv{vEnv: newVEnv(types.StoreKey, 10)}
	e.k = NewKeeper(e.cdc, e.key)
	alice, bob := vAddr(2), vAddr(3)
	seqs := []uint64{0, 1, 9, 1 << 40}
	if sd := verifChoice("denomSequence", 4); sd > 0 {
		e.k.SetDenomSequence(e.ctx, seqs[sd])
	}
	if sm := verifChoice("mtSequence", 4); sm > 0 {
		e.k.SetMTSequence(e.ctx, seqs[sm])
	}
	srv := NewMsgServerImpl(e.k)
	_, err1 := srv.IssueDenom(e.ctx, &types.MsgIssueDenom{Name: "one", Sender: alice.String()})
	_, err2 := srv.IssueDenom(e.ctx, &types.MsgIssueDenom{Name: "two", Sender: bob.String()})
	verifAssert(err1 == nil && err2 == nil, "anybody can issue a class")
	ds := e.k.GetDenoms(e.ctx)
	verifAssert(len(ds) == 2 && ds[0].Id != ds[1].Id, "two classes issued one after the other have different ids")
	var mine types.Denom
	for _, d := range ds {
		if d.Name == "one" {
			mine = d
		}
	}
	verifAssert(mine.Owner == alice.String(), "a class belongs to its issuer")
	a1, a2, a3 := verifUint64("amt1"), verifUint64("amt2"), verifUint64("amt3")
	verifAssume(a1 >= 1 && a2 >= 1 && a3 >= 1 && a1 < 1<<62 && a3 < 1<<62)
	_, e1 := srv.MintMT(e.ctx, &types.MsgMintMT{DenomId: mine.Id, Amount: a1, Sender: alice.String(), Recipient: alice.String()})
	_, e2 := srv.MintMT(e.ctx, &types.MsgMintMT{DenomId: mine.Id, Amount: a2, Sender: alice.String(), Recipient: bob.String()})
	_, e3 := srv.MintMT(e.ctx, &types.MsgMintMT{DenomId: mine.Id, Amount: 5, Sender: bob.String(), Recipient: bob.String()})
	verifAssert(e1 == nil && e2 == nil, "the class owner creates tokens in its class")
	verifAssert(e3 != nil, "nobody else creates tokens in a class")
	ms := e.k.GetMTs(e.ctx, mine.Id)
	verifAssert(len(ms) == 2 && ms[0].GetID() != ms[1].GetID() && e.k.GetDenomSupply(e.ctx, mine.Id) == 2, "two tokens created one after the other have different ids and the class counts both")
	verifCover("created")
	var ofAlice, ofBob string
	for _, m := range ms {
		if e.k.GetBalance(e.ctx, mine.Id, m.GetID(), alice) > 0 {
			ofAlice = m.GetID()
		} else {
			ofBob = m.GetID()
		}
	}
	verifAssert(ofAlice != "" && ofBob != "" && e.k.GetBalance(e.ctx, mine.Id, ofAlice, alice) == a1 && e.k.GetMTSupply(e.ctx, mine.Id, ofAlice) == a1 && e.k.GetBalance(e.ctx, mine.Id, ofAlice, bob) == 0, "a new token's whole supply is the minted amount, held by the recipient")
	verifAssert(e.k.GetBalance(e.ctx, mine.Id, ofBob, bob) == a2 && e.k.GetMTSupply(e.ctx, mine.Id, ofBob) == a2 && e.k.GetBalance(e.ctx, mine.Id, ofBob, alice) == 0, "a new token's whole supply is the minted amount, held by the recipient (second token)")
	// more of an existing token
	_, e4 := srv.MintMT(e.ctx, &types.MsgMintMT{Id: ofAlice, DenomId: mine.Id, Amount: a3, Sender: alice.String(), Recipient: bob.String()})
	verifAssert(e4 == nil && e.k.GetDenomSupply(e.ctx, mine.Id) == 2 && len(e.k.GetMTs(e.ctx, mine.Id)) == 2, "minting more of an existing token creates no new token")
	verifAssert(e.k.GetMTSupply(e.ctx, mine.Id, ofAlice) == a1+a3 && e.k.GetBalance(e.ctx, mine.Id, ofAlice, bob) == a3 && e.k.GetBalance(e.ctx, mine.Id, ofAlice, alice) == a1, "a further mint adds exactly its amount to the supply and to the recipient")
	verifAssert(e.k.GetMTSupply(e.ctx, mine.Id, ofBob) == a2, "other tokens of the class are untouched")
	// every way of reading a token reports the same, current, supply (the token list feeds the genesis export
	// and the supply invariant)
	for _, m := range e.k.GetMTs(e.ctx, mine.Id) {
		one, gerr := e.k.GetMT(e.ctx, mine.Id, m.GetID())
		verifAssert(gerr == nil && m.GetSupply() == e.k.GetMTSupply(e.ctx, mine.Id, m.GetID()) && one.GetSupply() == m.GetSupply(), "the supply recorded for a token is the sum of its holders' balances, however it is read")
	}
	// the other class creates tokens of its own: generated ids are never reused - not within a class, not across classes
	var theirs types.Denom
	for _, d := range ds {
		if d.Name == "two" {
			theirs = d
		}
	}
	_, e5 := srv.MintMT(e.ctx, &types.MsgMintMT{DenomId: theirs.Id, Amount: 4, Sender: bob.String(), Recipient: bob.String()})
	_, e6 := srv.MintMT(e.ctx, &types.MsgMintMT{DenomId: theirs.Id, Amount: 6, Sender: bob.String(), Recipient: alice.String()})
	verifAssert(e5 == nil && e6 == nil, "the owner of the other class creates tokens in it")
	all := map[string]int{}
	for _, d := range ds {
		for _, m := range e.k.GetMTs(e.ctx, d.Id) {
			all[m.GetID()]++
		}
	}
	verifAssert(len(all) == 4 && all[ofAlice] == 1 && all[ofBob] == 1, "generated token ids are never reused, not even in another class")
	verifAssert(e.k.GetMTSupply(e.ctx, mine.Id, ofAlice) == a1+a3 && e.k.GetMTSupply(e.ctx, mine.Id, ofBob) == a2 && e.k.GetDenomSupply(e.ctx, mine.Id) == 2 && e.k.GetDenomSupply(e.ctx, theirs.Id) == 2, "tokens created in one class leave the other class alone")
}
